#!/bin/bash
# Offline setup: make sure hypothesis (into /venv if absent) and atheris (into /verif/.deps) are importable.
set -u
cd "$(dirname "$0")"
PY=${VERIF_PYTHON:-/venv/bin/python}
WH=/opt/veriftools/wheels
export PIP_NO_INDEX=1 PIP_DISABLE_PIP_VERSION_CHECK=1
if ! "$PY" -c "import hypothesis" 2>/dev/null; then
  "$PY" -m pip install --no-index --find-links "$WH" hypothesis || { echo "setup: cannot install hypothesis" >&2; exit 1; }
fi
mkdir -p .deps
if ! PYTHONPATH=.deps "$PY" -c "import atheris" 2>/dev/null; then
  "$PY" -m pip install --no-index --find-links "$WH" --target .deps atheris >/dev/null 2>&1 \
    || echo "setup: atheris not installable (the C04 fuzz stage will be skipped and reported as such)" >&2
fi
mkdir -p evidence out
"$PY" -c "import sys; sys.path.insert(0, '.'); from vkit import env; env.import_adaptix(); import hypothesis; print('setup ok: hypothesis', hypothesis.__version__)"
