"""Canary for C19: any evaluation of injected text calls ``hit()``."""
HITS = []


def hit(*a, **k):
    HITS.append((a, k))
    return "canary"
