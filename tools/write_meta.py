#!/usr/bin/env python3
"""tools/write_meta.py <seed-dir-name> <caught_by> <first_signature> <result text>
Merge the seeding agent's own description (meta.agent.json) with what was observed here into seeded/<name>/meta.json."""
import json
import os
import sys

name, caught_by, sig, result = sys.argv[1:5]
d = os.path.join(os.path.dirname(os.path.dirname(os.path.abspath(__file__))), "seeded", name)
agent = {}
p = os.path.join(d, "meta.agent.json")
if os.path.exists(p):
    with open(p) as f:
        agent = json.load(f)
meta = {
    "property": name.split("-")[0],
    "breaks": agent.get("summary", ""),
    "needs": agent.get("needs", ""),
    "files": agent.get("files", []),
    "written_by": os.environ.get("SEED_ROUND_TEXT") or
                  "independent sub-agent (round 2) that saw only the property text and a private worktree; asked for a "
                  "less obvious site than the first idea",
    "confirmed": "tools/confirm_seed.sh: demo.py exits 0 on the unchanged tree and 1 with patch.diff applied; the "
                 "repository's suite passes with the patch (2588 passed, 24 skipped)",
    "checked_with": f"tools/try_seed.sh {name} seeded/{name}/patch.diff {caught_by}  (scratch worktree, VERIF_REPO, quick tier)",
    "caught_by": caught_by,
    "result": result,
    "first_signature": sig,
}
if os.environ.get("ALSO_CHECKS"):
    meta["also_checks"] = os.environ["ALSO_CHECKS"].split()
with open(os.path.join(d, "meta.json"), "w") as f:
    json.dump(meta, f, indent=1, ensure_ascii=False)
    f.write("\n")
print("wrote", os.path.join(d, "meta.json"))
