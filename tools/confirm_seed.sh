#!/bin/bash
# tools/confirm_seed.sh <name> <patch> <demo.py>   -- confirm a seeded change in a scratch worktree:
#   demo exits 0 without the change, non-zero with it, and the repository's own suite still passes with it.
set -u
name=$1; patch=$2; demo=$3
wt=/tmp/tryseed/confirm_$name
mkdir -p /tmp/tryseed
git -C /repo worktree remove --force "$wt" >/dev/null 2>&1
git -C /repo worktree add --detach "$wt" HEAD -q || exit 2
export PYTHONPATH=$wt/src:$wt/tests/tests_helpers PYTHONDONTWRITEBYTECODE=1
( cd /tmp && /venv/bin/python "$demo" >/tmp/tryseed/confirm_$name.without.log 2>&1 ); rc0=$?
git -C "$wt" apply "$patch" || { echo "CONFIRM $name: patch does not apply"; git -C /repo worktree remove --force "$wt"; exit 2; }
( cd /tmp && /venv/bin/python "$demo" >/tmp/tryseed/confirm_$name.with.log 2>&1 ); rc1=$?
suite=$(cd "$wt" && /venv/bin/python -m pytest -q -p no:cacheprovider --timeout=900 -q 2>&1 | tail -1)
echo "CONFIRM $name: demo_without=$rc0 demo_with=$rc1 suite='$suite' :: $(tail -1 /tmp/tryseed/confirm_$name.with.log | cut -c1-160)"
git -C /repo worktree remove --force "$wt"
