#!/venv/bin/python
"""tools/cov_run.py <out.json> <module> <args...>: run a check module in-process (VERIF_SHARDS=1) and record which lines of
/repo/src/adaptix were executed (sys.monitoring, each line reported once).  Diagnostic aid, not part of any check."""
import json
import os
import runpy
import sys

out, mod, *rest = sys.argv[1:]
root = os.path.realpath(os.path.join(os.environ.get("VERIF_REPO", "/repo"), "src", "adaptix"))
hit = set()
mon = sys.monitoring
TOOL = 5
mon.use_tool_id(TOOL, "covrun")


def on_line(code, line):
    fn = code.co_filename
    if fn.startswith(root):
        hit.add((fn[len(root) + 1:], line))
    return mon.DISABLE


mon.register_callback(TOOL, mon.events.LINE, on_line)
mon.set_events(TOOL, mon.events.LINE)
sys.argv = [mod, *rest]
sys.path.insert(0, os.path.dirname(os.path.dirname(os.path.abspath(__file__))))
try:
    runpy.run_module(mod, run_name="__main__")
except SystemExit:
    pass
finally:
    mon.set_events(TOOL, 0)
    with open(out, "w") as f:
        json.dump(sorted(hit), f)
