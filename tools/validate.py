#!/opt/veriftools/pyvenv/bin/python
"""Validate MANIFEST.json and every evidence file against the schemas."""
import glob, json, sys
import jsonschema
ok = True
jsonschema.validate(json.load(open("/verif/MANIFEST.json")), json.load(open("/root/.vp/MANIFEST.schema.json")))
sch = json.load(open("/root/.vp/EVIDENCE.schema.json"))
for p in sorted(glob.glob("/verif/evidence/*.json")):
    try:
        jsonschema.validate(json.load(open(p)), sch)
        print("ok ", p)
    except Exception as e:
        ok = False
        print("BAD", p, str(e)[:300])
sys.exit(0 if ok else 1)
