#!/bin/bash
# Run every seeded change under /verif/seeded against the check of its property (and optional extra checks).
cd "$(dirname "$0")/.."
for d in ${SEEDS:-seeded/*/}; do
  d=${d%/}; name=$(basename $d); id=${name%%-*}
  extra=$(python3 -c "import json,sys;print(' '.join(json.load(open('$d/meta.json')).get('also_checks',[])))" 2>/dev/null)
  tools/try_seed.sh "$name" "$PWD/$d/patch.diff" $id $extra 2>&1 | grep "^SEED"
done
