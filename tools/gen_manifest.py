#!/venv/bin/python
"""Regenerate MANIFEST.json from tools/manifest_src.py (single source of truth for the check registry)."""
import json, os, sys
here = os.path.dirname(os.path.abspath(__file__))
sys.path.insert(0, here)
import manifest_src as m  # noqa: E402

props = [json.loads(l)["id"] for l in open(os.path.join(here, "..", "properties.jsonl"))]
checks = []
for pid in props:
    c = m.CHECKS.get(pid)
    if not c:
        continue
    checks.append({
        "property_id": pid,
        "quick_cmd": f"./check {pid} quick",
        "thorough_cmd": f"./check {pid} thorough",
        "evidence_file": f"/verif/evidence/{pid}.json",
        "replay_cmd_template": f"./check {pid} --replay {{path}}",
        "engine": c.get("engine", "hypothesis"),
        "level_claimed": {"category": "exploration", "text": c["text"], "design_ref": f"DESIGN.md section 4, {pid}"},
        "level_note": c["note"],
        "technique": c["technique"],
    })
na = [{"property_id": pid, "reason": m.NOT_APPLICABLE.get(pid, "check not built yet in this session; see DESIGN.md section 4 for the planned design")}
      for pid in props if pid not in m.CHECKS]
manifest = {
    "version": 1,
    "setup_cmd": "./setup.sh",
    "hooks": {
        "guard": "ADAPTIX_VERIF",
        "enable": "no source hooks are needed: checks import /repo/src of the working tree directly (PYTHONPATH first entry); ADAPTIX_VERIF=1 is exported by ./check but nothing in /repo reads it",
        "baseline_off_cmd": "cd /repo && /venv/bin/python -m pytest -ra -q -p no:cacheprovider --timeout=900 --continue-on-collection-errors",
        "source_commits": [],
        "add_only": True,
    },
    "engines": m.ENGINES,
    "checks": checks,
    "notes": m.NOTES,
    "not_applicable": na,
}
with open(os.path.join(here, "..", "MANIFEST.json"), "w") as f:
    json.dump(manifest, f, indent=1)
    f.write("\n")
print("MANIFEST.json:", len(checks), "checks,", len(na), "not_applicable")
try:
    import jsonschema
    jsonschema.validate(manifest, json.load(open("/root/.vp/MANIFEST.schema.json")))
    print("schema ok")
except ImportError:
    pass
