#!/bin/bash
# Sensitivity by reverting each "fix:" commit of /repo in a scratch worktree: the check that found the defect must report it again.
cd "$(dirname "$0")/.."
while read commit checks; do
  [ -z "$commit" ] && continue
  tools/try_seed.sh "rev_$commit" "revert:$commit" $checks 2>&1 | grep "^SEED"
done <<'LIST'
d1f73a2 C18
45ea877 C18
734f54f C18
44329a1 C02 C01
70ecbb1 C01 C02
94eacf5 C15 C01
be36dda C04
04a9158 C04
d1991b1 C04
8be81f5 C04
10e5a6a C04
105a9a2 C11
23168b2 C05 C06
70f78c3 C06
320cb52 C15
50e4177 C08
b445a86 C08
872c6f2 C08
798f1cf C19
e4c998a C19
89c47ab C11
5a3aa2a C09
LIST
