#!/bin/bash
# every seeded change against its check(s), then the quick tier of every check on the unchanged tree at three seeds
cd "$(dirname "$0")/.."
echo "=== seeds"; tools/run_seeds.sh
echo "=== soak"; SEEDS="${SOAK_SEEDS:-1 2 3}" tools/soak.sh
