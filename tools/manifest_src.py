ENGINES = [
    {"name": "vkit", "path": "/verif/vkit", "serves_properties": [],
     "kind_free_text": "Hypothesis-driven generated-input search with explicit oracles; collect-and-bucket violations; "
                       "bounded exhaustive enumeration of small finite sub-domains through the same oracle; 8/16 process shards"},
]
NOTES = ("All checks: ./check <ID> quick|thorough; exit 0 held / 1 VIOLATION / 2 harness error. Evidence is rewritten by "
         "every run. known_findings.json lists open findings and fixed: records; replays/<ID>/ holds committed regression cases.")
NOT_APPLICABLE = {}
CHECKS = {
    "C18": {
        "technique": "property-based testing: Hypothesis-generated enum/flag classes x provider options, exhaustive enumeration of members / 2^n flag combinations / candidate representations per class against a 3-valued reference derived from the provider docstrings",
        "text": "Exploration: thousands of generated (class, provider, options) programs; per program every member, every OR-combination and ~100 candidate representations are enumerated; round-trip identity, dump injectivity, creation success and accept/reject agreement with an independent reference are asserted.",
        "note": "Trusted: Python's enum module, the harness's reference transcription of the provider docstrings; equal-but-differently-typed data, pseudo-members, alias names, custom _missing_ hits are unspecified (not asserted).",
    },
}
