ENGINES = [
    {"name": "vkit", "path": "/verif/vkit", "serves_properties": [],
     "kind_free_text": "Hypothesis-driven generated-input search with explicit oracles; collect-and-bucket violations; "
                       "bounded exhaustive enumeration of small finite sub-domains through the same oracle; 8/16 process shards"},
]
NOTES = ("All checks: ./check <ID> quick|thorough; exit 0 held / 1 VIOLATION / 2 harness error. Evidence is rewritten by "
         "every run. known_findings.json lists open findings and fixed: records; replays/<ID>/ holds committed regression cases.")
NOT_APPLICABLE = {}
CHECKS = {
    "C01": {
        "technique": "property-based testing: Hypothesis-generated (type expression, canonical value, options, admissible name_mapping recipe) with a round-trip (inverse) oracle, plus JSON and AdaptixJSON legs",
        "text": "Exploration: thousands (quick) to hundreds of thousands (thorough) of distinct generated programs (type x recipe x options) each with a generated value; dump must succeed, load(dump(x)) must be type-exactly equal to x, also after json.dumps/json.loads and through AdaptixJSON bind/result.",
        "note": "Trusted: the harness's type-aware comparator and class builder; unions are generated with provably non-overlapping, dumpable cases; values stay inside documented lossless ranges (timedelta, Pattern flags).",
    },
    "C04": {
        "technique": "property-based testing / fuzzing: Hypothesis-generated type expressions x data soup (arbitrary data and near-valid mutations of valid dumps) x 6 modes with an exception-validity oracle; user-code sub-check for the second sentence",
        "text": "Exploration: every escaping exception tree must consist of LoadError nodes only; with user code raising ArithmeticError the escaping exception must not be classified as LoadError.",
        "note": "Trusted: exception flattening helper; input nesting capped (RecursionError on over-deep data not counted); ExtraKwargs excluded (documented TypeError zone).",
    },
    "C18": {
        "technique": "property-based testing: Hypothesis-generated enum/flag classes x provider options, exhaustive enumeration of members / 2^n flag combinations / candidate representations per class against a 3-valued reference derived from the provider docstrings",
        "text": "Exploration: thousands of generated (class, provider, options) programs; per program every member, every OR-combination and ~100 candidate representations are enumerated; round-trip identity, dump injectivity, creation success and accept/reject agreement with an independent reference are asserted.",
        "note": "Trusted: Python's enum module, the harness's reference transcription of the provider docstrings; equal-but-differently-typed data, pseudo-members, alias names, custom _missing_ hits are unspecified (not asserted).",
    },
}
