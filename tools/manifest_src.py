ENGINES = [
    {"name": "vkit", "path": "/verif/vkit", "serves_properties": [],
     "kind_free_text": "Hypothesis-driven generated-input search with explicit oracles; collect-and-bucket violations; "
                       "bounded exhaustive enumeration of small finite sub-domains through the same oracle; 8/16 process shards"},
]
NOTES = ("All checks: ./check <ID> quick|thorough; exit 0 held / 1 VIOLATION / 2 harness error. Evidence is rewritten by "
         "every run. known_findings.json lists open findings and fixed: records; replays/<ID>/ holds committed regression cases.")
NOT_APPLICABLE = {}
CHECKS = {
    "C13": {
        "technique": "property-based testing against a reference model: Hypothesis-generated pairs of logical models (renamed / dropped / added / nested fields; dataclass, attrs, NamedTuple, TypedDict, pydantic, plain __init__ destinations; generic nested pairs), conversion recipes from every public provider with unambiguous predicates, impl_converter stubs with 0-n extra parameters, all entry points; oracle = independent linking / coercion reference (class Ref) constructing the destination field-wise, plus source snapshot, signature / name / doc preservation and call-plan checks",
        "text": "Exploration over generated converter programs and source values; ~4.5 % of the cases are documented refusals that must raise ProviderNotFoundError.",
        "note": "Trusted: the reference linking model written from conversion/tutorial.rst and extended-usage.rst. Not asserted: TypedDict source with an absent linked NotRequired key, source predicates matching both a field and a parameter, unsatisfiable link_function on optional fields. One open known finding (class predicate vs NotRequired[T] field).",
    },
    "C14": {
        "technique": "bounded exhaustive enumeration + property-based sampling against a documented relation: all ordered pairs of a pool of 77 field types x up to 6 link-policy configurations (exhaustive), unlinked destination fields enumerated at top level and nested, nested types sampled by Hypothesis; oracle = independently written three-valued coercible(S, D) relation AND, independent of it, structural conformance of converted canonical values to the destination type Runtime values of abstract source types include non-dict mappings (MappingProxyType, ChainMap) and non-list sequences (tuple, deque).",
        "text": "Exploration with an exhaustive pair sweep: a created converter must be justified by the documented coercion rules and must never place a value that does not conform to the destination type; creation may fail only with ProviderNotFoundError.",
        "note": "Trusted: the coercible relation transcribed from conversion/tutorial.rst 'Type coercion' and the structural conformance checker. Refusing a documented-coercible pair is counted, not reported (the property is one-directional).",
        "engine": "enumeration+hypothesis",
    },
    "C16": {
        "technique": "property-based testing with an independent substitution oracle: Hypothesis generates class hierarchies (depth <= 4, arity <= 3, partially bound / re-ordered / renamed type variables, diamonds, overriding annotations, bound / constrained / variadic variables) as pure data, builds them in several model kinds by exec of generated source, computes the expected field types with its own 30-line substitution and probes loads / dumps with conforming data and data that fits only another substitution",
        "text": "Exploration: conforming data must load and round-trip, data fitting only a different pool member must fail with LoadError at that field's trail, bare use must follow the documented implicit parameters.",
        "note": "Trusted: the harness's own substitution and the mutually exclusive strict type pool; pydantic multi-level / nested open generics excluded per integrations.rst; strict coercion only.",
    },
    "C03": {
        "technique": "property-based testing against a reference model: Hypothesis-generated (model shape, 1-4 stacked name_mapping providers from the full parameter grammar) programs, each evaluated under the three debug modes on inputs built by walking the reference layout (every mapped key present / absent / ill-typed, container nodes of right / wrong kind, unknown keys, short / long lists); oracle = independent reference layout model written from extended-usage.rst (overlay merge, generated key, map lookup, skip > only, validity, load / dump behaviour incl. extra_in / extra_out / omit_default / list gaps) Plus two exhaustive side tables: omit_default by equality for defaults without a literal form (mixed-in enum members, Decimal ...) x identical / equal / different values; a name_mapping bound to an ancestor class laid out alike in child and grandchild.",
        "text": "Exploration over generated loader / dumper programs: creation validity, loaded objects and delivered extras, error classification (ALL: multiset of absolute trails + key sets; FIRST / DISABLE: membership), dumped data with exact types.",
        "note": "Trusted: the reference layout model (props/c03_model_layout.py, section RefLayout). Modelled as observed and consistent between loader and dumper: TypedDict fields ordered by name in list layouts, containers of nested paths always dumped / required. Two open known findings (container skeleton in collected extras - pinned by the suite; omit_default compares the dumped value).",
    },
    "C10": {
        "technique": "bounded exhaustive enumeration against a reference evaluator + property-based sampling: every enumerated predicate expression (atoms, chains <= 3, negations, binary combinations) is evaluated on every location stack of a bounded universe and compared with an independent evaluator written from the tutorial; documented identities and boolean laws compared as truth tables; deeper expressions / stacks sampled by Hypothesis; end-to-end part with marker loaders and a spy provider Plus an exhaustive sweep of the facade factories that take several predicates (enum_by_name, flag_by_member_names, enum_by_value x every list of 0-3 predicates over 16 atoms). Field ids include non-ASCII identifiers of many scripts; regex predicates are derived from each field id by a small grammar (classes, boundaries, case-insensitive groups, near misses) and may be compiled re.Pattern objects with flags.",
        "text": "Exploration with an exhaustive part (quick: 3 814 expressions x 1 329 stacks; thorough: 8 831 x 21 714) plus sampled and end-to-end parts; documented examples are fixed probes.",
        "note": "Trusted: the reference evaluator (vkit/c10_helpers.py). Unspecified (counted): bare list/dict predicates vs parametrised location types, abstract classes vs parametrised generics, strings on function-field locations; re.Pattern predicates and data protocols are not generated.",
        "engine": "enumeration+hypothesis",
    },
    "C12": {
        "technique": "schedule enumeration and PCT-style random schedule generation with a harness-owned deterministic thread scheduler (sys.monitoring / sys.settrace line events in the retort files as yield points; one thread released at a time); oracle = single-threaded reference outcomes during and after the race; hangs need confirmation in a fresh interpreter Plus a cold-process part: every schedule in a fresh interpreter with line events on every file of the adaptix package, preemption at the lines that only the first (cold) creation of a process executes (found by diffing a cold and a warm line profile). The same fresh-interpreter harness also races two DIFFERENT models (an empty-layout one and a list-layout one) on one retort, preempting at a seed-dependent sample (thorough: all) of every distinct line the first thread executes anywhere in the package.",
        "text": "Exploration of interleavings: exhaustive single-preemption sweeps (all yield points / conflict lines), two-preemption products over conflict lines, Hypothesis-generated programs with PCT schedules; 7 model families incl. recursive and mutually recursive ones, 2-3 threads.",
        "note": "Limits: Python statement granularity, GIL build, <= 3 threads, <= 2 systematic preemptions; wall clock is used only as a liveness fallback, never as a verdict (budget overruns and unconfirmed hangs are inconclusive counters).",
        "engine": "vkit/sched.py + hypothesis",
    },
    "C09": {
        "technique": "bounded exhaustive enumeration + property-based sampling against a reference model: all recipes up to length 3 (quick) / 4 (thorough) over a 21-entry core alphabet and up to 2 / 3 over the full 70-entry alphabet, longer recipes sampled by Hypothesis with a block grammar; oracle = independent linear chain-of-responsibility interpreter comparing the type-exact value and the exact per-request consultation log Extended by recursive request types (Node, List[Node]; values asserted at every nesting level), retorts derived (extend / replace) from an already placed or used retort and then placed themselves, and a model with NewType / Annotated fields (two open known findings are classified there by a transcription of the two-step lookup).",
        "text": "Exploration with exhaustive short-recipe part: marker functions make the composition order readable from the result; a logging Provider records every consultation; extend(), replace(), class-level recipes (MRO), nested and bound retorts, loaders and dumpers are covered.",
        "note": "Trusted: the reference interpreter and the logging wrapper (20% of sampled cases use raw loader()/dumper() providers to guard against the wrapper hiding something). Not covered: non-located request classes, terminal CannotProvide, location stacks deeper than two.",
        "engine": "enumeration+hypothesis",
    },
    "C17": {
        "technique": "differential property-based testing across model kinds: one generated logical model is realised as dataclass / NamedTuple / TypedDict / attrs / pydantic / SQLAlchemy classes (documented limitations as applicability predicates); loads, dumps, error structures, name_mapping effects and inter-kind converters are compared pairwise Plus an exhaustive family of models whose constructor parameter is not the field id (attrs private / alias, pydantic alias; positional, keyword-only, after a skipped optional): loaded under 3 debug modes and converted from each other. Plus parent / child twins per model kind with providers bound to the parent class.",
        "text": "Exploration: the same input must load to field-wise equal objects, equal objects must dump to equal data, bad input must produce the same flattened error structure (ALL mode), converters between kinds must copy every field.",
        "note": "Trusted: the per-kind class builders and the applicability predicates transcribed from docs/reference/integrations.rst.",
    },
    "C11": {
        "technique": "stateful (model-based) property-based testing: Hypothesis RuleBasedStateMachine generates histories of facade calls over a pool of mutually confusable hints (plus replace/extend, LRU churn, failing requests); after every step a probe battery is compared between the warm objects and a freshly constructed equal retort The pool holds models with equal-but-not-identical defaults (False / 0 / 0.0, True / 1) under an omit_default recipe.",
        "text": "Exploration over generated call histories (up to 40 steps): warm and fresh retorts must give the same outcomes, loaders obtained earlier must keep answering the same, replace()/extend() must not change the original.",
        "note": "Trusted: the differential oracle (fresh retort built with the same arguments from provider objects of its own); structural comparison of results and flattened exceptions.",
        "engine": "hypothesis-stateful",
    },
    "C19": {
        "technique": "dictionary-seeded property-based testing / fuzzing of the three code generators: Hypothesis draws field ids, class / stub names, mapped keys and defaults from hostile dictionaries (internal identifiers, builtins, metacharacters, code fragments calling a canary) plus st.text; oracle = generation succeeds, layout behaviour, canary never hit, stub signature preserved Converter cases also carry link_function functions with hostile __name__ (keywords, names of generated variables, pairs colliding after the g_ prefix, empty) and a nested pair of models named like the outer pair; TypedDict keys include Python keywords. link_constant values come from a palette of scalars, subclass instances with hostile repr, mixin enum members and containers of them.",
        "text": "Exploration of model loader, model dumper, get_converter and impl_converter generation over hostile names and keys; any evaluation of injected text is observed through a canary module.",
        "note": "Trusted: the canary (vkit_canary) and the flat layout reference; open known finding C19-nfkc-typeddict-key is excluded by construction for ~97% of the budget and still probed.",
    },
    "C08": {
        "technique": "property-based testing with instrumented generated models: constructors of generated dataclass / attrs / plain / NamedTuple / pydantic models log their call; defaults and factories come from a look-alike dictionary; the call log is bound to the signature and the result compared type-exactly with direct construction The input mapping is a generated dimension (dict, defaultdict, Counter, dict with __missing__, MappingProxyType, ChainMap).",
        "text": "Exploration: one constructor call per load, present values bound by identity to their own parameters, absent fields hold the true default (exact type) or a fresh factory result, hooks ran.",
        "note": "Trusted: Python's inspect.signature.bind and the model libraries' own constructors as the reference; field types are Any.",
    },
    "C15": {
        "technique": "metamorphic property-based testing: generated type expressions with sequences of meaning-preserving rewrites (equal normal forms, hashes, loaders, dumpers, predicates) and single meaning-changing edits (unequal normal forms); idempotence; enumerated bare generics vs documented implicit parameters Plus an exhaustive table of pairs of different classes sharing their name (enums, flags, dataclasses; other module or same module) inside reordered unions.",
        "text": "Exploration over generated spellings of one type: normalize_type must be a canonical form in both request orders (cold / warm LRU).",
        "note": "Trusted: the rewrite catalogue (each rewrite is meaning-preserving by Python typing semantics); normalize_type is the only non-facade observation point, as the property says.",
    },
    "C20": {
        "technique": "property-based testing: generated load / dump / collected-extras / convert calls made twice on the same argument; deep before/after snapshots and a type-directed identity (id()) scan of mutable containers across both results and the argument Converter twins share the source's class environment and change dict fields as well (Optional value type / abstract Mapping origin); dump and load cases also run under non-default representations (flag_by_member_names, enum_by_name, timestamps). Plus load A, load B, load A again over unions with overlapping cases, and a probe that the sharing of a mutable default VALUE does not depend on its size (0..1000 elements). Plus extra_out cases (typed / Any extra field, extractor handing out a live mapping, two fields x all / some / none of the own keys): the dumped dict is a new object in every call.",
        "text": "Exploration: arguments are never mutated, repeated calls give equal results, and no mutable container adaptix builds is shared between two results or with the argument (except below Any/object positions).",
        "note": "Trusted: structural snapshot (canon) and the type-directed walk that knows the Any/object positions; one-shot inputs exempt.",
    },
    "C01": {
        "technique": "property-based testing: Hypothesis-generated (type expression, canonical value, options, admissible name_mapping recipe) with a round-trip (inverse) oracle, plus JSON and AdaptixJSON legs",
        "text": "Exploration: thousands (quick) to hundreds of thousands (thorough) of distinct generated programs (type x recipe x options) each with a generated value; dump must succeed, load(dump(x)) must be type-exactly equal to x, also after json.dumps/json.loads and through AdaptixJSON bind/result.",
        "note": "Trusted: the harness's type-aware comparator and class builder; unions are generated with provably non-overlapping, dumpable cases; values stay inside documented lossless ranges (timedelta, Pattern flags).",
    },
    "C02": {
        "technique": "property-based testing against a reference model: Hypothesis-generated non-model type expressions x data soup / near-valid mutations x 6 modes, compared with an independent three-valued interpreter of the documented per-type rules; exhaustive small sub-check of the union dumper's MRO rule Plus an exhaustive Literal table (36 Literals with bool/int look-alikes, enum and bytes members x 25 probe data x plain/Optional/List x 6 modes) compared with the same reference. Plus the hostile table of C04 through the reference and a dump table for a datetime in a slot declared date.",
        "text": "Exploration: accept(v) must load to a type-exactly equal value, reject must raise, unspecified is only counted; dumps must equal the documented outer form including container classes.",
        "note": "Trusted: the reference interpreter (vkit/refload.py, vkit/tspec.ref_dump) transcribed from specific-types-behavior.rst; Python constructors as the lax-coercion oracle.",
    },
    "C05": {
        "technique": "property-based fault injection: Hypothesis-generated nested types/values/model layouts; a generated antichain of fault sites of the reference dump is corrupted; the oracle compares the multiset of absolute trails of reported leaves with the planted set (ALL), membership (FIRST), absence of trails (DISABLE) and input_value reachability Plus policy-focused cases (forbidding / list-layout / flattened+forbidding models below containers). Sequences of the datum are also handed over as one-shot iterators / generators / map objects.",
        "text": "Exploration: nothing lost, duplicated or spurious in ALL mode; FIRST reports exactly one planted fault with its full trail; DISABLE attaches no trail; following each trail from the root reaches the reported input_value.",
        "note": "Trusted: the harness's layout model (renames, name_style, nested paths, list layout, ExtraForbid) and fault-site enumeration; strict coercion only; a union is one leaf.",
    },
    "C06": {
        "technique": "differential property-based testing: the three debug_trail programs (DISABLE/FIRST/ALL) of one generated specification run on fresh copies of one generated input (soup, near-valid, corrupted values for dumping) Plus user loaders / dumpers that raise non-LoadError exceptions (ValueError, StopIteration) inside unions and iterables, and the list-layout / extra-field / unhashable-element / duck tables of C04 through this oracle.",
        "text": "Exploration: the modes must agree on success, on results, and the DISABLE/FIRST error must correspond (class, input value) to an error collected under ALL.",
        "note": "Trusted: structural comparator (canon); 'same class' read as 'ALL has a node that is-a the class raised' because the union loader raises bare LoadError under DISABLE (pinned by the suite).",
    },
    "C07": {
        "technique": "differential property-based testing: strict vs lax retort on one generated (type, datum); positional walk of type and datum against the documented 'allowed strict origins' table Plus the Literal table of C02 evaluated through this property's own strict-vs-lax oracle. Plus the list-layout table of C04 (mappings with integer keys, strings, one-shot iterators for a model loaded from a list) through the same oracle.",
        "text": "Exploration: strict-accepted data must be lax-accepted with an equal value (unless unions overlap under lax rules), and strict acceptance must respect the documented origins at every position.",
        "note": "Trusted: the origins table transcription; overlap analysis (tspec.lax_safe).",
    },
    "C04": {
        "technique": "property-based testing + coverage-guided fuzzing: (1) Hypothesis-generated type expressions x data soup (arbitrary data and near-valid mutations of valid dumps) x 6 modes with an exception-validity oracle, user-code sub-check for the second sentence; (2) Atheris / libFuzzer target (fuzz/c04_atheris.py): bytes -> table of generated loaders + recursively decoded datum, same oracle inside the target, saved cases re-run through the ordinary oracle Plus an exhaustive hostile-scalar table (type-aimed malformed strings and constructor-shaped data per scalar type, general hostile strings / numbers, an int above the int-to-str digit limit; bare / list element / dict value / dict key; 6 modes), ints above the digit limit planted into generated data, sets with unhashable element types, saturator layouts. Plus an exhaustive duck table: dict-layout models (first looked-up field optional / required) x root data that are mappings by one method only or not at all (object with get alone, re.Match, sqlite3.Row ...). Class objects (dict, OrderedDict, collections.abc.Mapping, list ...) and deeply nested patterns are part of the data soup and of the duck table.",
        "text": "Exploration: every escaping exception tree must consist of LoadError nodes only; with user code raising ArithmeticError the escaping exception must not be classified as LoadError.",
        "note": "Trusted: exception flattening helper; input nesting capped (RecursionError on over-deep data not counted); ExtraKwargs excluded (documented TypeError zone).",
    },
    "C18": {
        "technique": "property-based testing: Hypothesis-generated enum/flag classes x provider options, exhaustive enumeration of members / 2^n flag combinations / candidate representations per class against a 3-valued reference derived from the provider docstrings Candidates of flag_by_member_names also arrive as one-shot iterators, generators, views and deques; dumped name lists are edited in place between two dumps; flag bits beyond 32 / 53 / 64 bits.",
        "text": "Exploration: thousands of generated (class, provider, options) programs; per program every member, every OR-combination and ~100 candidate representations are enumerated; round-trip identity, dump injectivity, creation success and accept/reject agreement with an independent reference are asserted.",
        "note": "Trusted: Python's enum module, the harness's reference transcription of the provider docstrings; equal-but-differently-typed data, pseudo-members, alias names, custom _missing_ hits are unspecified (not asserted).",
    },
}
