#!/bin/bash
# Soak: run every registered quick check for several seeds; print a table of exit codes (0 expected on the unchanged tree).
cd "$(dirname "$0")/.."
SEEDS=${SEEDS:-"1 2 3 4 5"}
IDS=${IDS:-$(python3 -c "import json;print(' '.join(c['property_id'] for c in json.load(open('MANIFEST.json'))['checks']))")}
TIER=${TIER:-quick}
for id in $IDS; do
  for s in $SEEDS; do
    out=$(VERIF_SEED=$s VERIF_NO_SHRINK=${VERIF_NO_SHRINK:-1} ./check $id $TIER 2>&1); rc=$?
    echo "$id seed=$s rc=$rc $(echo "$out" | tail -1 | cut -c1-160)"
    if [ $rc -ne 0 ]; then echo "$out" | grep -A1 "signature\|HARNESS" | cut -c1-700 | head -20; fi
  done
done
