#!/usr/bin/env python3
"""Regenerate the seed table of DESIGN.md section 9.6 from seeded/*/meta.json (between the table header and the first blank
line after it)."""
import glob
import json
import os
import re

root = os.path.dirname(os.path.dirname(os.path.abspath(__file__)))
rows = []
for p in sorted(glob.glob(os.path.join(root, "seeded", "*", "meta.json")),
                key=lambda q: (os.path.basename(os.path.dirname(q)).split("-")[0], int(os.path.basename(os.path.dirname(q)).split("-")[1]))):
    m = json.load(open(p))
    name = os.path.basename(os.path.dirname(p))
    first = "yes" if str(m.get("result", "")).startswith("caught") else "no"
    cell = lambda s, n: re.sub(r"\s+", " ", str(s)).replace("|", "\\|")[:n]  # noqa: E731
    rows.append(f"| {name} | {cell(m.get('breaks', ''), 150)} | {m.get('caught_by', '')} | {first} | {cell(m.get('result', ''), 330)} |")
path = os.path.join(root, "DESIGN.md")
s = open(path).read()
head = "| seed | what it breaks (agent's summary, truncated) | caught by | first run | how |\n|---|---|---|---|---|\n"
i = s.index(head) + len(head)
j = s.index("\n\n", i)
s = s[:i] + "\n".join(rows) + s[j:]
open(path, "w").write(s)
n_first = sum(1 for r in rows if "| yes |" in r)
print(f"{len(rows)} seeds, {n_first} caught by the first run")
