#!/bin/bash
# tools/intake_seed.sh <ID> [extra check ids]  -- take the deliverables of a seeding sub-agent from /tmp/seedout/<ID>,
# confirm them (demo with/without, suite) and run the property's check (+ extra checks) against them.
id=$1; shift
cd "$(dirname "$0")/.."
for n in "" 2; do
  src=/tmp/seedout/$id
  [ -f $src/patch$n.diff ] || continue
  d=seeded/$id-${n:-1}; mkdir -p $d
  cp $src/patch$n.diff $d/patch.diff; cp $src/demo$n.py $d/demo.py; cp $src/meta$n.json $d/meta.agent.json 2>/dev/null
  tools/confirm_seed.sh ${id}_p${n:-1} $PWD/$d/patch.diff $PWD/$d/demo.py 2>&1 | grep CONFIRM
  tools/try_seed.sh $id-${n:-1} $PWD/$d/patch.diff $id "$@" 2>&1 | grep "^SEED"
done
