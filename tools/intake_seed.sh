#!/bin/bash
# tools/intake_seed.sh <ID> [extra check ids]  -- take the deliverables of a seeding sub-agent from /tmp/seedout/<ID>,
# confirm them (demo with/without, suite) and run the property's check (+ extra checks) against them.
# The new seeds get the next free indices under seeded/<ID>-<n>.
id=$1; shift
cd "$(dirname "$0")/.."
for n in "" 2; do
  src=/tmp/seedout/$id
  [ -f $src/patch$n.diff ] || continue
  k=1; while [ -d seeded/$id-$k ]; do k=$((k+1)); done
  d=seeded/$id-$k; mkdir -p $d
  cp $src/patch$n.diff $d/patch.diff; cp $src/demo$n.py $d/demo.py; cp $src/meta$n.json $d/meta.agent.json 2>/dev/null
  tools/confirm_seed.sh ${id}_p$k $PWD/$d/patch.diff $PWD/$d/demo.py 2>&1 | grep CONFIRM
  tools/try_seed.sh $id-$k $PWD/$d/patch.diff $id "$@" 2>&1 | grep "^SEED"
done
