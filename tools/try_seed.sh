#!/bin/bash
# tools/try_seed.sh <name> <patch-file | revert:<commit>> <check ids...>
# Applies a change to a scratch worktree of /repo (never to /repo itself), runs the given quick checks against it via
# VERIF_REPO, prints one line per check, removes the worktree.
set -u
name=$1; change=$2; shift 2
wt=/tmp/tryseed/$name
mkdir -p /tmp/tryseed
git -C /repo worktree remove --force "$wt" >/dev/null 2>&1
git -C /repo worktree add --detach "$wt" HEAD -q || exit 2
if [[ "$change" == revert:* ]]; then
  c=${change#revert:}
  git -C "$wt" show "$c" | git -C "$wt" apply -R || { echo "SEED $name check=- rc=NOAPPLY :: cannot revert $c"; git -C /repo worktree remove --force "$wt"; exit 2; }
else
  git -C "$wt" apply "$change" || { echo "SEED $name check=- rc=NOAPPLY :: patch does not apply to the current tree"; git -C /repo worktree remove --force "$wt"; exit 2; }
fi
cd "$(dirname "$0")/.."
for id in "$@"; do
  out=$(VERIF_REPO=$wt VERIF_SEED=${VERIF_SEED:-1} VERIF_NO_SHRINK=${VERIF_NO_SHRINK:-1} VERIF_SHARDS=${VERIF_SHARDS:-8} ./check $id ${TIER:-quick} 2>&1); rc=$?
  echo "SEED $name check=$id rc=$rc :: $(echo "$out" | grep -m1 'signature' | cut -c1-200)"
  echo "$out" | tail -1 | cut -c1-200
done
find "$wt" -name __pycache__ -type d -prune -exec rm -rf {} + 2>/dev/null
git -C /repo worktree remove --force "$wt"
