"""Data soup: arbitrary Python data and near-valid mutations of valid dumps, as value specs (see codec)."""
from __future__ import annotations

import copy

from hypothesis import strategies as st

from . import codec, tspec

# --------------------------------------------------------------------------------- arbitrary data
_LEAVES = [
    None, True, False, 0, 1, -1, 2, 7, 255, 2 ** 31, 2 ** 63, -2 ** 63 - 1, 10 ** 400,
    0.0, -0.0, 1.0, 1.5, 1e308, 5e-324, {"$": "float", "s": "nan"}, {"$": "float", "s": "inf"}, {"$": "float", "s": "-inf"},
    "", "a", "abc", "1", "0", "-1", "1.5", "1e5", "nan", "inf", "Infinity", "1/0", "1/3", "1+2j", "True", "None", "true",
    "2020-01-01", "2020-01-01T10:00:00", "10:00:00", "2020-13-45", "2020-01-01T25:00:00+99:00",
    "YWJj", "YQ==", "YQ=", "YQ", "a===", "YWJj\n", "!!!!", "é", "日本", "\ud800", "a" * 300, "\x00", " 1 ", "１２",
    "127.0.0.1", "::1", "10.0.0.0/8", "1.2.3.4/8", "12345678123456781234567812345678", "12345678-1234-5678-1234-567812345678",
    "/a/b", "[a-", "(", "A", "B", "A|B", "x y", "(" * 3000 + ")" * 3000, "[" * 500, "a{1,2}" * 400,
    {"$": "bytes", "h": ""}, {"$": "bytes", "h": "6162"}, {"$": "bytearray", "h": "00"},
    {"$": "dec", "s": "1"}, {"$": "dec", "s": "1.5"}, {"$": "dec", "s": "NaN"}, {"$": "dec", "s": "sNaN"}, {"$": "dec", "s": "Infinity"},
    {"$": "dec", "s": "1E+30"}, {"$": "frac", "s": "1/3"}, {"$": "cx", "r": "1.0", "i": "0.0"}, {"$": "cx", "r": "nan", "i": "inf"},
    {"$": "date", "s": "2020-01-01"}, {"$": "datetime", "s": "2020-01-01T00:00:00"}, {"$": "td", "d": 0, "s": 1, "us": 0},
    {"$": "uuid", "s": "12345678-1234-5678-1234-567812345678"}, {"$": "path", "c": "PurePosixPath", "s": "a"},
    {"$": "ip", "c": "IPv4Address", "s": "1.2.3.4"}, {"$": "re", "s": "a"},
    {"$": "strsub", "s": "a"}, {"$": "strsub", "s": "1"}, {"$": "intsub", "v": 1}, {"$": "opaque"}, {"$": "range", "n": 3},
    {"$": "type", "n": "int"},
    # class objects: they carry the methods of their instances unbound (dict.items, list.__iter__, Mapping.get ...)
    {"$": "type", "n": "dict"}, {"$": "type", "n": "list"}, {"$": "type", "n": "str"}, {"$": "type", "n": "tuple"},
    {"$": "type", "n": "set"}, {"$": "type", "n": "ordereddict"}, {"$": "type", "n": "mapping_abc"},
    {"$": "type", "n": "sequence_abc"},
]

_KEYS = ["a", "b", "c", "value", "data", "from", "from_", "id", "x1", "name", "items", "items_", "k", "", "0", 0, 1, None,
         True, 1.5, {"$": "t", "v": [1, 2]}, {"$": "bytes", "h": "61"}]


def _wrap(children):
    lists = st.lists(children, max_size=4)
    pairs = st.lists(st.tuples(st.sampled_from(_KEYS), children), max_size=4, unique_by=lambda kv: repr(kv[0]))\
        .map(lambda kv: [list(p) for p in kv])
    return st.one_of(
        lists,
        lists.map(lambda v: {"$": "t", "v": v}),
        pairs.map(lambda v: {"$": "d", "v": v}),
        pairs.map(lambda v: {"$": "d", "v": v}),
        lists.map(lambda v: {"$": "gen", "v": v}),
        lists.map(lambda v: {"$": "nolen", "v": v}),
        lists.map(lambda v: {"$": "listsub", "v": v}),
        lists.map(lambda v: {"$": "deque", "v": v}),
        pairs.map(lambda v: {"$": "custmap", "v": v}),
        pairs.map(lambda v: {"$": "itemsonly", "v": v}),
        pairs.map(lambda v: {"$": "dictsub", "v": v}),
        lists.map(lambda v: {"$": "set", "v": [x for x in v if _hashable_spec(x)]}),
        lists.map(lambda v: {"$": "fset", "v": [x for x in v if _hashable_spec(x)]}),
    )


def _hashable_spec(v) -> bool:
    if isinstance(v, list):
        return False
    if isinstance(v, dict):
        if v["$"] in ("d", "set", "deque", "gen", "nolen", "custmap", "itemsonly", "listsub", "dictsub", "bytearray",
                      "dd", "opaque"):
            return v["$"] == "opaque"
        if v["$"] in ("t", "fset"):
            return all(_hashable_spec(x) for x in v["v"])
    return True


_IDENTITY_HASHED_TAGS = ("gen", "nolen", "opaque", "custmap", "itemsonly", "bytesio")


def _identity_hashed(v) -> bool:
    """Would the built object (or something inside it) hash by identity?  generators and the exotic classes, NaN floats and
    NaN Decimals (hash(nan) is address based since Python 3.10)."""
    if isinstance(v, list):
        return any(_identity_hashed(x) for x in v)
    if isinstance(v, dict):
        tag = v.get("$")
        if tag in _IDENTITY_HASHED_TAGS:
            return True
        if tag in ("float", "dec") and "nan" in str(v.get("s", "")).lower():
            return True
        if tag == "cx" and "nan" in (str(v.get("r", "")) + str(v.get("i", ""))).lower():
            return True
        return any(_identity_hashed(x) for x in v.values() if isinstance(x, (list, dict)))
    return isinstance(v, float) and v != v


def stable_sets(v):
    """A set with two or more members keeps only content-hashed ones, so that two builds of one spec iterate in one order
    (checks compare the results of separate loads of fresh builds; a one-member set keeps whatever it holds)."""
    if isinstance(v, list):
        return [stable_sets(x) for x in v]
    if isinstance(v, dict):
        out = {k: (stable_sets(x) if isinstance(x, (list, dict)) else x) for k, x in v.items()}
        if out.get("$") in ("set", "fset") and len(out["v"]) >= 2:
            kept = [x for x in out["v"] if not _identity_hashed(x)]
            out["v"] = kept if kept else out["v"][:1]
        return out
    return v


def _fix_keys(v):
    """dict-like specs need hashable keys."""
    return v


def st_soup(max_leaves: int = 10):
    leaves = st.one_of(st.sampled_from(_LEAVES), st.integers(), st.text(max_size=5),
                       st.floats(allow_nan=True, allow_infinity=True).map(tspec._fl))
    return st.recursive(leaves, _wrap, max_leaves=max_leaves).map(stable_sets)


# --------------------------------------------------------------------------------- positions in a vspec tree
def positions(v, path=()):
    """All node paths of a plain-data vspec tree (lists, tuples, dict values and dict keys)."""
    yield path
    if isinstance(v, list):
        for i, x in enumerate(v):
            yield from positions(x, (*path, i))
    elif isinstance(v, dict):
        tag = v.get("$")
        if tag in ("t", "set", "fset", "deque", "gen", "nolen", "listsub"):
            for i, x in enumerate(v["v"]):
                yield from positions(x, (*path, "v", i))
        elif tag in ("d", "dd", "custmap", "itemsonly", "dictsub"):
            for i, (k, x) in enumerate(v["v"]):
                yield (*path, "v", i, 0)
                yield from positions(x, (*path, "v", i, 1))
        elif tag == "obj":
            for k, x in v["f"].items():
                yield from positions(x, (*path, "f", k))


def get_at(v, path):
    for p in path:
        v = v[p]
    return v


def set_at(v, path, new):
    if not path:
        return new
    v = copy.deepcopy(v)
    cur = v
    for p in path[:-1]:
        cur = cur[p]
    cur[path[-1]] = new
    return v


HOSTILE_NUMBERS = [10 ** 400, -10 ** 400, 2 ** 1024, 1e18, -1e18, 10 ** 18, 1e30, {"$": "float", "s": "inf"}, {"$": "float", "s": "-inf"}, {"$": "float", "s": "nan"},
                   1e308, -1e308, 10 ** 14, 86400000000000, -86399999913601, 2 ** 63, {"$": "dec", "s": "1E+400"},
                   {"$": "dec", "s": "NaN"}, {"$": "dec", "s": "Infinity"}, {"$": "dec", "s": "sNaN"}, 1e14, 253402300800, -62135596801]
HOSTILE_STRINGS = ["sNaN", "-sNaN", "NaN", "1/0", "1e999", "nan", "inf", "-inf", "Infinity", "1" * 400, "1e400", "é", "\ud800", "１２", "0x10", "1_000", " 1",
                   "9999-99-99", "0000-01-01", "24:00:00", "2020-02-30", "12345678123456781234567812345678", "1.2.3.4/33", "::1/129",
                   "[", "(?P<x>", "a" * 300, "====", "YQ", "\x00", "a{4294967296}", "x{,99999999999999999999}", "(?<=a+)b", "\\8"]
# strings aimed at the parser behind one scalar type (used three times as often as the general list when the type of
# the case contains that scalar)
HOSTILE_BY_TAG = {
    "pattern": ["(" * 3000 + ")" * 3000, "(?:a|" * 2000 + "b" + ")" * 2000, "a{4294967296}", "x{,99999999999999999999}", "(?<=a+)b", "\\8", "(?P<n>a)(?P<n>b)", "[z-a]", "(?P=x)", "\\", "(", "a**",
                "(?z)", "(?i", "\\N{nope}", "[[:alpha:]]", "(?P<1>a)", "(?a)(?u)x", "(?L)x", "(?au)x", "(?a:(?u:x))"],
    "date": ["2020-02-30", "2020-13-01", "0000-01-01", "9999-12-31", "10000-01-01", "2020-1-1", "20200101", "2020-W01-1", "２０２０-01-01",
             "2020-01-01T00:00:00", " 2020-01-01", "2020-01-01\n", "-001-01-01"],
    "time": ["24:00:00", "23:60:00", "23:59:60", "1:2:3", "12:00:00+25:00", "12:00:00.1234567", "120000", "12:00:00Z", "12:00:00+00:00:00.5"],
    "datetime": ["2020-02-30T00:00:00", "2020-01-01T24:00:00", "2020-01-01 00:00:00+24:00", "2020-01-01", "2020-01-01T00:00:00Z",
                 "9999-12-31T23:59:59.999999+00:00", "0001-01-01T00:00:00-23:59", "2020-01-01T00:00:00.1234567"],
    "uuid": ["12345678123456781234567812345678", "{12345678-1234-5678-1234-567812345678}", "urn:uuid:12345678-1234-5678-1234-567812345678",
             "12345678-1234-5678-1234-56781234567", "g2345678-1234-5678-1234-567812345678", "1234567８-1234-5678-1234-567812345678"],
    "decimal": ["sNaN", "-sNaN", "NaN123", "1E+999999999999999999", "1_0", "１２", "Infinity", "+-1", ".", "1e", "0x1"],
    "fraction": ["1/0", "1/-2", "1 / 2", "1/2/3", "1e400/1", "１/２", "-0/5", "1_0/3", "nan", "inf", ".5/1"],
    "complex": ["1+", "j", "1+2i", "(1+2j)", "1 + 2j", "nan+nanj", "1e999j", "１j"],
    "bytes": ["YQ", "YQ=", "YQ===", "Y Q==", "YQ==\n", "====", "YWJj_-", "YWJj+/", "é", "YQ\x00="],
    "ip": ["1.2.3.4/33", "::1/129", "1.2.3", "01.2.3.4", "1.2.3.4/", "::ffff:1.2.3.4", "1.2.3.4%eth0", "１.2.3.4", "fe80::1%", "1.2.3.4/24/8"],
    "timedelta": ["1e400", "nan", "inf"],
    "int": ["1" * 4301, "１２", "1_000", " 1", "0x10", "1e3", "+1", "-0", "1.0"],
    "float": ["1" * 400, "1e999", "nan", "-inf", "１.５", "1_0.5", "0x1p3", " 1.5 ", "1,5", "infinity"],
}
def _tup(*xs):
    return {"$": "t", "v": list(xs)}


# non-string data aimed at constructors that lax loaders delegate to (Decimal takes a (sign, digits, exponent) tuple ...)
HOSTILE_DATA_BY_TAG = {
    "decimal": [_tup(0, _tup(1, 2), "F"), [10 ** 129, "Infinity", [None]], _tup(2, _tup(1), 0), _tup(0, _tup(10), 0),
                _tup(0, _tup(1), 10 ** 30), _tup(0, _tup(), "n"), _tup(0, _tup(1), "N"), [0, [1], 0], _tup(-1, _tup(1), 0),
                _tup(0, _tup(-1), 0), _tup(0, "12", 0), _tup(True, _tup(1), 1.5), {"$": "float", "s": "nan"}, True, _tup()],
    "fraction": [_tup(1, 0), [1, 2], {"$": "dec", "s": "NaN"}, {"$": "dec", "s": "Infinity"}, {"$": "float", "s": "inf"},
                 {"$": "float", "s": "nan"}, True, {"$": "frac", "s": "1/3"}, 1.5],
    "complex": [{"$": "cx", "r": "1.0", "i": "2.0"}, _tup(1, 2), [1, 2], True, {"$": "dec", "s": "sNaN"}, {"$": "frac", "s": "1/3"}],
    "int": [{"$": "dec", "s": "NaN"}, {"$": "dec", "s": "Infinity"}, {"$": "dec", "s": "sNaN"}, {"$": "float", "s": "nan"},
            {"$": "float", "s": "inf"}, {"$": "frac", "s": "1/3"}, {"$": "bytes", "h": "31"}, {"$": "bytearray", "h": "3132"},
            {"$": "bytes", "h": "ff"}, {"$": "cx", "r": "1.0", "i": "0.0"}],
    "float": [{"$": "dec", "s": "sNaN"}, {"$": "dec", "s": "1E+400"}, {"$": "frac", "s": "1/3"}, {"$": "bytes", "h": "31"}, 10 ** 400,
              {"$": "pow10", "e": 5000, "neg": False}, {"$": "cx", "r": "1.0", "i": "0.0"}],
    "date": [0, -1, 10 ** 14, 1e18, -1e18, 10 ** 18, 1.5, {"$": "float", "s": "nan"}, _tup(2020, 1, 1), True],
    "datetime": [0, -62135596801, 253402300800, 10 ** 14, 1e18, -1e18, 10 ** 18, {"$": "float", "s": "nan"}, {"$": "float", "s": "inf"}, 1e308, True],
    "timedelta": [{"$": "float", "s": "nan"}, {"$": "float", "s": "inf"}, 1e308, 10 ** 14, 86400000000000, -86399999913601,
                  {"$": "dec", "s": "NaN"}, {"$": "dec", "s": "1E+400"}, {"$": "dec", "s": "sNaN"}, True, {"$": "frac", "s": "1/3"}],
    "uuid": [0, 2 ** 128, -1, {"$": "bytes", "h": "00" * 16}, {"$": "bytes", "h": "00"}, _tup(1, 2, 3, 4, 5, 6)],
    "ip": [0, -1, 2 ** 32, 2 ** 128, {"$": "bytes", "h": "01020304"}, {"$": "bytes", "h": "00" * 16}, {"$": "bytes", "h": "00"},
           _tup("1.2.3.4", 33), _tup("1.2.3.4", "x"), _tup("1.2.3.4",), _tup(16909060, 24), ["1.2.3.4", 24], True],
    "pattern": [{"$": "bytes", "h": "61"}, 5],
    "bytes": [{"$": "bytes", "h": "61"}, {"$": "bytearray", "h": "61"}, 5, [1, 2]],
}
for _t in ("bytearray", "bytestring", "bytesio", "iobytes"):
    HOSTILE_DATA_BY_TAG[_t] = HOSTILE_DATA_BY_TAG["bytes"]
for _t in ("bytearray", "bytestring", "bytesio", "iobytes"):
    HOSTILE_BY_TAG[_t] = HOSTILE_BY_TAG["bytes"]
LOOKALIKE = [(0, False), (1, True), (False, 0), (True, 1), (1, 1.0), (1.0, 1), (0, 0.0), (1, "1"), ("1", 1), (None, "None"),
             (None, 0), (None, ""), (None, []), (True, "true"), (0, "0"), (0, None)]


def mutate(draw, v, root_structure=False, aimed=()):  # noqa: C901, PLR0911, PLR0912
    """One mutation of a plain-data vspec (``draw`` comes from an enclosing composite strategy).
    ``root_structure``: mutate the shape of the root container itself (kind, length, keys)."""
    pos = list(positions(v))
    containers = [p for p in pos if isinstance(get_at(v, p), (list, dict))]
    # containers are few among many leaves, and they are where loaders check the type of their input
    path = () if root_structure else \
        draw(st.sampled_from(containers if containers and draw(st.integers(0, 2)) == 0 else pos))
    node = get_at(v, path)
    is_key = len(path) >= 3 and path[-1] == 0 and path[-3] == "v" and isinstance(get_at(v, path[:-3]), dict) \
        and get_at(v, path[:-3]).get("$") in ("d", "dd", "custmap", "itemsonly", "dictsub")
    ops = ["replace_leaf", "replace_soup", "lookalike"]
    if node is None or isinstance(node, bool) or (isinstance(node, (int, float, str)) and node in (0, 1, "1")):
        ops += ["lookalike", "lookalike"]   # True/1/1.0/"1", False/0/None: the values the coercion rules are about
    if isinstance(node, (int, float)) and not isinstance(node, bool):
        ops += ["hostile_number", "hostile_number"]
    if isinstance(node, str):
        ops += ["hostile_string", "hostile_string"] if aimed else ["hostile_string"]
    if isinstance(node, str):
        ops += ["str_mut", "str_mut"]
    if isinstance(node, list) or (isinstance(node, dict) and node.get("$") in ("t", "set", "fset", "deque")):
        ops += ["change_len", "change_len", "container_kind", "container_kind"]
    if isinstance(node, dict) and node.get("$") == "d" and not is_key:
        ops += ["del_key", "del_key", "add_key", "rename_key", "container_kind", "map_kind"]
    if root_structure and len(ops) > 3:
        ops = ops[3:]
    op = draw(st.sampled_from(ops))
    if op == "replace_leaf":
        new = draw(st.sampled_from(_LEAVES))
    elif op == "replace_soup":
        new = draw(st_soup(4))
    elif op == "hostile_number":
        new = draw(st.sampled_from(HOSTILE_NUMBERS))
    elif op == "hostile_string":
        new = draw(st.sampled_from([*aimed, *aimed, *aimed, *HOSTILE_STRINGS] if aimed else HOSTILE_STRINGS))
    elif op == "lookalike":
        cands = [b for a, b in LOOKALIKE if type(a) is type(node) and a == node]
        new = draw(st.sampled_from(cands)) if cands else draw(st.sampled_from(_LEAVES))
    elif op == "str_mut":
        how = draw(st.sampled_from(["append", "trunc", "upper", "space", "strsub", "bytes"]))
        new = {"append": node + draw(st.sampled_from(["x", "=", " ", "0", "Z", "\n"])), "trunc": node[:-1],
               "upper": node.swapcase(), "space": " " + node, "strsub": {"$": "strsub", "s": node},
               "bytes": {"$": "bytes", "h": node.encode("utf-8", "surrogatepass").hex()}}[how]
    elif op == "change_len":
        items = list(node if isinstance(node, list) else node["v"])
        if items and draw(st.booleans()):
            del items[draw(st.integers(0, len(items) - 1))]
        else:
            items.insert(draw(st.integers(0, len(items))), draw(st.sampled_from(_LEAVES)) if not items or draw(st.booleans())
                         else items[0])
        new = items if isinstance(node, list) else {**node, "v": items}
    elif op == "container_kind":
        if isinstance(node, dict) and node.get("$") == "d":
            kind = draw(st.sampled_from(["list_of_values", "list_of_keys", "list_of_pairs", "custmap", "itemsonly", "dictsub"]))
            if kind == "list_of_values":
                new = [x for _, x in node["v"]]
            elif kind == "list_of_keys":
                new = [k for k, _ in node["v"]]
            elif kind == "list_of_pairs":
                new = [{"$": "t", "v": [k, x]} for k, x in node["v"]]
            else:
                new = {"$": kind, "v": node["v"]}
        else:
            items = list(node if isinstance(node, list) else node["v"])
            kind = draw(st.sampled_from(["list", "t", "gen", "nolen", "listsub", "deque", "set", "intkeys", "intkeys_gap",
                                         "str", "strkeys"]))
            if kind == "list":
                new = items
            elif kind == "set":
                new = {"$": "set", "v": [x for i, x in enumerate(items) if _hashable_spec(x) and x not in items[:i]]}
            elif kind == "intkeys":
                new = {"$": "d", "v": [[i, x] for i, x in enumerate(items)]}
            elif kind == "intkeys_gap":  # passes a lookup of item 0 and misses a later one
                gap = draw(st.integers(1, len(items) - 1)) if len(items) > 1 else 0
                new = {"$": "d", "v": [[i, x] for i, x in enumerate(items) if i != gap]}
                if new["v"] and draw(st.booleans()):
                    # ... and an item before the gap is invalid by itself: two errors of different kinds at one container
                    new["v"][0] = [0, {"$": "opaque"}]
            elif kind == "strkeys":
                new = {"$": "d", "v": [[str(i), x] for i, x in enumerate(items)]}
            elif kind == "str":
                new = "".join(x for x in items if isinstance(x, str))
            else:
                new = {"$": kind, "v": items}
    elif op == "map_kind":
        new = {"$": draw(st.sampled_from(["custmap", "itemsonly", "dictsub"])), "v": node["v"]}
    elif op == "del_key":
        items = list(node["v"])
        if items:
            del items[draw(st.integers(0, len(items) - 1))]
        new = {**node, "v": items}
    elif op == "add_key":
        extra = [[draw(st.sampled_from(["extra", "zz", "a", "b", 0, None])), draw(st.sampled_from(_LEAVES))]]
        if draw(st.integers(0, 2)) == 0:   # several unknown keys of different types at once
            extra += [[k, draw(st.sampled_from(_LEAVES))] for k in draw(st.sampled_from([[5, "q"], [None, "w", 1.5], [True, "t"]]))]
        new = {**node, "v": [*node["v"], *extra]}
    elif op == "rename_key":
        items = [list(p) for p in node["v"]]
        if items:
            i = draw(st.integers(0, len(items) - 1))
            k = items[i][0]
            items[i][0] = draw(st.sampled_from([k + "_" if isinstance(k, str) else "k", k.upper() if isinstance(k, str) else 0,
                                                0, None, {"$": "strsub", "s": k if isinstance(k, str) else "k"}]))
        new = {**node, "v": items}
    else:
        raise AssertionError(op)
    if is_key and not _hashable_spec(new):
        new = "k"
    out = set_at(v, path, new)
    return _dedup_keys(out), op


def _dedup_keys(v):
    """Keep dict-like specs free of duplicate keys (by repr) after a mutation."""
    if isinstance(v, list):
        return [_dedup_keys(x) for x in v]
    if isinstance(v, dict):
        tag = v.get("$")
        if tag in ("d", "dd", "custmap", "itemsonly", "dictsub"):
            seen = set()
            items = []
            for k, x in v["v"]:
                r = repr(k)
                if r in seen:
                    continue
                seen.add(r)
                items.append([k, _dedup_keys(x)])
            return {**v, "v": items}
        if "v" in v and isinstance(v["v"], list):
            return {**v, "v": [_dedup_keys(x) for x in v["v"]]}
    return v


@st.composite
def st_near_valid(draw, tsp, max_mut: int = 3, layouts=None, root_structure=False):
    """(datum vspec, list of applied ops): the reference dump of a canonical value, mutated at k >= 0 positions.
    ``layouts``: optional model layouts for the reference dump (see tspec.use_layouts)."""
    hint, e = tspec.build_type(tsp)
    val = draw(tspec.st_value(tsp))
    with tspec.use_layouts(layouts):
        dumped = tspec.ref_dump(tsp, codec.build(val, e), e)
    v = encode_any(dumped)
    k = draw(st.sampled_from([0, *range(1, max_mut + 1), *range(1, max_mut + 1), *range(1, max_mut + 1)]))
    ops = []
    aimed = tuple(x for tag in sorted({s[0] for s in tspec.walk(tsp)}) for x in HOSTILE_BY_TAG.get(tag, ()))
    if root_structure:
        v, op = mutate(draw, v, root_structure=True)
        ops.append("root:" + op)
    for _ in range(k):
        v, op = mutate(draw, v, aimed=aimed)
        ops.append(op)
    return stable_sets(v), ops


def encode_any(o):
    """encode() that also survives non-plain leaves in Any/object positions (encoded as opaque)."""
    try:
        return codec.encode(o)
    except TypeError:
        if isinstance(o, list):
            return [encode_any(x) for x in o]
        if isinstance(o, tuple):
            return {"$": "t", "v": [encode_any(x) for x in o]}
        if isinstance(o, dict):
            return {"$": "d", "v": [[encode_any(k), encode_any(x)] for k, x in o.items()]}
        return {"$": "opaque"}
