"""Reference loader for non-model types: an independent, documentation-driven, three-valued interpreter of
docs/loading-and-dumping/specific-types-behavior.rst.

    ref_load(spec, datum, strict, env) -> ("accept", value) | ("reject",) | ("unspec",)

"unspec" = the documentation does not decide (or delegates to a constructor for data it does not describe); such
outcomes are counted, never asserted.  The reference shares no code with adaptix.
"""
from __future__ import annotations

import base64
import warnings
import binascii
import collections
import collections.abc
import datetime as dt
import enum
import io
import math
import re
import uuid
from decimal import Decimal, InvalidOperation
from fractions import Fraction

from . import codec, tspec

ACCEPT, REJECT, UNSPEC = "accept", "reject", "unspec"
_R = (REJECT,)
_U = (UNSPEC,)

_B64 = re.compile(r"[A-Za-z0-9+/]*={0,2}")
_CTOR_ERRORS = (TypeError, ValueError, InvalidOperation, ZeroDivisionError, OverflowError, ArithmeticError)


def _acc(v):
    return (ACCEPT, v)


def _ctor(fn, datum):
    """Lax coercion: "all conversions that the corresponding constructor can perform"."""
    try:
        return _acc(fn(datum))
    except _CTOR_ERRORS:
        return _R
    except RecursionError:
        raise
    except Exception:  # noqa: BLE001  -- anything else the constructor does is outside the documentation
        return _U


def _is_exotic_sub(datum, base) -> bool:
    bases = base if isinstance(base, tuple) else (base,)
    return isinstance(datum, bases) and type(datum) not in bases


def _contains_one_shot(datum, depth=0) -> bool:
    if hasattr(datum, "__next__"):
        return True
    if depth > 6:
        return False
    if isinstance(datum, dict):
        return any(_contains_one_shot(x, depth + 1) for x in datum.values())
    if isinstance(datum, (list, tuple, set, frozenset, collections.deque)):
        return any(_contains_one_shot(x, depth + 1) for x in datum)
    inner = getattr(datum, "_items", None)
    return isinstance(inner, (list, tuple)) and any(_contains_one_shot(x, depth + 1) for x in inner)


def ref_load(spec, datum, strict: bool, env):  # noqa: C901, PLR0911, PLR0912, PLR0915
    tag = spec[0]
    if tag in ("newtype", "annotated", "alias"):
        return ref_load(spec[1], datum, strict, env)
    if tag in ("any", "object"):
        return _acc(datum)
    if tag == "none":
        return _acc(None) if datum is None else _R
    # ------------------------------------------------------------------ basic types
    if tag == "int":
        if strict:
            if type(datum) is int:
                return _acc(datum)
            return _U if _is_exotic_sub(datum, int) and not isinstance(datum, bool) else _R
        return _ctor(int, datum)
    if tag == "float":
        if strict:
            if type(datum) in (float, int):
                return _ctor(float, datum)
            return _U if (_is_exotic_sub(datum, (int, float)) and not isinstance(datum, bool)) else _R
        return _ctor(float, datum)
    if tag in ("str", "literalstring"):
        if strict:
            if type(datum) is str:
                return _acc(datum)
            return _U if _is_exotic_sub(datum, str) else _R
        return _ctor(str, datum)
    if tag == "bool":
        if strict:
            return _acc(datum) if type(datum) is bool else _R
        return _ctor(bool, datum)
    if tag in ("decimal", "fraction", "complex"):
        cls = {"decimal": Decimal, "fraction": Fraction, "complex": complex}[tag]
        if strict:
            if type(datum) is str or type(datum) is cls:
                return _ctor(cls, datum)
            return _U if _is_exotic_sub(datum, (str, cls)) else _R
        return _ctor(cls, datum)
    # ------------------------------------------------------------------ bytes-like
    if tag in ("bytes", "bytearray", "bytestring", "bytesio", "iobytes"):
        if type(datum) is not str:
            return _U if isinstance(datum, str) else _R
        try:
            raw = datum.encode("ascii")
        except UnicodeEncodeError:
            return _R
        if not _B64.fullmatch(datum):
            return _R
        try:
            val = base64.b64decode(raw, validate=True)
        except (binascii.Error, ValueError):
            return _U  # alphabet is fine but the padding / length is off: decoder-dependent
        if base64.b64encode(val).decode("ascii") != datum:
            return _U  # non-canonical encoding of the same bytes
        if tag == "bytearray":
            return _acc(bytearray(val))
        if tag in ("bytesio", "iobytes"):
            return _acc(io.BytesIO(val))
        return _acc(val)
    if tag == "pattern":
        if type(datum) is not str:
            return _U if isinstance(datum, str) else _R
        try:
            with warnings.catch_warnings():
                warnings.simplefilter("ignore", FutureWarning)   # "Possible nested set": a warning, not a refusal
                return _acc(re.compile(datum))
        except (re.error, ValueError):   # ValueError: incompatible inline flags -- not a pattern either
            return _R
        except (RecursionError, OverflowError):
            return _U
    if tag in ("path", "pathlike"):
        cls = codec.PATH_CLASSES["Path" if tag == "pathlike" else spec[1]]
        if type(datum) is str:
            return _ctor(cls, datum)
        try:
            cls(datum)
        except TypeError:
            return _R
        except Exception:  # noqa: BLE001
            return _U
        return _U
    if tag == "ip":
        cls = codec.IP_CLASSES[spec[1]]
        if type(datum) is str:
            return _ctor(cls, datum)
        return _U
    if tag == "uuid":
        if type(datum) is str:
            return _ctor(uuid.UUID, datum)
        return _U
    if tag in ("date", "time", "datetime"):
        cls = {"date": dt.date, "time": dt.time, "datetime": dt.datetime}[tag]
        if type(datum) is str:
            return _ctor(cls.fromisoformat, datum)
        return _U if isinstance(datum, str) else _R
    if tag == "timedelta":
        if type(datum) not in (int, float, Decimal):
            if isinstance(datum, bool):
                return _R  # bool is not listed ("instance of int, float or Decimal" is read with exact types, as everywhere)
            return _U if isinstance(datum, (int, float, Decimal)) else _R
        try:
            if not math.isfinite(datum):
                return _R
        except (TypeError, ValueError, OverflowError):
            return _R
        try:
            whole = int(datum)
            frac = datum - whole
            val = dt.timedelta(seconds=whole) + dt.timedelta(microseconds=round(frac * 10 ** 6))
        except OverflowError:
            return _R
        except Exception:  # noqa: BLE001
            return _U
        return (ACCEPT, val, "timedelta_1us")
    # ------------------------------------------------------------------ enums (default representations)
    if tag == "enum":
        cls = env.classes[spec[1]["name"]]
        if issubclass(cls, enum.Flag):
            mask = 0
            for m in cls.__members__.values():
                mask |= m.value
            if type(datum) is int:
                if datum < 0 or datum > mask:
                    return _R
                reach = {0}
                for m in cls.__members__.values():
                    reach |= {r | m.value for r in reach}
                return _acc(cls(datum)) if datum in reach else _U
            if isinstance(datum, bool):
                return _U
            return _R
        if isinstance(datum, enum.Enum):
            return _U
        members = list(cls)
        exact = [m for m in members if type(datum) is type(m.value) and _eq(datum, m.value)]
        if exact:
            return _acc(exact[0])
        if any(_eq(datum, m.value) for m in members):
            return _U
        return _R
    # ------------------------------------------------------------------ Literal
    if tag == "literal":
        vals = [codec.build({k: v for k, v in x.items() if k != "spec"} if isinstance(x, dict) else x, env)
                for x in spec[1]]
        enum_vals = [v for v in vals if isinstance(v, enum.Enum)]
        bytes_vals = [v for v in vals if isinstance(v, bytes)]
        plain = [v for v in vals if not isinstance(v, (enum.Enum, bytes))]
        if _is_exotic_sub(datum, (str, int, float)) and not isinstance(datum, bool):
            return _U  # subclasses of str/int compare equal to members: "values listed in Literal" does not decide
        hits = []
        for m in enum_vals:
            if type(datum) is type(m.value) and _eq(datum, m.value):
                hits.append(m)
            elif _eq(datum, m.value):
                return _U
        if type(datum) is str and bytes_vals:
            for b in bytes_vals:
                if base64.b64encode(b).decode("ascii") == datum:
                    hits.append(b)
        for v in plain:
            if _eq(datum, v):
                if type(datum) is type(v):
                    hits.append(v)
                elif strict and {type(datum), type(v)} == {bool, int}:
                    continue  # "the loader will distinguish equal bool and int instances"
                else:
                    return _U  # equal but differently typed (1.0 for 1, True for 1 under lax ...)
        if isinstance(datum, (enum.Enum, bytes)) and any(_eq(datum, v) for v in vals):
            return _U  # the member itself instead of its representation
        if any(_eq(datum, v) for v in bytes_vals):
            return _U  # equal but differently typed, as above (bytearray(b'a') == b'a')
        if len(hits) > 1:
            return _U  # "could be interpreted as several Literal members, the result will be undefined"
        if len(hits) == 1:
            return _acc(hits[0])
        return _R
    # ------------------------------------------------------------------ unions
    if tag == "optional":
        if datum is None:
            return _acc(None)
        return ref_load(spec[1], datum, strict, env)
    if tag == "union":  # noqa: RET503
        if _contains_one_shot(datum):
            return _U  # a one-shot iterator (at any depth) is consumed by the first case that reaches it
        outs = [ref_load(c, datum, strict, env) for c in spec[1]]
        accepts = [o for o in outs if o[0] == ACCEPT]
        unknown = [o for o in outs if o[0] == "accept_unknown"]
        if len(accepts) == 1 and not unknown and all(o[0] in (ACCEPT, REJECT) for o in outs):
            return accepts[0]
        if accepts or unknown:
            # some case accepts, so the union must accept; which case wins is only defined without overlap
            return ("accept_unknown",)
        if all(o[0] == REJECT for o in outs):
            return _R
        return _U
    # ------------------------------------------------------------------ iterables
    if tag in ("list", "set", "frozenset", "vtuple", "deque", "abc", "tuple"):
        if isinstance(datum, collections.abc.Mapping):
            if strict:
                return _R
            items = list(datum)
        elif isinstance(datum, str):
            if strict:
                return _R if type(datum) is str else _U
            items = list(datum)
        else:
            try:
                it = iter(datum)
            except TypeError:
                return _R
            except Exception:  # noqa: BLE001
                return _U
            items = list(it)
        if tag == "tuple":
            if len(items) != len(spec[1]):
                return _R
            subs = [ref_load(t, x, strict, env) for t, x in zip(spec[1], items)]
            impl = tuple
        else:
            inner = spec[2] if tag == "abc" else spec[1]
            subs = [ref_load(inner, x, strict, env) for x in items]
            impl = {"list": list, "set": set, "frozenset": frozenset, "vtuple": tuple, "deque": collections.deque}.get(tag) \
                or tspec.ABC_IMPL[spec[1]]
        return _combine(subs, impl)
    # ------------------------------------------------------------------ mappings
    if tag in ("dict", "mapping", "mutablemapping", "defaultdict"):
        if not isinstance(datum, collections.abc.Mapping):
            return _U if hasattr(datum, "items") else _R
        try:
            pairs = list(datum.items())
        except Exception:  # noqa: BLE001
            return _U
        ks = [ref_load(spec[1], k, strict, env) for k, _ in pairs]
        vs = [ref_load(spec[2], v, strict, env) for _, v in pairs]
        allo = ks + vs
        if any(o[0] == REJECT for o in allo):
            return _R
        if any(o[0] == UNSPEC for o in allo):
            return _U
        if any(o[0] == "accept_unknown" for o in allo):
            return ("accept_unknown",)
        out = {}
        for k, v in zip(ks, vs):
            try:
                if k[1] in out:
                    return _U  # two input keys load to one key
                out[k[1]] = v[1]
            except TypeError:
                return _U
        if tag == "defaultdict":
            return _acc(collections.defaultdict(None, out))
        return _acc(out)
    raise ValueError(f"ref_load: unsupported tag {tag!r}")


def _combine(subs, impl):
    if any(o[0] == REJECT for o in subs):
        return _R
    if any(o[0] == UNSPEC for o in subs):
        return _U
    if any(o[0] == "accept_unknown" for o in subs):
        return ("accept_unknown",)
    try:
        return _acc(impl(o[1] for o in subs))
    except TypeError:
        return _U


def _eq(a, b) -> bool:
    try:
        return bool(a == b)
    except Exception:  # noqa: BLE001
        return False


def matches(expected, got) -> bool:
    """Does adaptix's successful result ``got`` satisfy an accept verdict?"""
    if expected[0] == "accept_unknown":
        return True
    if len(expected) > 2 and expected[2] == "timedelta_1us":
        return type(got) is dt.timedelta and abs(got - expected[1]) <= dt.timedelta(microseconds=1)
    return tspec.canon_eq(expected[1], got)
