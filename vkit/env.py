"""Environment: make the checks import adaptix from /repo's *current working tree*.

Importing this module first is mandatory for every check.  Nothing is written under /repo
(PYTHONDONTWRITEBYTECODE is set by ./check; we also set sys.dont_write_bytecode here).
"""
import os
import sys

sys.dont_write_bytecode = True

VERIF_ROOT = os.path.dirname(os.path.dirname(os.path.abspath(__file__)))
REPO_ROOT = os.environ.get("VERIF_REPO", "/repo")
REPO_SRC = os.path.join(REPO_ROOT, "src")
DEPS_DIR = os.path.join(VERIF_ROOT, ".deps")

if REPO_SRC not in sys.path[:1]:
    sys.path.insert(0, REPO_SRC)
if os.path.isdir(DEPS_DIR) and DEPS_DIR not in sys.path:
    sys.path.append(DEPS_DIR)
if VERIF_ROOT not in sys.path:
    sys.path.append(VERIF_ROOT)

# guard for source hooks (none are needed at the moment, see MANIFEST.hooks)
os.environ.setdefault("ADAPTIX_VERIF", "1")


class HarnessError(Exception):
    """Something is wrong with the harness or its environment (exit code 2, never a VIOLATION)."""


def import_adaptix():
    try:
        import adaptix  # noqa: PLC0415
    except Exception as e:  # pragma: no cover
        raise HarnessError(f"cannot import adaptix from {REPO_SRC}: {e!r}") from e
    got = os.path.realpath(os.path.dirname(os.path.dirname(adaptix.__file__)))
    if got != os.path.realpath(REPO_SRC):
        raise HarnessError(f"adaptix imported from {got}, expected {REPO_SRC}")
    return adaptix


def seed() -> int:
    try:
        return int(os.environ.get("VERIF_SEED", "1"))
    except ValueError:
        return 1
