"""Runner: evidence collection, violation buckets, known findings, sharding, exit protocol.

A property module calls ``main(...)`` with

* ``explore(ctx)``      -- generates cases and evaluates the oracle; it must *record* outcomes through
                           ``ctx.case(...)`` / ``ctx.violation(...)`` and never raise for a violation
                           (an exception escaping ``explore`` is a harness error -> exit 2);
* ``check_case(ctx, case)`` -- evaluates the oracle on one recorded case (used for replay files and
                           for shrinking); ``case`` is the JSON-able value passed to ``ctx.violation``;
* ``strategy``          -- optional Hypothesis strategy producing cases for ``check_case`` (enables
                           shrinking of new violations through ``hypothesis.find``).

Exit codes: 0 property held on everything explored (KNOWN-FINDING lines allowed),
1 a violation not listed in known_findings.json, 2 harness error.
"""
from __future__ import annotations

import hashlib
import json
import multiprocessing
import os
import random
import re
import sys
import time
import traceback
from collections import Counter
from typing import Any, Callable, Optional

from . import env

import warnings  # noqa: E402

try:
    from hypothesis.errors import HypothesisWarning  # noqa: E402
    warnings.simplefilter("ignore", HypothesisWarning)
except ImportError:  # pragma: no cover
    pass

MAX_SAMPLES = 8
MAX_DETAIL = 2000


def h64(obj) -> int:
    if not isinstance(obj, (str, bytes)):
        obj = json.dumps(obj, sort_keys=True, default=repr, ensure_ascii=True)
    if isinstance(obj, str):
        obj = obj.encode("utf-8", "surrogatepass")
    return int.from_bytes(hashlib.blake2b(obj, digest_size=8).digest(), "big")


def jsonable(obj, depth=0):
    """Best-effort conversion to something json.dump accepts (samples, details)."""
    if depth > 12:
        return repr(obj)[:200]
    if obj is None or isinstance(obj, (bool, str)):
        return obj
    if isinstance(obj, int):
        return obj if abs(obj) < 2 ** 63 else {"$bigint": str(obj)}
    if isinstance(obj, float):
        return obj if obj == obj and abs(obj) != float("inf") else {"$float": repr(obj)}
    if isinstance(obj, (list, tuple)):
        return [jsonable(x, depth + 1) for x in obj]
    if isinstance(obj, dict):
        return {str(k): jsonable(v, depth + 1) for k, v in obj.items()}
    return repr(obj)[:300]


class Ctx:
    def __init__(self, prop: str, tier: str, seed: int, shard: int = 0, nshards: int = 1,
                 wall_cap: float = 1e9):
        self.prop = prop
        self.tier = tier
        self.base_seed = seed
        self.shard = shard
        self.nshards = nshards
        self.seed = seed * 1009 + shard
        self.evaluations = 0
        self.nt_keys: set[int] = set()
        self.all_keys: set[int] = set()
        self.samples: dict[int, Any] = {}
        self.classes: Counter = Counter()
        self.counters: Counter = Counter()
        self.buckets: dict[str, dict] = {}
        self.exhaustive: list[str] = []
        self.notes: list[str] = []
        self.start = time.monotonic()
        self.deadline = self.start + wall_cap
        self.truncated = False
        self.replaying = False

    # ------------------------------------------------------------------ budgets
    def budget(self, quick: int, thorough: int) -> int:
        """Per-shard case budget."""
        total = quick if self.tier == "quick" else thorough
        scale = float(os.environ.get("VERIF_BUDGET_SCALE", "1"))
        return max(1, int(total * scale / self.nshards))

    def out_of_time(self) -> bool:
        if time.monotonic() > self.deadline:
            self.truncated = True
            return True
        return False

    # ------------------------------------------------------------------ recording
    def case(self, key, nontrivial: bool, sample=None, labels=()):
        """Record one oracle evaluation. ``key`` identifies the case (for distinct counting)."""
        self.evaluations += 1
        k = h64(key)
        self.all_keys.add(k)
        for lb in labels:
            self.classes[lb] += 1
        if nontrivial:
            self.classes["nontrivial"] += 1
            if k not in self.nt_keys:
                self.nt_keys.add(k)
                if sample is not None:
                    self._offer_sample(k, sample)

    def _offer_sample(self, k: int, sample):
        if len(self.samples) < MAX_SAMPLES:
            self.samples[k] = sample
            return
        worst = max(self.samples)
        if k < worst:
            del self.samples[worst]
            self.samples[k] = sample

    def count(self, label: str, n: int = 1):
        self.counters[label] += n

    def label(self, *labels: str):
        for lb in labels:
            self.classes[lb] += 1

    def violation(self, kind: str, discr, case, detail: str = ""):
        """Record a violation.  ``kind`` + ``discr`` (tuple of short strings) form the bucket signature."""
        sig = "|".join([kind, *[str(d) for d in discr]])
        try:
            size = len(json.dumps(case, default=repr))
        except Exception:  # noqa: BLE001
            size = 10 ** 9
        b = self.buckets.get(sig)
        if b is None:
            self.buckets[sig] = {"sig": sig, "kind": kind, "discr": [str(d) for d in discr],
                                 "case": case, "detail": str(detail)[:MAX_DETAIL], "size": size, "count": 1}
        else:
            b["count"] += 1
            if size < b["size"]:
                b.update(case=case, detail=str(detail)[:MAX_DETAIL], size=size)

    def mark_exhaustive(self, description: str):
        self.exhaustive.append(description)

    def note(self, text: str):
        if text not in self.notes:
            self.notes.append(text)

    # ------------------------------------------------------------------ hypothesis driver
    def given(self, strategy, fn: Callable, max_examples: int, *, seed_offset: int = 0):
        """Run ``fn(case)`` on ``max_examples`` generated cases (generate phase only, no failure expected)."""
        import warnings  # noqa: PLC0415

        from hypothesis import HealthCheck, Phase, given, settings  # noqa: PLC0415
        from hypothesis import seed as hseed  # noqa: PLC0415
        from hypothesis.errors import HypothesisWarning  # noqa: PLC0415
        warnings.simplefilter("ignore", HypothesisWarning)

        from hypothesis.errors import FlakyStrategyDefinition  # noqa: PLC0415

        ctx = self
        done = [0]
        for attempt in range(6):
            remaining = max_examples - done[0]
            if remaining <= 0:
                break

            @hseed(self.seed * 7919 + seed_offset + attempt * 104729)
            @settings(max_examples=remaining, database=None, deadline=None, derandomize=False,
                      report_multiple_bugs=False, phases=[Phase.generate],
                      suppress_health_check=list(HealthCheck))
            @given(strategy)
            def run(case):
                done[0] += 1
                if ctx.out_of_time():
                    return
                guarded(ctx, fn, case)

            try:
                run()
                break
            except FlakyStrategyDefinition:
                # Hypothesis noticed that a replayed choice sequence drew differently (seen rarely with the deeply
                # recursive soups; cause: interpreter stack-depth dependent aborts inside st.recursive).  No oracle
                # verdict is involved: count it and continue the remaining budget under a derived seed.
                self.counters["hypothesis_flaky_generation_restarts"] += 1

    # ------------------------------------------------------------------ (de)serialisation between processes
    def partial(self) -> dict:
        return {
            "evaluations": self.evaluations,
            "nt_keys": self.nt_keys,
            "all_keys": self.all_keys,
            "samples": self.samples,
            "classes": self.classes,
            "counters": self.counters,
            "buckets": self.buckets,
            "exhaustive": self.exhaustive,
            "notes": self.notes,
            "truncated": self.truncated,
        }


def guarded(ctx: "Ctx", fn: Callable, case):
    """Run ``fn(case)``.  An exception that escapes the check and was raised by adaptix itself (not by harness code) is
    a verdict, not a harness failure: an operation inside the property's domain crashed, so the property cannot hold
    for that case.  Reported as violation kind ``adaptix_crashed`` with the exception class and raising site."""
    try:
        return fn(case)
    except (env.HarnessError, KeyboardInterrupt, SystemExit, MemoryError, RecursionError):
        raise
    except Exception as ex:  # noqa: BLE001
        from .errors import crash_owner  # noqa: PLC0415
        owner, site = crash_owner(ex)
        if owner == "harness" and isinstance(ex, ValueError) and "integer string conversion" in str(ex) \
                and sys.get_int_max_str_digits() != 0:
            # the harness itself tried to render an int above the int-to-str digit limit (a generated default / datum) while
            # wording a verdict: evaluate the case once more with the limit lifted for the rendering
            old = sys.get_int_max_str_digits()
            sys.set_int_max_str_digits(0)
            try:
                return fn(case)
            finally:
                sys.set_int_max_str_digits(old)
        if owner != "adaptix":
            raise
        tail = "".join(traceback.format_exception(type(ex), ex, ex.__traceback__)[-3:])
        ctx.violation("adaptix_crashed", (type(ex).__name__, site), case,
                      f"{type(ex).__name__} escaped from adaptix at {site} during an operation the check expects to "
                      f"work: {ex!r}\n{tail}")
        return None


def merge(parts: list[dict]) -> dict:
    out = {"evaluations": 0, "nt_keys": set(), "all_keys": set(), "samples": {}, "classes": Counter(),
           "counters": Counter(), "buckets": {}, "exhaustive": [], "notes": [], "truncated": False}
    for p in parts:
        out["evaluations"] += p["evaluations"]
        out["nt_keys"] |= p["nt_keys"]
        out["all_keys"] |= p["all_keys"]
        out["samples"].update(p["samples"])
        out["classes"].update(p["classes"])
        out["counters"].update(p["counters"])
        for sig, b in p["buckets"].items():
            o = out["buckets"].get(sig)
            if o is None:
                out["buckets"][sig] = dict(b)
            else:
                o["count"] += b["count"]
                if b["size"] < o["size"]:
                    o.update(case=b["case"], detail=b["detail"], size=b["size"])
        for e in p["exhaustive"]:
            if e not in out["exhaustive"]:
                out["exhaustive"].append(e)
        for n in p["notes"]:
            if n not in out["notes"]:
                out["notes"].append(n)
        out["truncated"] = out["truncated"] or p["truncated"]
    keep = sorted(out["samples"])[:MAX_SAMPLES]
    out["samples"] = {k: out["samples"][k] for k in keep}
    return out


# ---------------------------------------------------------------------- known findings
def load_known(prop: str) -> list[dict]:
    entries = []
    path = os.path.join(env.VERIF_ROOT, "known_findings.json")
    if os.path.exists(path):
        with open(path) as f:
            data = json.load(f)
        entries.extend(data.get("findings", []))
    ddir = os.path.join(env.VERIF_ROOT, "known_findings.d")
    if os.path.isdir(ddir):
        for name in sorted(os.listdir(ddir)):
            if name.endswith(".json"):
                with open(os.path.join(ddir, name)) as f:
                    entries.extend(json.load(f).get("findings", []))
    return [e for e in entries if e.get("property") == prop]


def match_known(entries: list[dict], bucket: dict) -> Optional[dict]:
    """An *open* entry matches a bucket when its kind is equal and every given discriminator pattern
    full-matches the bucket's discriminator at the same position.  ``fixed`` entries match nothing."""
    for e in entries:
        if e.get("status") != "open":
            continue
        m = e.get("match", {})
        if "kind_re" in m:
            if not re.fullmatch(m["kind_re"], bucket["kind"]):
                continue
        elif m.get("kind") != bucket["kind"]:
            continue
        if any(x not in bucket["discr"] for x in m.get("discr_contains", [])):
            continue
        pats = m.get("discr", [])
        if len(pats) > len(bucket["discr"]):
            continue
        ok = True
        for pat, val in zip(pats, bucket["discr"]):
            if pat is None:
                continue
            if not re.fullmatch(pat, val, flags=re.DOTALL):
                ok = False
                break
        if ok:
            return e
    return None


# ---------------------------------------------------------------------- main
_SHARD_ARGS: dict = {}


def _run_shard(shard: int) -> dict:
    a = _SHARD_ARGS
    ctx = Ctx(a["prop"], a["tier"], a["seed"], shard, a["nshards"], wall_cap=a["wall_cap"])
    try:
        a["explore"](ctx)
    except (env.HarnessError, KeyboardInterrupt, SystemExit, MemoryError, RecursionError):
        return {"error": traceback.format_exc(), "shard": shard}
    except BaseException as ex:  # noqa: BLE001
        # outside ctx.given (enumerations, state machines) nothing guards single cases: an exception raised by adaptix
        # itself still is a verdict (see ``guarded``); the rest of this shard's exploration is lost
        from .errors import crash_owner  # noqa: PLC0415
        owner, site = crash_owner(ex)
        if owner != "adaptix":
            return {"error": traceback.format_exc(), "shard": shard}
        tb = traceback.format_exc()
        ctx.violation("adaptix_crashed", (type(ex).__name__, site), {"unreplayable": True, "traceback": tb[-4000:]},
                      f"{type(ex).__name__} escaped from adaptix at {site} and ended the exploration of shard {shard}: "
                      f"{ex!r}")
    return ctx.partial()


def _write_json(path: str, obj):
    os.makedirs(os.path.dirname(path), exist_ok=True)
    tmp = path + ".tmp"
    with open(tmp, "w") as f:
        json.dump(obj, f, indent=1, default=repr)
        f.write("\n")
    os.replace(tmp, path)


def _shrink(prop, check_case, strategy, bucket, budget, seed):
    """Minimise one bucket with hypothesis.find, bounded by the number of oracle calls."""
    from hypothesis import HealthCheck, find, settings  # noqa: PLC0415
    from hypothesis.errors import NoSuchExample  # noqa: PLC0415

    calls = [0]
    sig = bucket["sig"]
    best = {"case": bucket["case"], "detail": bucket["detail"], "size": bucket["size"]}

    def cond(case):
        calls[0] += 1
        if calls[0] > budget:
            return False
        c = Ctx(prop, "quick", seed)
        c.replaying = True
        try:
            guarded(c, lambda k: check_case(c, k), case)
        except Exception:  # noqa: BLE001
            return False
        b = c.buckets.get(sig)
        if b is None:
            return False
        if b["size"] <= best["size"]:
            best.update(case=b["case"], detail=b["detail"], size=b["size"])
        return True

    try:
        find(strategy, cond, random=random.Random(seed),
             settings=settings(max_examples=budget, database=None, deadline=None,
                               suppress_health_check=list(HealthCheck)))
    except NoSuchExample:
        pass
    except Exception:  # noqa: BLE001
        pass
    bucket.update(case=best["case"], detail=best["detail"], size=best["size"])
    return calls[0]


def main(prop: str, *, explore: Callable[[Ctx], None], check_case: Optional[Callable] = None,
         strategy=None, rule: str, assumptions=(), shards: Optional[dict] = None,
         wall_cap: Optional[dict] = None, level: str = "exploration",
         argv: Optional[list] = None) -> int:
    argv = list(sys.argv[1:] if argv is None else argv)
    t0 = time.monotonic()
    try:
        env.import_adaptix()
        seed = env.seed()
        if argv and argv[0] == "--replay":
            return _main_replay(prop, check_case, argv[1], seed)
        tier = argv[0] if argv else os.environ.get("VERIF_TIER", "quick")
        if tier not in ("quick", "thorough"):
            raise env.HarnessError(f"unknown tier {tier!r}")
        shards = shards or {"quick": 8, "thorough": 16}
        if os.environ.get("VERIF_SHARDS"):
            n = int(os.environ["VERIF_SHARDS"])
            shards = {"quick": n, "thorough": n}
        wall_cap = wall_cap or {"quick": 240.0, "thorough": 3600.0}
        nshards = max(1, min(shards[tier], (os.cpu_count() or 1)))

        parts = []
        # 1. committed regression replays
        replayed = 0
        rdir = os.path.join(env.VERIF_ROOT, "replays", prop)
        if check_case is not None and os.path.isdir(rdir):
            rctx = Ctx(prop, tier, seed)
            rctx.replaying = True
            for name in sorted(os.listdir(rdir)):
                if not name.endswith(".json"):
                    continue
                with open(os.path.join(rdir, name)) as f:
                    rec = json.load(f)
                guarded(rctx, lambda k: check_case(rctx, k), rec["case"])
                replayed += 1
            parts.append(rctx.partial())

        # 2. exploration
        _SHARD_ARGS.update(prop=prop, tier=tier, seed=seed, nshards=nshards, explore=explore,
                           wall_cap=wall_cap[tier])
        if nshards == 1:
            results = [_run_shard(0)]
        else:
            mp = multiprocessing.get_context("fork")
            with mp.Pool(nshards) as pool:
                results = pool.map(_run_shard, range(nshards), chunksize=1)
        for r in results:
            if "error" in r:
                raise env.HarnessError(f"shard {r['shard']} crashed:\n{r['error']}")
        parts.extend(results)
        m = merge(parts)

        # 3. classify buckets
        known = load_known(prop)
        new_buckets, known_hits = [], []
        for sig in sorted(m["buckets"]):
            b = m["buckets"][sig]
            e = match_known(known, b)
            if e is not None:
                known_hits.append((e, b))
            else:
                new_buckets.append(b)

        # 4. shrink + write replay files for new violations
        shrink_calls = 0
        out_dir = os.path.join(env.VERIF_ROOT, "out", "replays", prop)
        lines = []
        for i, b in enumerate(new_buckets):
            if strategy is not None and check_case is not None and i < 4 \
                    and os.environ.get("VERIF_NO_SHRINK") != "1":
                shrink_calls += _shrink(prop, check_case, strategy, b,
                                        150 if tier == "quick" else 1500, seed)
            path = os.path.join(out_dir, f"{h64(b['sig']):016x}.json")
            _write_json(path, {"property": prop, "signature": b["sig"], "detail": b["detail"],
                               "count": b["count"], "seed": seed, "tier": tier, "case": b["case"]})
            lines.append(f"VIOLATION property={prop} replay={path}")
            print(f"  signature: {b['sig']}\n  detail: {b['detail'][:600]}", flush=True)
        seen_known = set()
        for e, b in known_hits:
            if e["id"] in seen_known:
                continue
            seen_known.add(e["id"])
            print(f"KNOWN-FINDING: property={prop} {e['what_fails']} [{e['id']}]", flush=True)
        for ln in lines:
            print(ln, flush=True)

        # 5. evidence
        wall = time.monotonic() - t0
        coverage = {
            "evaluations": m["evaluations"],
            "distinct_nontrivial": len(m["nt_keys"]),
            "distinct_cases": len(m["all_keys"]),
            "rule": rule,
            "samples": [jsonable(s) for s in m["samples"].values()] or ["<no non-trivial sample recorded>"],
            "classes": dict(sorted(m["classes"].items())),
            "counters": dict(sorted(m["counters"].items())),
            "exhaustive": bool(m["exhaustive"]) and not m["truncated"],
            "exhaustive_parts": m["exhaustive"],
            "replayed": replayed,
            "shards": nshards,
            "known_finding_hits": {e["id"]: b["count"] for e, b in known_hits},
            "new_violation_buckets": [b["sig"] for b in new_buckets],
            "shrink_calls": shrink_calls,
            "inconclusive_timeout": m["truncated"],
            "notes": m["notes"],
        }
        ev = {
            "property_id": prop, "tier": tier, "seed": seed, "level": level,
            "coverage": coverage,
            "assumptions": list(assumptions) + [
                f"CPython {sys.version.split()[0]}; adaptix imported from {env.REPO_SRC} (working tree)",
                "a green run means no counterexample among the explored cases, nothing more",
            ],
            "wall_s": round(wall, 2),
            "violations": len(new_buckets),
        }
        _write_json(os.path.join(env.VERIF_ROOT, "evidence", f"{prop}.json"), ev)
        print(f"[{prop}] tier={tier} seed={seed} shards={nshards} evaluations={m['evaluations']} "
              f"distinct_nontrivial={len(m['nt_keys'])} known_hits={len(seen_known)} "
              f"new_violations={len(new_buckets)} wall={wall:.1f}s"
              + (" (truncated by wall cap: inconclusive beyond explored part)" if m["truncated"] else ""),
              flush=True)
        if len(m["nt_keys"]) < 2:
            raise env.HarnessError("generator starved: fewer than 2 distinct non-trivial cases")
        return 1 if new_buckets else 0
    except env.HarnessError as e:
        print(f"HARNESS-ERROR property={prop}: {e}", file=sys.stderr, flush=True)
        return 2
    except BaseException:  # noqa: BLE001
        print(f"HARNESS-ERROR property={prop}:\n{traceback.format_exc()}", file=sys.stderr, flush=True)
        return 2


def _main_replay(prop, check_case, path, seed) -> int:
    if check_case is None:
        raise env.HarnessError("this property has no replay entry point")
    with open(path) as f:
        rec = json.load(f)
    if isinstance(rec.get("case"), dict) and rec["case"].get("unreplayable"):
        print(f"[{prop}] {path} records a crash outside a single case; the recorded traceback follows, "
              f"re-run the check itself to reproduce it\n{rec['case'].get('traceback', '')}")
        return 1
    ctx = Ctx(prop, "quick", seed)
    ctx.replaying = True
    guarded(ctx, lambda k: check_case(ctx, k), rec["case"])
    known = load_known(prop)
    rc = 0
    for sig in sorted(ctx.buckets):
        b = ctx.buckets[sig]
        e = match_known(known, b)
        if e is not None:
            print(f"KNOWN-FINDING: property={prop} {e['what_fails']} [{e['id']}]")
        else:
            print(f"  signature: {b['sig']}\n  detail: {b['detail']}")
            print(f"VIOLATION property={prop} replay={path}")
            rc = 1
    if not ctx.buckets:
        print(f"[{prop}] replay {path}: property held")
    return rc
