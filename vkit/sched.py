"""Deterministic thread scheduler for C12 (harness-owned schedules).

Worker threads execute *real* code.  Line events of frames whose code object lives in one of the ``traced_files``
are *yield points* (engine ``"settrace"``: ``sys.settrace`` per worker thread; engine ``"monitoring"``:
``sys.monitoring`` LINE events enabled locally on exactly those code objects, CPython >= 3.12, about twice as fast;
the two differ only inside generator expressions, where settrace reports one line event per resumption).
At every moment exactly one worker holds the token and runs; all others are parked on their private gate.
The schedule decides where the token moves:

    schedule = {"prio": [thread indices, highest priority first], "cp": [global yield indices]}

The token holder is always the highest-priority runnable thread (PCT, Burckhardt et al. 2010).  When the global
yield counter reaches a *change point* the running thread is moved to the end of the priority list (it is parked
*before* executing the line of that yield point) and the new highest-priority runnable thread continues.  When a
thread finishes, the highest-priority parked thread continues.  ``cp=[]`` is plain sequential execution in
priority order, ``cp=[k]`` is "preempt the first thread at its k-th yield point, run the others to completion,
resume", etc.  A run is therefore a pure function of (bodies, schedule) -- as long as the liveness fallback below
stays unused (``Result.fallbacks == 0``), which callers must check.

Liveness fallback (the only use of clocks): if the token holder neither reaches a yield point, nor finishes, nor
consumes CPU time (per-thread CPU clock) for ``block_detect`` seconds it is treated as *blocked* (e.g. waiting for
a real lock that a parked thread holds) and the next parked thread is released in addition, so the harness itself
can never create a deadlock; the blocked thread parks again at its next yield point.  Functions listed in
``no_yield`` (bodies of real locks) contain no yield points.  If every unfinished thread has been released and
nothing moves for the long ``grace`` period the run ends with ``status == "hang"``; the blocked daemon threads are
leaked (Python cannot kill them) and the caller decides what that means.  ``max_steps`` bounds the number of yield
points (``status == "overrun"``: all workers are unwound with ``Abort``).
"""
from __future__ import annotations

import _thread
import sys
import threading
import time
from typing import Callable, Optional, Sequence


class Abort(BaseException):
    """Raised inside worker threads to unwind them after a step-budget overrun."""


class _TS:
    __slots__ = ("idx", "gate", "parked", "blocked", "done", "steps", "thread", "error", "frame", "ident", "clk")

    def __init__(self, idx: int):
        self.idx = idx
        self.gate = _thread.allocate_lock()
        self.gate.acquire()
        self.parked = False
        self.blocked = False
        self.done = False
        self.steps = 0
        self.thread: Optional[threading.Thread] = None
        self.error: Optional[BaseException] = None
        self.frame = None  # frame of the yield point where the thread is parked
        self.ident = None
        self.clk = None


class Switch:
    """One token move caused by a change point (a preemption)."""
    __slots__ = ("g", "frm", "to", "func", "file", "line", "info")

    def __init__(self, g, frm, to, func, file, line, info):
        self.g, self.frm, self.to, self.func, self.file, self.line, self.info = g, frm, to, func, file, line, info

    def as_json(self):
        return {"g": self.g, "from": self.frm, "to": self.to, "func": self.func, "file": self.file,
                "line": self.line, "info": self.info}


class Result:
    __slots__ = ("status", "steps", "per_thread_steps", "switches", "fallbacks", "log", "errors", "blocked_at")

    def __init__(self):
        self.status = "ok"            # ok | hang | overrun
        self.steps = 0
        self.per_thread_steps: list[int] = []
        self.switches: list[Switch] = []
        self.fallbacks = 0
        self.log: Optional[list] = None
        self.errors: list = []        # exceptions escaping a body (harness bugs) as (idx, exc)
        self.blocked_at: list = []    # for a hang: where each unfinished thread was last seen


class Scheduler:
    def __init__(self, bodies: Sequence[Callable[["Scheduler", int], None]], schedule: dict, *,
                 traced_files: frozenset, no_yield: frozenset = frozenset(),
                 grace: float = 2.0, block_detect: float = 0.05, max_steps: int = 200_000, record: bool = False,
                 on_switch: Optional[Callable] = None, engine: str = "settrace", log_files: bool = False):
        n = len(bodies)
        prio = list(schedule.get("prio") or range(n))
        if sorted(prio) != list(range(n)):
            raise ValueError(f"schedule prio {prio!r} is not a permutation of range({n})")
        self._bodies = bodies
        self._ts = [_TS(i) for i in range(n)]
        self._prio = [self._ts[i] for i in prio]
        self._cps = frozenset(int(c) for c in schedule.get("cp", ()))
        self._traced_files = traced_files
        self._no_yield = no_yield
        self._grace = grace
        self._has_cpu_clock = hasattr(time, "pthread_getcpuclockid")
        # without per-thread CPU clocks "blocked" can only be told from "busy in untraced code" by waiting long
        self._block_detect = block_detect if self._has_cpu_clock else grace
        self._tick = min(0.005, self._block_detect / 4) if self._has_cpu_clock else min(0.25, grace / 4)
        self._cpu_eps = 0.0003
        self._max_steps = max_steps
        self._codeflags: dict = {}
        self._mu = threading.Lock()
        self._cur: Optional[_TS] = None
        self._g = 0
        self._progress = 0
        self._ndone = 0
        self._all_done = threading.Event()
        self._started = threading.Semaphore(0)
        self._abort = False
        self._on_switch = on_switch
        self._by_ident: dict = {}
        if engine not in ("settrace", "monitoring"):
            raise ValueError(engine)
        self._engine = engine
        # recorded log entries name the function as "<dir>/<file>.py:<function>" instead of "<function>" (needed when the
        # traced files are a whole package: equal (function, line) pairs exist in different files)
        self._log_files = log_files
        self._log_names: dict = {}
        self.result = Result()
        if record:
            self.result.log = []

    # ------------------------------------------------------------------ queries usable from on_switch callbacks
    def parked_frame(self, idx: int):
        return self._ts[idx].frame

    def thread_done(self, idx: int) -> bool:
        return self._ts[idx].done

    @property
    def gstep(self) -> int:
        return self._g

    # ------------------------------------------------------------------ scheduling core
    def _pick(self) -> Optional[_TS]:
        """Highest-priority thread that is parked (caller holds _mu)."""
        for t in self._prio:
            if t.parked and not t.done:
                return t
        return None

    def _classify(self, code) -> bool:
        return code.co_filename in self._traced_files and \
            (code.co_filename, code.co_name) not in self._no_yield and code.co_name not in self._no_yield

    def _yield(self, ts: _TS, frame, label=None):
        if self._abort:
            raise Abort
        if self._cur is ts:
            g = self._g
            self._g = g + 1
            ts.steps += 1
            log = self.result.log
            if log is not None:
                code = frame.f_code
                name = label or code.co_name
                if self._log_files and label is None:
                    name = self._log_names.get(code)
                    if name is None:
                        name = self._log_names[code] = "/".join(code.co_filename.rsplit("/", 2)[-2:]) + ":" + code.co_name
                log.append((ts.idx, name, frame.f_lineno if label is None else 0))
            if g not in self._cps:
                if g >= self._max_steps:
                    self._abort = True
                    self.result.status = "overrun"
                    raise Abort
                return
            with self._mu:
                if self._cur is ts:
                    # change point: demote the running thread, continue with the best runnable one
                    self._prio.remove(ts)
                    self._prio.append(ts)
                    ts.parked = True
                    nxt = self._pick()
                    if nxt is ts:
                        ts.parked = False
                        return
                    ts.frame = frame
                    code = frame.f_code
                    sw = Switch(g, ts.idx, nxt.idx, label or code.co_name, code.co_filename, frame.f_lineno, None)
                    if self._on_switch is not None:
                        sw.info = self._on_switch(self, sw, frame)
                    self.result.switches.append(sw)
                    self._cur = nxt
                    self._progress += 1
                    nxt.parked = False
                    nxt.gate.release()
                else:
                    ts.blocked = False
                    ts.parked = True
                    ts.frame = frame
        else:
            # this thread was declared blocked and lost the token; park until it is scheduled again
            with self._mu:
                if self._cur is None:
                    self._cur = ts
                    ts.blocked = False
                    self._progress += 1
                    return
                if self._cur is ts:
                    return
                ts.blocked = False
                ts.parked = True
                ts.frame = frame
                self._progress += 1
        ts.gate.acquire()
        ts.frame = None
        if self._abort:
            raise Abort

    def checkpoint(self, label: str = "checkpoint"):
        """Explicit yield point for harness code running in a worker thread (e.g. between two operations)."""
        ts = self._by_ident.get(_thread.get_ident())
        if ts is None:
            return
        self._yield(ts, sys._getframe(1), label)

    def _cpu_sum(self) -> float:
        """CPU seconds consumed so far by the unfinished worker threads (0.0 if the platform cannot tell)."""
        if not self._has_cpu_clock:
            return 0.0
        total = 0.0
        for t in self._ts:
            if not t.done and t.clk is not None:
                try:
                    total += time.clock_gettime(t.clk)
                except OSError:
                    pass
        return total

    def _finish(self, ts: _TS):
        with self._mu:
            ts.done = True
            ts.blocked = False
            self._ndone += 1
            self._progress += 1
            if self._cur is ts:
                nxt = self._pick()
                self._cur = nxt
                if nxt is not None:
                    nxt.parked = False
                    nxt.gate.release()
            if self._ndone == len(self._ts):
                self._all_done.set()

    def _worker(self, ts: _TS):
        self._by_ident[_thread.get_ident()] = ts
        ts.ident = _thread.get_ident()
        if self._has_cpu_clock:
            ts.clk = time.pthread_getcpuclockid(ts.ident)
        ts.parked = True
        self._started.release()
        ts.gate.acquire()
        try:
            if not self._abort:
                if self._engine == "monitoring":
                    self._bodies[ts.idx](self, ts.idx)
                else:
                    self._run_with_settrace(ts)
        except Abort:
            pass
        except BaseException as e:  # noqa: BLE001 -- a body must handle the exceptions of the code under test
            ts.error = e
        finally:
            self._finish(ts)

    def _run_with_settrace(self, ts: _TS):
        codeflags = self._codeflags
        classify = self._classify
        do_yield = self._yield

        def local(frame, event, arg):
            if event == "line":
                do_yield(ts, frame)
            return local

        def tracer(frame, event, arg):
            code = frame.f_code
            flag = codeflags.get(code)
            if flag is None:
                flag = codeflags[code] = classify(code)
            return local if flag else None

        sys.settrace(tracer)
        try:
            self._bodies[ts.idx](self, ts.idx)
        finally:
            sys.settrace(None)

    # ------------------------------------------------------------------ driver (main thread)
    def run(self) -> Result:
        if self._engine == "monitoring":
            _Monitor.activate(self)
            try:
                return self._run()
            finally:
                _Monitor.deactivate(self)
        return self._run()

    def _run(self) -> Result:
        res = self.result
        for ts in self._ts:
            ts.thread = threading.Thread(target=self._worker, args=(ts,), daemon=True, name=f"c12-worker-{ts.idx}")
            ts.thread.start()
        for _ in self._ts:
            self._started.acquire()
        with self._mu:
            first = self._pick()
            self._cur = first
            first.parked = False
            first.gate.release()

        # Watchdog.  "Moved" = a yield point / switch / finish happened, or the unfinished workers consumed CPU
        # time (a long stretch of untraced code).  A token holder that neither moves nor burns CPU for
        # ``block_detect`` seconds is blocked (waiting for a real lock, sleeping, ...): release the next parked
        # thread.  Only when *no* unfinished thread can be released any more and nothing moved for the long
        # ``grace`` period is the run declared hung.
        tick = self._tick
        last = None
        idle_since = time.monotonic()
        while not self._all_done.wait(tick):
            now = time.monotonic()
            snap = (self._progress, self._g, self._cpu_sum())
            if last is None or snap[:2] != last[:2] or snap[2] - last[2] > self._cpu_eps:
                last = snap
                idle_since = now
                continue
            last = snap
            idle = now - idle_since
            with self._mu:
                if (self._progress, self._g) != snap[:2]:
                    continue
                holder = self._cur
                if holder is not None and not holder.done:
                    if idle < self._block_detect:
                        continue
                    holder.blocked = True
                    nxt = self._pick()
                    self._cur = nxt
                    if nxt is not None:
                        res.fallbacks += 1
                        nxt.parked = False
                        self._progress += 1
                        nxt.gate.release()
                        last = None
                    continue
                nxt = self._pick()
                if nxt is not None:  # a thread that had been declared blocked woke up and parked itself
                    self._cur = nxt
                    nxt.parked = False
                    self._progress += 1
                    nxt.gate.release()
                    last = None
                    continue
                if idle < self._grace:
                    continue
                # every unfinished thread has been released, none moved or used CPU for a whole grace period
                res.status = "hang"
                frames = sys._current_frames()
                for t in self._ts:
                    if not t.done:
                        fr = frames.get(t.ident)
                        where = []
                        while fr is not None and len(where) < 6:
                            where.append(f"{fr.f_code.co_filename.rsplit('/', 1)[-1]}:{fr.f_code.co_name}:{fr.f_lineno}")
                            fr = fr.f_back
                        res.blocked_at.append((t.idx, where))
                break
        if res.status != "hang":
            for ts in self._ts:
                ts.thread.join()
        res.steps = self._g
        res.per_thread_steps = [t.steps for t in self._ts]
        res.errors = [(t.idx, t.error) for t in self._ts if t.error is not None]
        return res


class _Monitor:
    """``sys.monitoring`` engine (CPython >= 3.12): LINE events are enabled *locally* on the code objects of the
    traced files only, so untraced code runs at full speed.  One scheduler at a time per process."""

    TOOL = 4
    installed_for = None     # (traced_files, no_yield) the instrumentation was installed for
    active: Optional[Scheduler] = None
    late = 0                 # code objects discovered lazily through PY_START (should stay 0 after installation)
    seen: set = set()

    @classmethod
    def _wanted(cls, code) -> bool:
        files, no_yield = cls.installed_for
        return code.co_filename in files and code.co_name not in no_yield

    @classmethod
    def _instrument(cls, code, seen):
        if code in seen:
            return
        seen.add(code)
        mon = sys.monitoring
        if cls._wanted(code):
            mon.set_local_events(cls.TOOL, code, mon.events.LINE)
        for const in code.co_consts:
            if isinstance(const, type(code)):
                cls._instrument(const, seen)

    @classmethod
    def install(cls, traced_files, no_yield):
        import gc  # noqa: PLC0415
        import types  # noqa: PLC0415
        mon = sys.monitoring
        key = (traced_files, no_yield)
        if cls.installed_for == key:
            return
        if cls.installed_for is not None:
            raise RuntimeError("vkit.sched monitoring engine supports one traced-file set per process")
        mon.use_tool_id(cls.TOOL, "vkit.sched")
        cls.installed_for = key
        for obj in gc.get_objects():
            if isinstance(obj, types.FunctionType) and obj.__code__.co_filename in traced_files:
                cls._instrument(obj.__code__, cls.seen)
        mon.register_callback(cls.TOOL, mon.events.LINE, cls._on_line)
        mon.register_callback(cls.TOOL, mon.events.PY_START, cls._on_start)
        mon.set_events(cls.TOOL, mon.events.PY_START)

    @classmethod
    def _on_start(cls, code, offset):
        if code not in cls.seen and cls._wanted(code):
            cls.late += 1
            cls._instrument(code, cls.seen)
        return sys.monitoring.DISABLE

    @classmethod
    def _on_line(cls, code, line):
        sch = cls.active
        if sch is None:
            return None
        ts = sch._by_ident.get(_thread.get_ident())
        if ts is None or ts.done:
            return None
        if sch._cur is ts and not sch._abort and sch.result.log is None:
            g = sch._g   # fast path: not a change point, nothing to record
            if g not in sch._cps and g < sch._max_steps:
                sch._g = g + 1
                ts.steps += 1
                return None
        sch._yield(ts, sys._getframe(1))
        return None

    @classmethod
    def activate(cls, sch: Scheduler):
        cls.install(sch._traced_files, sch._no_yield)
        if cls.active is not None:
            raise RuntimeError("another Scheduler is running in this process")
        cls.active = sch

    @classmethod
    def deactivate(cls, sch: Scheduler):
        cls.active = None
