"""Shared verification kit for the adaptix property checks (see /verif/DESIGN.md section 3)."""
