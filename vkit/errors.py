"""Helpers around exceptions raised by adaptix: call sites, flattening of groups, absolute trails."""
from __future__ import annotations

import os
import re
import traceback

from . import env

env.import_adaptix()

from adaptix import load_error as le  # noqa: E402
from adaptix.struct_trail import get_trail  # noqa: E402

_SRC = os.path.realpath(env.REPO_SRC)
_DIGITS = re.compile(r"\d+")


def exc_site(e: BaseException) -> str:
    """Innermost frame inside adaptix (``file.py:function``); generated code shows up as ``<generated>:name``."""
    tb = e.__traceback__
    site = "?"
    for fs in traceback.extract_tb(tb):
        fn = fs.filename
        if fn.startswith("<adaptix generated"):
            site = "<generated>:" + _DIGITS.sub("N", fs.name)
        else:
            rp = os.path.realpath(fn) if os.path.exists(fn) else fn
            if rp.startswith(_SRC):
                site = f"{os.path.basename(fn)}:{fs.name}"
    return site


_VERIF = os.path.realpath(env.VERIF_ROOT)


def crash_owner(e: BaseException):
    """Who raised an exception that escaped a check: walking from the innermost frame outwards, the first frame that
    belongs either to adaptix (-> ``("adaptix", site)``) or to the harness (-> ``("harness", site)``); frames of the
    standard library / third-party code called by either are skipped."""
    for fs in reversed(traceback.extract_tb(e.__traceback__)):
        fn = fs.filename
        if fn.startswith("<adaptix generated"):
            return "adaptix", "<generated>:" + _DIGITS.sub("N", fs.name)
        rp = os.path.realpath(fn) if os.path.exists(fn) else fn
        if rp.startswith(_SRC):
            return "adaptix", f"{os.path.basename(fn)}:{fs.name}"
        if rp.startswith(_VERIF) and os.sep + ".deps" + os.sep not in rp:
            return "harness", f"{os.path.basename(fn)}:{fs.name}"
    return "unknown", "?"


def is_group(e: BaseException) -> bool:
    return isinstance(e, BaseExceptionGroup)


def leaves(e: BaseException, prefix=()):
    """Yield ``(absolute_trail_tuple, leaf_exception)`` for every leaf reached through ``.exceptions``.
    A ``UnionLoadError`` is treated as a *leaf* (its sub-errors are alternatives, not positions)."""
    trail = tuple(prefix) + tuple(get_trail(e))
    if isinstance(e, BaseExceptionGroup) and not isinstance(e, le.UnionLoadError):
        for sub in e.exceptions:
            yield from leaves(sub, trail)
    else:
        yield trail, e


def all_nodes(e: BaseException):
    """Every exception object in the tree (groups and leaves, union alternatives included)."""
    yield e
    if isinstance(e, BaseExceptionGroup):
        for sub in e.exceptions:
            yield from all_nodes(sub)


def valid_load_error(e: BaseException) -> bool:
    """C04's validity predicate: a LoadError whose every reachable leaf is a LoadError as well."""
    return all(isinstance(n, le.LoadError) for n in all_nodes(e))


def first_foreign(e: BaseException):
    for n in all_nodes(e):
        if not isinstance(n, le.LoadError):
            if isinstance(n, BaseExceptionGroup):
                continue
            return n
    for n in all_nodes(e):
        if not isinstance(n, le.LoadError):
            return n
    return None


def describe(e: BaseException) -> str:
    try:
        s = repr(e)
    except Exception:  # noqa: BLE001
        s = f"<{type(e).__name__} with failing repr>"
    return f"{type(e).__name__}: {s[:300]}"
