"""C10 helpers: pure-data language for types / locations / predicate expressions, the reference evaluator
written from the documentation, and the builder that turns pure data into real adaptix objects.

Pure-data forms (everything JSON-able):

type spec ``ts``   "A" | "int" | "list" | "List" | ... (a base name)  or  ["List", ts] ["list", ts] ["Dict", k, v]
                   ["dict", k, v] ["Tuple", ts...] ["Opt", ts] ["Union", ts...]
location           ["TH", ts] | ["IF", ts, field_id] | ["OF", ts, field_id] | ["FL", ts, field_id]
                   | ["IFF", ts, field_id] | ["GP", ts, generic_pos]
stack              [location, ...]            (first = root, last = the location the request is about)
expression         ["T", ts]                  a class / type hint passed as predicate
                   ["S", string]              a string passed as predicate
                   ["R", pattern, flags]      re.compile(pattern, flags) passed as predicate; flags = letters of "IAXSM"
                   ["ANY"]                    P.ANY
                   ["P", base|None, [elem]]   P-chain; base = expression building a LocStackPattern that is extended
                   ["add", e1, e2]            e1 + e2
                   ["lsc", e]                 create_loc_stack_checker(e)  (lifts to a LocStackChecker)
                   ["or"|"and"|"xor", e1, e2] e1 | e2, e1 & e2, e1 ^ e2
                   ["not", e]                 ~e
chain element      ["a", name]  .name   | ["i", e]  [e]   | ["t", [e...], gen]  [e1, e2] / [(generator)]
                   | ["g", pos, e]  .generic_arg(pos, e)
"""
import functools
import operator
import re
import types
import typing
from abc import ABC, abstractmethod
from functools import lru_cache
from typing import Optional, Protocol, runtime_checkable

from . import env

env.import_adaptix()

from adaptix import P, create_loc_stack_checker  # noqa: E402
from adaptix._internal.model_tools.definitions import NoDefault, create_attr_accessor  # noqa: E402
from adaptix._internal.provider.loc_stack_filtering import LocStack, LocStackPattern  # noqa: E402
from adaptix._internal.provider.location import (  # noqa: E402
    FieldLoc,
    GenericParamLoc,
    InputFieldLoc,
    InputFuncFieldLoc,
    OutputFieldLoc,
    TypeHintLoc,
)

MED = object()  # no checker of the predicate system touches the mediator


def tup(x):
    return tuple(tup(i) for i in x) if isinstance(x, (list, tuple)) else x


def lst(x):
    return [lst(i) for i in x] if isinstance(x, (list, tuple)) else x


# ===================================================================================== the class universe
# Reference-side knowledge about the classes, written by hand from the class definitions (fixed universe below,
# same roles for the per-case generated worlds).  World.self_check() verifies it against Python's issubclass.
CLASS_KIND = {
    "A": "concrete", "B": "concrete", "SubA": "concrete", "Impl": "concrete", "ProtoImpl": "concrete",
    "ProtoSub": "concrete", "Root": "concrete", "ImplSub": "concrete", "ProtoSubSub": "concrete",
    "Abs": "abstract", "AbsSub": "abstract", "Proto": "protocol",
    "int": "concrete", "str": "concrete", "bool": "concrete", "NoneType": "concrete",
    "list": "generic", "List": "generic", "dict": "generic", "Dict": "generic",
}
SUPERS = {  # reflexive + transitive, restricted to the universe
    "A": {"A"}, "B": {"B"}, "SubA": {"SubA", "A"}, "Abs": {"Abs"}, "AbsSub": {"AbsSub", "Abs"},
    "Impl": {"Impl", "Abs"}, "Proto": {"Proto"}, "ProtoImpl": {"ProtoImpl", "Proto"},
    "ProtoSub": {"ProtoSub", "Proto"}, "Root": {"Root"},
    "ImplSub": {"ImplSub", "Impl", "Abs"}, "ProtoSubSub": {"ProtoSubSub", "ProtoSub", "Proto"},
    "int": {"int"}, "bool": {"bool", "int"}, "str": {"str"}, "NoneType": {"NoneType"},
    "list": {"list"}, "dict": {"dict"},
}
ALIAS = {"List": "list", "Dict": "dict"}
MODEL_ROLES = ("B", "A", "SubA", "Impl", "ProtoImpl", "Root")


class A:
    pass


class B:
    pass


class SubA(A):
    pass


class Abs(ABC):
    @abstractmethod
    def m(self):
        ...


class AbsSub(Abs):  # still abstract
    pass


class Impl(Abs):
    def m(self):
        return 1


@runtime_checkable
class Proto(Protocol):
    def pm(self):
        ...


class ProtoImpl:  # structural implementation
    def pm(self):
        return 1


class ProtoSub(Proto):  # explicit implementation
    def pm(self):
        return 2


class ImplSub(Impl):  # a concrete subclass of a CONCRETE class whose metaclass is ABCMeta: rule 1 applies to Impl, not rule 2
    pass


class ProtoSubSub(ProtoSub):  # likewise below an explicit protocol implementation
    pass


class Root:  # the role of the root model in end-to-end worlds (so that localised e2e cases replay here)
    pass


def _some_func(a, b):  # owner of InputFuncFieldLoc locations
    return a, b


_BUILTINS = {"int": int, "str": str, "bool": bool, "NoneType": type(None), "list": list, "dict": dict,
             "List": typing.List, "Dict": typing.Dict}  # noqa: UP006


class World:
    """name -> real class mapping plus conversions pure data <-> real adaptix objects."""

    def __init__(self, classes):
        self.cls = {**_BUILTINS, **classes}
        self.rev = {v: k for k, v in self.cls.items()}
        self._real = {}
        self._loc = {}

    def self_check(self):
        names = [n for n in self.cls if n not in ("List", "Dict")]
        for x in names:
            for y in names:
                if issubclass(self.cls[x], self.cls[y]) != (y in SUPERS[x]):
                    raise env.HarnessError(f"C10 universe table disagrees with Python: issubclass({x}, {y})")

    # ---------------------------------------------------------------- pure -> real
    def real(self, ts):
        key = tup(ts)
        try:
            return self._real[key]
        except KeyError:
            pass
        if isinstance(ts, str):
            r = self.cls[ts]
        else:
            head = ts[0]
            args = [self.real(a) for a in ts[1:]]
            if head == "List":
                r = typing.List[args[0]]  # noqa: UP006
            elif head == "list":
                r = list[args[0]]
            elif head == "Dict":
                r = typing.Dict[args[0], args[1]]  # noqa: UP006
            elif head == "dict":
                r = dict[args[0], args[1]]
            elif head == "Tuple":
                r = typing.Tuple[tuple(args)]  # noqa: UP006
            elif head == "Opt":
                r = typing.Optional[args[0]]
            elif head == "Union":
                r = typing.Union[tuple(args)]
            elif head == "OptBar":      # PEP 604 spelling: a types.UnionType object, not a typing.Union
                r = args[0] | None
            elif head == "Bar":
                r = functools.reduce(operator.or_, args)
            else:
                raise ValueError(ts)
        self._real[key] = r
        return r

    def real_loc(self, loc):
        key = tup(loc)
        try:
            return self._loc[key]
        except KeyError:
            pass
        k = loc[0]
        tp = self.real(loc[1])
        if k == "TH":
            r = TypeHintLoc(type=tp)
        elif k == "GP":
            r = GenericParamLoc(type=tp, generic_pos=loc[2])
        elif k == "IF":
            r = InputFieldLoc(type=tp, field_id=loc[2], default=NoDefault(), metadata={}, is_required=True)
        elif k == "OF":
            r = OutputFieldLoc(type=tp, field_id=loc[2], default=NoDefault(), metadata={},
                               accessor=create_attr_accessor(loc[2], is_required=True))
        elif k == "FL":
            r = FieldLoc(type=tp, field_id=loc[2], default=NoDefault(), metadata={})
        elif k == "IFF":
            r = InputFuncFieldLoc(type=tp, field_id=loc[2], default=NoDefault(), metadata={}, func=_some_func)
        else:
            raise ValueError(loc)
        self._loc[key] = r
        return r

    def real_stack(self, stack):
        return LocStack(*[self.real_loc(loc) for loc in stack])

    # ---------------------------------------------------------------- real -> pure (for captured stacks)
    def pure_type(self, tp):
        try:
            if tp in self.rev:
                return self.rev[tp]
        except TypeError:
            pass
        origin = typing.get_origin(tp)
        args = typing.get_args(tp)
        if origin is list:
            return ["list", self.pure_type(args[0])]
        if origin is dict:
            return ["dict", self.pure_type(args[0]), self.pure_type(args[1])]
        if origin is tuple:
            return ["Tuple", *[self.pure_type(a) for a in args]]
        if origin is typing.Union or origin is types.UnionType:
            bar = origin is types.UnionType
            members = [self.pure_type(a) for a in args]
            if len(members) == 2 and "NoneType" in members:  # noqa: PLR2004
                return ["OptBar" if bar else "Opt", next(m for m in members if m != "NoneType")]
            return ["Bar" if bar else "Union", *members]
        raise env.HarnessError(f"C10: cannot express captured type {tp!r} as pure data")

    def pure_loc(self, loc):
        ts = self.pure_type(loc.type)
        name = type(loc).__name__
        if name == "TypeHintLoc":
            return ["TH", ts]
        if name == "GenericParamLoc":
            return ["GP", ts, loc.generic_pos]
        kind = {"InputFieldLoc": "IF", "OutputFieldLoc": "OF", "FieldLoc": "FL", "InputFuncFieldLoc": "IFF"}[name]
        return [kind, ts, loc.field_id]


W0 = World({"A": A, "B": B, "SubA": SubA, "Abs": Abs, "AbsSub": AbsSub, "Impl": Impl, "Proto": Proto,
            "ProtoImpl": ProtoImpl, "ProtoSub": ProtoSub, "Root": Root, "ImplSub": ImplSub, "ProtoSubSub": ProtoSubSub})
W0.self_check()


# ===================================================================================== reference: atoms
def canon(ts):
    """Identity of a type ("the same type"): typing aliases and builtin spellings coincide, Optional[X] is
    Union[X, None], union members are unordered."""
    if isinstance(ts, str):
        return ALIAS.get(ts, ts)
    head = ts[0]
    args = ts[1:]
    if head in ("List", "list"):
        return ("list", canon(args[0]))
    if head in ("Dict", "dict"):
        return ("dict", canon(args[0]), canon(args[1]))
    if head == "Tuple":
        return ("tuple", *[canon(a) for a in args])
    if head in ("Opt", "OptBar"):
        return ("Union", frozenset({canon(args[0]), "NoneType"}))
    if head in ("Union", "Bar"):
        return ("Union", frozenset(canon(a) for a in args))
    raise ValueError(ts)


def origin_name(ts):
    c = canon(ts)
    return c if isinstance(c, str) else c[0]


@lru_cache(maxsize=None)
def ref_type(pred, loc_ts) -> Optional[bool]:
    """Tutorial, "Predicate system", rules 1-3.  ``pred`` / ``loc_ts`` are tuple-ised type specs.
    None = the documentation does not decide (bare generic class vs a parametrised spelling of it; abstract
    class vs a parametrised generic whose origin is a subclass)."""
    if isinstance(pred, str):
        kind = CLASS_KIND[pred]
        if kind in ("abstract", "protocol"):
            # rule 2 / 3: "applied to all subclasses" / "all protocol implementations"
            if isinstance(loc_ts, str):
                return pred in SUPERS[canon(loc_ts)]
            o = origin_name(loc_ts)
            if o in SUPERS and pred in SUPERS[o]:
                return None
            return False
        # rule 1: "If you pass a class, the provider will be applied to all same types"
        if isinstance(loc_ts, str):
            return canon(loc_ts) == canon(pred)
        if kind == "generic" and origin_name(loc_ts) == canon(pred):
            return None
        return False
    # a parametrised hint is a type of its own: the same type and nothing else
    if isinstance(loc_ts, str):
        return False
    return canon(loc_ts) == canon(pred)


_FIELD_KINDS = ("IF", "OF", "FL")


@lru_cache(maxsize=None)
def ref_str(s, loc) -> Optional[bool]:
    """Rule 4: a regex over field ids (full match); an identifier "will match an equal string"."""
    k = loc[0]
    if k == "IFF":
        return None  # function parameters (conversion): not described by the tutorial
    if k not in _FIELD_KINDS:
        return False
    fid = loc[2]
    if s.isidentifier():
        return s == fid
    return re.fullmatch(s, fid) is not None


RE_FLAGS = {"I": re.IGNORECASE, "A": re.ASCII, "X": re.VERBOSE, "S": re.DOTALL, "M": re.MULTILINE}


def re_flags(letters) -> int:
    out = 0
    for ch in letters:
        out |= RE_FLAGS[ch]
    return out


@lru_cache(maxsize=None)
def ref_re(pattern, flags, loc) -> Optional[bool]:
    """A compiled pattern is the regex of rule 4 with the flags its author gave it: full match of the field id,
    decided by plain ``re`` here in the harness."""
    k = loc[0]
    if k == "IFF":
        return None
    if k not in _FIELD_KINDS:
        return False
    return re.compile(pattern, re_flags(flags)).fullmatch(loc[2]) is not None


@lru_cache(maxsize=None)
def ref_atom(atom, loc) -> Optional[bool]:
    tag = atom[0]
    if tag == "T":
        return ref_type(atom[1], loc[1])
    if tag == "S":
        return ref_str(atom[1], loc)
    if tag == "R":
        return ref_re(atom[1], atom[2], loc)
    if tag == "ANY":
        return True
    raise ValueError(atom)


def type_kind(ts):
    ts = lst(ts)
    return CLASS_KIND[ts] if isinstance(ts, str) else "param"


# ===================================================================================== field ids and regex grammar
# "Any field_id must be a valid python identifier" (tutorial, rule 4) -- and python identifiers are not limited to
# ASCII.  Only identifiers that are already NFKC-normalised are used as field ids: python normalises identifiers of a
# class body, so any other spelling would not be the id the model really has.
import keyword  # noqa: E402
import unicodedata  # noqa: E402


def is_safe_id(s: str) -> bool:
    return (s.isidentifier() and unicodedata.normalize("NFKC", s) == s and not keyword.iskeyword(s)
            and not s.startswith("_") and not s.endswith("_"))


_SENSITIVE = re.compile(r"\\[wWdDsSbB]|\(\?[a-zA-Z]*i|\[\^")


def regex_is_sensitive(s: str) -> bool:
    """Label only: the regex uses a character-class escape, a word boundary, a negated set or case-insensitivity."""
    return _SENSITIVE.search(s) is not None


U_IDS_RAW = [
    # Cyrillic (with ASCII digits / underscores / ASCII tails), two spellings differing in case only
    "клиент_id", "Клиент_id", "номер_id", "сумма", "СУММА", "имя2", "ключ_2", "id_заказа",
    # plain ASCII neighbours
    "user_id", "USER_ID", "id", "a", "A", "a1", "ab",
    # Latin letters with diacritics (precomposed = NFKC-stable), sharp s, dotless / dotted i
    "größe", "GRÖSSE", "straße", "café", "CAFÉ", "naïve", "ñ", "ça", "ß", "\u0130d", "\u0131",
    # Greek (final sigma), CJK, Devanagari (spacing vowel signs are not \w), combining mark without precomposed form
    "αβγ", "ΑΒΓ", "σας", "ΣΑΣ", "δ1", "名前", "数_1", "日本語", "\u0928\u093e\u092e", "x\u0302y",
    # a non-ASCII decimal digit (Nd: matched by \d in unicode mode only)
    "a\u0661", "n\u0967",
]
U_IDS = [x for x in U_IDS_RAW if is_safe_id(x)]
if len(U_IDS) != len(U_IDS_RAW):
    raise env.HarnessError(f"C10: field id pool holds unusable ids: {[x for x in U_IDS_RAW if not is_safe_id(x)]}")


class _Digits:
    """Mixed-radix reader of one non-negative integer: the whole derivation is a pure function of (field id, code);
    code 0 always takes option 0 (the plainest spelling), so cases shrink towards literals."""

    def __init__(self, code):
        self.c = code

    def take(self, k):
        self.c, r = divmod(self.c, k)
        return r


def _range_around(c):
    lo, hi = chr(max(ord(c) - 2, 1)), chr(ord(c) + 3)
    return f"[{re.escape(lo)}-{re.escape(hi)}]"


def _char_class(c, d):
    if c == "_":
        opts = ["_", r"\w", "[_x]", r"[^\W\d]", ".", r"\S", r"[\W_]"]
    elif c.isdecimal():
        opts = [c, r"\d", r"\w", "[0-9]", ".", r"[^\D]", r"\S", _range_around(c)]
    elif c.isalpha():
        opts = [c, r"\w", r"[^\W\d_]", ".", _range_around(c), r"\S", f"(?i:{c.swapcase()})", r"\D", f"[{c}{c.swapcase()}]"]
    else:   # marks: identifier characters that are not \w
        opts = [c, ".", r"\S", r"\W", r"[^\w]"]
    return opts[d.take(len(opts))]


_ALTS = ["x", "id", r"\d+", "ключ", r"\w", "名"]


def _segment(seg, d):  # noqa: C901, PLR0911
    how = d.take(14)
    n = len(seg)
    wordy = all(c == "_" or c.isalnum() for c in seg)
    if how in (0, 1):
        return seg
    if how in (2, 3):
        return "".join(_char_class(c, d) for c in seg)
    if how == 4:  # noqa: PLR2004
        return (r"\w+", r"\w*", r"[\w]+", r"\w+?")[d.take(4)] if wordy else (".+", ".*")[d.take(2)]
    if how == 5:  # noqa: PLR2004
        k = (n, n, n + 1, max(n - 1, 0))[d.take(4)]
        return (r"\w{%d}" % k, r".{%d}" % k, r"\w{%d,}" % k, r"\w{1,%d}" % max(k, 1))[d.take(4)]
    if how == 6:  # noqa: PLR2004
        return f"(?i:{seg.swapcase()})"
    if how == 7:  # noqa: PLR2004
        alt = _ALTS[d.take(len(_ALTS))]
        return f"(?:{seg}|{alt})" if d.take(2) else f"(?:{alt}|{seg})"
    if how == 8:  # noqa: PLR2004
        return r"[^\W\d]+" if not any(c.isdecimal() for c in seg) and wordy else r"\S+"
    if how == 9:  # noqa: PLR2004
        return (".*", ".+", r"\D*", r"[^_]*")[d.take(4)]
    if how == 10 and n >= 2:  # noqa: PLR2004
        return seg[0] + (r"\B", r"\b", "", r"\B")[d.take(4)] + seg[1:]
    if how == 11:  # noqa: PLR2004
        return f"(?:{seg})" + ("?", "+", "{1}", "*")[d.take(4)]
    if how == 12:  # noqa: PLR2004  -- near miss
        return (r"\d+", r"\W+", r"\s*" + seg, seg + seg[-1] + "?", r"[a-z]+", r"[A-Za-z_]+")[d.take(6)]
    return seg


def derive_regex(fid: str, code: int, inline_flags=True) -> str:
    """A regex derived from a field id by the small grammar the check explores: literal pieces, character classes
    (\\w \\d \\s \\S \\W \\D . [..] ranges, negated sets), quantifiers, groups / alternation, word boundaries, anchors
    and look-arounds inside, scoped and global case-insensitivity.  Mostly (not always) it still matches ``fid``;
    whether it does is never assumed -- the oracle is ``re.fullmatch`` in the harness."""
    d = _Digits(code)
    deco = d.take(12)
    src = fid.swapcase() if (deco == 1 and inline_flags) else fid
    out = []
    i = 0
    while i < len(src):
        k = 1 + d.take(min(4, len(src) - i))
        out.append(_segment(src[i:i + k], d))
        i += k
    body = "".join(out)
    if deco == 1 and inline_flags:
        return "(?i)" + body
    if deco == 2:  # noqa: PLR2004
        return r"\b" + body + r"\b"
    if deco == 3:  # noqa: PLR2004
        return body + "|" + ("id", "сумма", r"\w+_id", r"\d\w*")[d.take(4)]
    if deco == 4:  # noqa: PLR2004
        return ("id", "ключ_2", r"\w{1,2}", r".*\d")[d.take(4)] + "|" + body
    if deco == 5:  # noqa: PLR2004
        return "^" + body + "$"
    if deco == 6:  # noqa: PLR2004
        return body + (r"(?<!_id)", r"(?<=\w)", r"(?<!\d)", r"(?<=[^\W\d])")[d.take(4)]
    if deco == 7:  # noqa: PLR2004
        return (r"(?=\w)", r"(?!\d)", r"(?=[^\W\d_])", r"(?!id)")[d.take(4)] + body
    if deco == 8:  # noqa: PLR2004
        return r"\b" + body
    if deco == 9:  # noqa: PLR2004
        return body + r"\b"
    return body


# ===================================================================================== expressions: shape
BINOPS = ("or", "and", "xor")


def attr_ok(name: str) -> bool:
    """Can ``P.<name>`` be used to spell the field id?  (dunder names and real attributes cannot)"""
    return (name.isidentifier() and not (name.startswith("__") and name.endswith("__"))
            and not hasattr(LocStackPattern, name) and name != "_stack")


def kind(e) -> str:
    """What the built Python object is: 'raw' (class / hint / str), 'pat' (LocStackPattern), 'lsc' (checker)."""
    tag = e[0]
    if tag in ("T", "S", "R"):
        return "raw"
    if tag in ("ANY", "lsc"):
        return "lsc"
    if tag in ("P", "add"):
        return "pat"
    if tag == "not":
        return kind(e[1])
    if tag in BINOPS:
        return "pat" if "pat" in (kind(e[1]), kind(e[2])) else "lsc"
    raise ValueError(e)


def elem_width(el) -> int:
    k = el[0]
    if k == "a":
        return 1
    if k == "i":
        return width(el[1])
    if k == "t":
        return max([width(x) for x in el[1]], default=1)
    if k == "g":
        return width(el[2])
    raise ValueError(el)


def width(e) -> int:
    """Number of trailing locations the expression looks at."""
    tag = e[0]
    if tag in ("T", "S", "R", "ANY"):
        return 1
    if tag in ("lsc", "not"):
        return width(e[1])
    if tag in BINOPS:
        return max(width(e[1]), width(e[2]))
    if tag == "P":
        if e[1] is None:
            return elem_width(e[2][0]) + len(e[2]) - 1
        return width(e[1]) + len(e[2])
    if tag == "add":
        return width(e[1]) + len(_add_right_parts(e[2]))
    raise ValueError(e)


def plain_parts(e):
    """Elements of a plain chain (P[..].x..., or `+` of plain chains); None for anything else."""
    if e[0] == "P":
        if e[1] is None:
            return list(e[2])
        base = plain_parts(e[1])
        return None if base is None else base + list(e[2])
    if e[0] == "add":
        left, right = plain_parts(e[1]), plain_parts(e[2])
        if left is not None and right is not None:
            return left + right
    return None


def _add_right_parts(e2):
    parts = plain_parts(e2)
    if parts is not None:
        return parts
    return [["i", ["lsc", e2]]]


def validate(e):  # noqa: C901, PLR0912
    """Shapes outside the zone whose meaning follows from the documentation raise ValueError:
    * operands of | & ^ ~ must be patterns or checkers (a bare class / str has no such operators);
    * every chain element after the first one, and every element of the right operand of ``+``, must look at
      exactly one location (width 1).  `P.c + (P[A].a | P[B].b)`, where a combined multi-location pattern is
      appended, is not given a meaning by the docs (and the code does not distribute it) -> not generated."""
    tag = e[0]
    if tag == "R":
        re.compile(e[1], re_flags(e[2]))   # an invalid pattern is a generator bug
        return
    if tag in ("T", "S", "ANY"):
        return
    if tag == "lsc":
        validate(e[1])
        return
    if tag == "not":
        validate(e[1])
        if kind(e[1]) == "raw":
            raise ValueError("~ on a raw predicate")
        return
    if tag in BINOPS:
        validate(e[1])
        validate(e[2])
        if "raw" in (kind(e[1]), kind(e[2])):
            raise ValueError("binary operator on a raw predicate")
        return
    if tag == "P":
        base, elems = e[1], e[2]
        if not elems:
            raise ValueError("empty chain")
        if base is not None:
            validate(base)
            if kind(base) != "pat":
                raise ValueError("base of an extended chain must be a pattern")
        for i, el in enumerate(elems):
            _validate_elem(el)
            if (i > 0 or base is not None) and elem_width(el) != 1:
                raise ValueError("non-first chain element wider than one location")
        return
    if tag == "add":
        validate(e[1])
        validate(e[2])
        if kind(e[1]) != "pat" or kind(e[2]) != "pat":
            raise ValueError("+ needs two patterns")
        parts = plain_parts(e[2])
        if parts is not None:
            if any(elem_width(el) != 1 for el in parts):
                raise ValueError("right operand of + with a wide element")
        elif width(e[2]) != 1:
            raise ValueError("right operand of + must be a plain chain or one location wide")
        return
    raise ValueError(e)


def _validate_elem(el):
    k = el[0]
    if k == "a":
        if not attr_ok(el[1]):
            raise ValueError(f"{el[1]!r} cannot be spelled as attribute")
        return
    inner = el[1] if k == "t" else [el[1] if k == "i" else el[2]]
    if k == "t" and not inner:
        raise ValueError("empty tuple element")
    for x in inner:
        validate(x)
        if kind(x) == "pat":
            raise ValueError("a pattern cannot be used inside P[...]")


def features(e, out=None) -> set:
    out = set() if out is None else out
    tag = e[0]
    if tag == "T":
        out.add("T:" + type_kind(e[1]))
    elif tag == "S":
        out.add("S:ident" if e[1].isidentifier() else "S:regex")
        if not e[1].isidentifier() and regex_is_sensitive(e[1]):
            out.add("S:regex_class_or_case")
        if not e[1].isascii():
            out.add("S:nonascii")
    elif tag == "R":
        out.add("R:flags=" + (e[2] or "none"))
    elif tag == "ANY":
        out.add("ANY")
    elif tag in ("lsc", "not"):
        out.add(tag)
        features(e[1], out)
    elif tag in BINOPS:
        out.add(tag)
        features(e[1], out)
        features(e[2], out)
    elif tag == "add":
        out.add("add")
        features(e[1], out)
        features(e[2], out)
    elif tag == "P":
        if e[1] is not None:
            out.add("base_ext")
            features(e[1], out)
        for el in e[2]:
            k = el[0]
            if k == "a":
                out.add("attr")
                out.add("S:ident")
            elif k == "i":
                features(el[1], out)
            elif k == "t":
                out.add("tuple_gen" if el[2] else "tuple")
                for x in el[1]:
                    features(x, out)
            elif k == "g":
                out.add("generic_arg")
                features(el[2], out)
    return out


def max_chain(e) -> int:
    """Longest chain (number of consecutive locations constrained) anywhere in the expression."""
    tag = e[0]
    if tag in ("T", "S", "R", "ANY"):
        return 1
    if tag in ("lsc", "not"):
        return max_chain(e[1])
    if tag in BINOPS:
        return max(max_chain(e[1]), max_chain(e[2]))
    if tag in ("P", "add"):
        inner = [max_chain(e[1])] if e[1] is not None else []
        if tag == "add":
            inner.append(max_chain(e[2]))
        else:
            for el in e[2]:
                for x in (el[1] if el[0] == "t" else [el[1]] if el[0] == "i" else [el[2]] if el[0] == "g" else []):
                    inner.append(max_chain(x))
        return max([width(e), *inner])
    raise ValueError(e)


def has_combinator(e) -> bool:
    return bool(features(e) & {"or", "and", "xor", "not", "tuple", "tuple_gen"})


def show(e) -> str:  # noqa: C901, PLR0911
    """Human-readable Python-like spelling."""
    tag = e[0]
    if tag == "T":
        return ts_show(e[1])
    if tag == "S":
        return repr(e[1])
    if tag == "R":
        fl = " | ".join(f"re.{c}" for c in e[2])
        return f"re.compile({e[1]!r}{', ' + fl if fl else ''})"
    if tag == "ANY":
        return "P.ANY"
    if tag == "lsc":
        return f"lsc({show(e[1])})"
    if tag == "not":
        return f"~({show(e[1])})"
    if tag in BINOPS:
        op = {"or": "|", "and": "&", "xor": "^"}[tag]
        return f"({show(e[1])} {op} {show(e[2])})"
    if tag == "add":
        return f"({show(e[1])} + {show(e[2])})"
    if tag == "P":
        s = "P" if e[1] is None else f"({show(e[1])})"
        for el in e[2]:
            k = el[0]
            if k == "a":
                s += f".{el[1]}"
            elif k == "i":
                s += f"[{show(el[1])}]"
            elif k == "t":
                body = ", ".join(show(x) for x in el[1])
                s += f"[(g for g in ({body},))]" if el[2] else f"[{body},]"
            elif k == "g":
                s += f".generic_arg({el[1]}, {show(el[2])})"
        return s
    raise ValueError(e)


def ts_show(ts) -> str:
    if isinstance(ts, str):
        return ts
    if ts[0] in ("OptBar", "Bar"):
        return "(" + " | ".join([*[ts_show(a) for a in ts[1:]], *(["None"] if ts[0] == "OptBar" else [])]) + ")"
    head = {"Opt": "Optional", "Tuple": "Tuple", "Union": "Union"}.get(ts[0], ts[0])
    return f"{head}[{', '.join(ts_show(a) for a in ts[1:])}]"


def show_loc(loc) -> str:
    if loc[0] in ("TH",):
        return f"TH({ts_show(loc[1])})"
    if loc[0] == "GP":
        return f"GP({ts_show(loc[1])}, {loc[2]})"
    return f"{loc[0]}({loc[2]}: {ts_show(loc[1])})"


def show_stack(stack) -> str:
    return " / ".join(show_loc(loc) for loc in stack)


# ===================================================================================== reference evaluator
def k_not(a):
    return None if a is None else (not a)


def k_and(a, b):
    if a is False or b is False:
        return False
    if a is None or b is None:
        return None
    return True


def k_or(a, b):
    if a is True or b is True:
        return True
    if a is None or b is None:
        return None
    return False


def k_xor(a, b):
    if a is None or b is None:
        return None
    return a != b


_KOPS = {"or": k_or, "and": k_and, "xor": k_xor}


def compile_ref(e):  # noqa: C901
    """expression -> function(stack as tuple of tuple-locations) -> True / False / None (Kleene).

    Semantics, from the tutorial:
      * a class / hint / string looks at the last location of the stack (rules 1-4);
      * `| & ^ ~` are pointwise ("P could be combined via |, &, ^, also it can be reversed using ~");
      * a chain of n parts matches a stack of at least n locations whose last n locations satisfy the parts in
        order ("P[Foo].name[Bar].age ... field age located at model Bar, situated at ..., placed at model Foo").
        A part that is itself a combined pattern (the thing that was extended) constrains the path that ends
        at its position -- the only reading under which `(X | Y).n` is "`X.n` or `Y.n`" and `+` is associative.
    """
    tag = e[0]
    if tag in ("T", "S", "R", "ANY"):
        atom = tup(e)
        return lambda s: ref_atom(atom, s[-1])
    if tag == "lsc":
        return compile_ref(e[1])
    if tag == "not":
        f = compile_ref(e[1])
        return lambda s: k_not(f(s))
    if tag in BINOPS:
        f, g, op = compile_ref(e[1]), compile_ref(e[2]), _KOPS[tag]
        return lambda s: op(f(s), g(s))
    if tag == "P":
        parts = ([compile_ref(e[1])] if e[1] is not None else []) + [_compile_elem(el) for el in e[2]]
        return _chain_fn(parts)
    if tag == "add":
        parts = [compile_ref(e[1])] + [_compile_elem(el) for el in _add_right_parts(e[2])]
        return _chain_fn(parts)
    raise ValueError(e)


def _chain_fn(parts):
    n = len(parts)
    if n == 1:
        return parts[0]

    def f(s):
        depth = len(s)
        if depth < n:
            return False
        res = True
        for i, part in enumerate(parts):
            end = depth - (n - 1 - i)  # the part number i sits at absolute position end-1
            res = k_and(res, part(s[:end]))
            if res is False:
                return False
        return res
    return f


def _compile_elem(el):
    k = el[0]
    if k == "a":
        atom = ("S", el[1])
        return lambda s: ref_atom(atom, s[-1])
    if k == "i":
        return compile_ref(el[1])
    if k == "t":
        fs = [compile_ref(x) for x in el[1]]

        def f(s):
            res = False
            for g in fs:
                res = k_or(res, g(s))
            return res
        return f
    if k == "g":
        pos, g = el[1], compile_ref(el[2])
        return lambda s: k_and(s[-1][0] == "GP" and s[-1][2] == pos, g(s))
    raise ValueError(el)


# ===================================================================================== pure -> real predicate
def build(e, world):  # noqa: C901, PLR0911
    tag = e[0]
    if tag == "T":
        return world.real(e[1])
    if tag == "S":
        return e[1]
    if tag == "R":
        return re.compile(e[1], re_flags(e[2]))
    if tag == "ANY":
        return P.ANY
    if tag == "lsc":
        return create_loc_stack_checker(build(e[1], world))
    if tag == "not":
        return ~build(e[1], world)
    if tag == "or":
        return build(e[1], world) | build(e[2], world)
    if tag == "and":
        return build(e[1], world) & build(e[2], world)
    if tag == "xor":
        return build(e[1], world) ^ build(e[2], world)
    if tag == "add":
        return build(e[1], world) + build(e[2], world)
    if tag == "P":
        return extend(P if e[1] is None else build(e[1], world), e[2], world)
    raise ValueError(e)


def extend(pat, elems, world):
    """Apply chain elements to an existing pattern object (P itself or any LocStackPattern)."""
    for el in elems:
        k = el[0]
        if k == "a":
            pat = getattr(pat, el[1])
        elif k == "i":
            pat = pat[build(el[1], world)]
        elif k == "t":
            items = [build(x, world) for x in el[1]]
            pat = pat[(x for x in items)] if el[2] else pat[tuple(items)]
        elif k == "g":
            pat = pat.generic_arg(el[1], build(el[2], world))
        else:
            raise ValueError(el)
    return pat


def plain1(e) -> bool:
    """A plain chain all of whose elements look at one location (allowed as right operand of +)."""
    parts = plain_parts(e)
    return parts is not None and all(elem_width(el) == 1 for el in parts)


def make_checker(e, world):
    return create_loc_stack_checker(build(e, world))


# ===================================================================================== localisation of a mismatch
def _elem_expr(el):
    """A chain element as a stand-alone expression."""
    if el[0] == "a":
        return ["S", el[1]]
    if el[0] == "i":
        return el[1]
    return ["P", None, [el]]


def children(e, stack):  # noqa: C901
    """(sub-expression, stack it is evaluated on) pairs according to the reference semantics."""
    tag = e[0]
    if tag in ("T", "S", "R", "ANY"):
        return []
    if tag in ("lsc", "not"):
        return [(e[1], stack)]
    if tag in BINOPS:
        return [(e[1], stack), (e[2], stack)]
    if tag == "P" and e[1] is None and len(e[2]) == 1:
        el = e[2][0]
        if el[0] == "a":
            return [(["S", el[1]], stack)]
        if el[0] == "i":
            return [(el[1], stack)]
        if el[0] == "t":
            return [(x, stack) for x in el[1]]
        return [(el[2], stack)]
    if tag == "P":
        parts = ([e[1]] if e[1] is not None else []) + [_elem_expr(el) for el in e[2]]
    elif tag == "add":
        parts = [e[1]] + [_elem_expr(el) for el in _add_right_parts(e[2])]
    else:
        raise ValueError(e)
    n, depth = len(parts), len(stack)
    if depth < n:
        return []
    return [(part, stack[:depth - (n - 1 - i)]) for i, part in enumerate(parts)]


def node_sig(e, stack) -> str:
    tag = e[0]
    if tag == "T":
        return "T:" + type_kind(e[1])
    if tag == "S":
        return "S:ident" if e[1].isidentifier() else "S:regex"
    if tag == "R":
        return "R:compiled"
    if tag == "P":
        if e[1] is None and len(e[2]) == 1:
            el = e[2][0]
            return {"a": "elem:attr", "i": "elem:item", "g": "elem:generic_arg"}.get(
                el[0], "elem:tuple_gen" if el[0] == "t" and el[2] else "elem:tuple")
        n = len(e[2]) + (e[1] is not None)
        rel = "depth<len" if len(stack) < n else "depth=len" if len(stack) == n else "depth>len"
        return ("chain_ext:" if e[1] is not None else "chain:") + rel
    return tag


def actual(e, stack, world):
    """Result of the real checker; exceptions propagate."""
    return bool(make_checker(e, world).check_loc_stack(MED, world.real_stack(stack)))


def localize(e, stack, world):
    """Smallest sub-expression (with the stack it sees) on which the real checker and the reference still
    disagree while all of its own parts agree: approximates the root cause and is the replay case."""
    for ce, cs in children(e, stack):
        if not cs:
            continue
        r = compile_ref(ce)(tup(cs))
        if r is None:
            continue
        try:
            a = actual(ce, cs, world)
        except Exception:  # noqa: BLE001  -- a crashing part is the culprit
            return localize(ce, cs, world)
        if a != r:
            return localize(ce, cs, world)
    return e, stack


# ===================================================================================== end-to-end worlds
import itertools  # noqa: E402

from adaptix._internal.morphing.provider_template import DumperProvider, LoaderProvider  # noqa: E402

_uid = itertools.count()


def model_fields(models, role):
    """Fields of a role as the dataclass sees them (SubA inherits A's fields first)."""
    return (models["A"] + models["SubA"]) if role == "SubA" else models[role]


def _ts_src(ts, names):
    if isinstance(ts, str):
        return names.get(ts, {"NoneType": "type(None)"}.get(ts, ts))
    if ts[0] in ("OptBar", "Bar"):
        return "(" + " | ".join([*[_ts_src(a, names) for a in ts[1:]], *(["None"] if ts[0] == "OptBar" else [])]) + ")"
    head = {"Opt": "Optional", "Tuple": "Tuple", "Union": "Union", "List": "List", "Dict": "Dict"}.get(ts[0], ts[0])
    return f"{head}[{', '.join(_ts_src(a, names) for a in ts[1:])}]"


def build_model_world(models) -> World:
    """Fresh, uniquely named classes for one end-to-end case, created by exec of generated source.
    Roles: B, A, SubA(A), Abs (ABC) + Impl(Abs), Proto (runtime protocol) + ProtoImpl (structural), Root."""
    n = next(_uid)
    names = {r: f"C10{r}_{n}" for r in ("A", "B", "SubA", "Abs", "Impl", "Proto", "ProtoImpl", "Root")}

    def body(role, extra=""):
        own = models[role]
        lines = [f"    {fid}: {_ts_src(ts, names)}" for fid, ts in own]
        return "\n".join(lines + ([extra] if extra else [])) or "    pass"

    src = f"""
class {names['Abs']}(ABC):
    @abstractmethod
    def m(self): ...

@runtime_checkable
class {names['Proto']}(Protocol):
    def pm(self): ...

@dataclass
class {names['B']}:
{body('B')}

@dataclass
class {names['A']}:
{body('A')}

@dataclass
class {names['SubA']}({names['A']}):
{body('SubA')}

@dataclass
class {names['Impl']}({names['Abs']}):
{body('Impl', '    def m(self): return 1')}

@dataclass
class {names['ProtoImpl']}:
{body('ProtoImpl', '    def pm(self): return 1')}

@dataclass
class {names['Root']}:
{body('Root')}
"""
    ns = {}
    exec(compile("from abc import ABC, abstractmethod\nfrom dataclasses import dataclass\n"  # noqa: S102
                 "from typing import Dict, List, Optional, Protocol, Tuple, Union, runtime_checkable\n" + src,
                 f"<c10 world {n}>", "exec", dont_inherit=True), ns)
    world = World({role: ns[name] for role, name in names.items()})
    world.source = src
    return world


def make_data(ts, models, counter, keep):
    """Input data for a type spec; every datum is a distinct object (kept alive in ``keep``) so that id() tells
    positions apart."""
    if ts == "int":
        v = int(str(10 ** 6 + next(counter)))
    elif ts == "str":
        v = "".join(["s", str(next(counter))])
    elif isinstance(ts, str):
        v = {fid: make_data(fts, models, counter, keep) for fid, fts in model_fields(models, ts)}
    elif ts[0] in ("List", "list"):
        k = 2 if next(counter) < 60 else 1  # noqa: PLR2004
        v = [make_data(ts[1], models, counter, keep) for _ in range(k)]
    elif ts[0] in ("Opt", "OptBar"):
        v = None if next(counter) % 4 == 3 else make_data(ts[1], models, counter, keep)
    elif ts[0] in ("Dict", "dict"):
        v = {"".join(["k", str(next(counter))]): make_data(ts[2], models, counter, keep)}
    elif ts[0] == "Tuple":
        v = [make_data(a, models, counter, keep) for a in ts[1:]]
    else:
        raise ValueError(ts)
    keep.append(v)
    return v


def predict_stacks(models, mode):
    """The generator's *guess* of the location stacks adaptix builds for Root (used only to aim predicates;
    the oracle works on the stacks captured from the real retort)."""
    fk = "IF" if mode == "load" else "OF"
    out = []

    def walk(ts, stack):
        out.append(stack)
        if isinstance(ts, str):
            if ts in MODEL_ROLES:
                for fid, fts in model_fields(models, ts):
                    walk(fts, [*stack, [fk, fts, fid]])
            return
        head = ts[0]
        if head in ("List", "list", "Opt", "OptBar"):
            walk(ts[1], [*stack, ["GP", ts[1], 0]])
        elif head in ("Dict", "dict"):
            walk(ts[1], [*stack, ["GP", ts[1], 0]])
            walk(ts[2], [*stack, ["GP", ts[2], 1]])
        elif head == "Tuple":
            for i, a in enumerate(ts[1:]):
                walk(a, [*stack, ["GP", a, i]])

    walk("Root", [["TH", "Root"]])
    return out


class Spy(LoaderProvider, DumperProvider):
    """First provider of a retort: records (call index, parent call index, real loc stack, id(datum)) for every
    loader / dumper call and delegates to the next provider."""

    def __init__(self):
        self.calls = []
        self._open = []

    def _wrap(self, mediator, request):
        nxt = mediator.provide_from_next()
        stack = tuple(request.loc_stack)
        calls, opened = self.calls, self._open

        def spy(data):
            idx = len(calls)
            calls.append((idx, opened[-1] if opened else None, stack, id(data)))
            opened.append(idx)
            try:
                return nxt(data)
            finally:
                opened.pop()
        return spy

    def provide_loader(self, mediator, request):
        return self._wrap(mediator, request)

    def provide_dumper(self, mediator, request):
        return self._wrap(mediator, request)
