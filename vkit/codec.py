"""Tagged-JSON codec for Python data.

A *value spec* (vspec) is JSON-able data from which a fresh Python object is built by ``build``:

    None / bool / int / float / str         -> themselves
    [..]                                    -> list
    {"$": tag, ...}                         -> everything else (see ``build``)

``encode`` is the inverse for the plain-data subset (used to turn a reference dump into a mutable spec).
``Env`` maps class keys used by specs ("E0", "M1") to the classes built for the current case.
"""
from __future__ import annotations

import collections
import collections.abc
import datetime as dt
import io
import ipaddress
import pathlib
import re
import uuid
from decimal import Decimal
from fractions import Fraction


class Env:
    def __init__(self):
        self.classes: dict[str, type] = {}
        self.kinds: dict[str, str] = {}     # model key -> kind
        self.specs: dict[str, dict] = {}    # model/enum key -> spec

    def merged(self, other: "Env") -> "Env":
        self.classes.update(other.classes)
        self.kinds.update(other.kinds)
        self.specs.update(other.specs)
        return self


# --------------------------------------------------------------------------- exotic input classes (data soup)
class CustomMapping(collections.abc.Mapping):
    def __init__(self, items):
        self._d = dict(items)

    def __getitem__(self, k):
        return self._d[k]

    def __iter__(self):
        return iter(self._d)

    def __len__(self):
        return len(self._d)

    def __repr__(self):
        return f"CustomMapping({self._d!r})"


class ItemsOnly:
    """Has ``.items()`` but is not a Mapping."""

    def __init__(self, items):
        self._items = list(items)

    def items(self):
        return list(self._items)

    def __repr__(self):
        return f"ItemsOnly({self._items!r})"


class GetOnly:
    """Has ``get`` like a mapping -- and nothing else of one."""

    def get(self, key, default=None):
        return default

    def __repr__(self):
        return "GetOnly()"


class GetItemOnly:
    """Subscriptable, every key missing; neither ``get`` nor ``__contains__`` nor ``keys``."""

    def __getitem__(self, key):
        raise KeyError(key)

    def __repr__(self):
        return "GetItemOnly()"


class StrSub(str):
    __slots__ = ()


class IntSub(int):
    pass


class ListSub(list):
    pass


class DictSub(dict):
    pass


class NoLenIterable:
    """Iterable without ``__len__`` and re-iterable (unlike a generator)."""

    def __init__(self, items):
        self._items = list(items)

    def __iter__(self):
        return iter(self._items)

    def __repr__(self):
        return f"NoLenIterable({self._items!r})"


class Opaque:
    def __repr__(self):
        return "Opaque()"


IP_CLASSES = {c.__name__: c for c in (
    ipaddress.IPv4Address, ipaddress.IPv6Address, ipaddress.IPv4Network, ipaddress.IPv6Network,
    ipaddress.IPv4Interface, ipaddress.IPv6Interface)}
PATH_CLASSES = {c.__name__: c for c in (
    pathlib.PurePath, pathlib.Path, pathlib.PurePosixPath, pathlib.PosixPath, pathlib.PureWindowsPath)}


def _gen(items):
    yield from items


def _hashables(items, env):
    """Totality: unhashable members (possible after mutations) are dropped deterministically."""
    out = []
    for x in items:
        o = build(x, env)
        try:
            hash(o)
        except TypeError:
            continue
        out.append(o)
    return out


def _pairs(items, env):
    out = []
    for k, x in items:
        ko = build(k, env)
        try:
            hash(ko)
        except TypeError:
            ko = repr(ko)
        out.append((ko, build(x, env)))
    return out


def _none_factory():
    return None


def build(v, env: Env | None = None):  # noqa: C901, PLR0911, PLR0912
    if v is None or isinstance(v, (bool, int, float, str)):
        return v
    if isinstance(v, (list, tuple)):
        return [build(x, env) for x in v]
    tag = v["$"]
    if tag == "t":
        return tuple(build(x, env) for x in v["v"])
    if tag == "d":
        return dict(_pairs(v["v"], env))
    if tag == "set":
        return set(_hashables(v["v"], env))
    if tag == "fset":
        return frozenset(_hashables(v["v"], env))
    if tag == "deque":
        return collections.deque(build(x, env) for x in v["v"])
    if tag == "dd":
        return collections.defaultdict(None, _pairs(v["v"], env))
    if tag == "ddnone":   # a defaultdict WITH a factory: looking a missing key up creates it
        return collections.defaultdict(_none_factory, _pairs(v["v"], env))
    if tag == "bytes":
        return bytes.fromhex(v["h"])
    if tag == "bytearray":
        return bytearray.fromhex(v["h"])
    if tag == "bytesio":
        return io.BytesIO(bytes.fromhex(v["h"]))
    if tag == "pow10":   # an int above the int-to-str digit limit (4300): has no decimal text, so it is kept symbolic
        return (-1 if v.get("neg") else 1) * 10 ** int(v["e"])
    if tag == "dec":
        return Decimal(v["s"])
    if tag == "frac":
        return Fraction(v["s"])
    if tag == "cx":
        return complex(float(v["r"]), float(v["i"]))
    if tag == "float":
        return float(v["s"])
    if tag == "date":
        return dt.date.fromisoformat(v["s"])
    if tag == "time":
        return dt.time.fromisoformat(v["s"])
    if tag == "datetime":
        return dt.datetime.fromisoformat(v["s"])
    if tag == "td":
        return dt.timedelta(days=v["d"], seconds=v["s"], microseconds=v["us"])
    if tag == "uuid":
        return uuid.UUID(v["s"])
    if tag == "ip":
        return IP_CLASSES[v["c"]](v["s"])
    if tag == "path":
        return PATH_CLASSES[v["c"]](v["s"])
    if tag == "re":
        return re.compile(v["s"])
    if tag == "enum":
        return env.classes[v["c"]][v["n"]]
    if tag == "flag":
        return env.classes[v["c"]](v["v"])
    if tag == "obj":
        cls = env.classes[v["c"]]
        fields = {k: build(x, env) for k, x in v["f"].items()}
        return cls(**fields)
    # ---- soup-only shapes
    if tag == "gen":
        return _gen([build(x, env) for x in v["v"]])
    if tag == "nolen":
        return NoLenIterable([build(x, env) for x in v["v"]])
    if tag == "custmap":
        return CustomMapping(_pairs(v["v"], env))
    if tag == "itemsonly":
        return ItemsOnly([(build(k, env), build(x, env)) for k, x in v["v"]])
    if tag == "strsub":
        return StrSub(v["s"])
    if tag == "intsub":
        return IntSub(v["v"])
    if tag == "listsub":
        return ListSub([build(x, env) for x in v["v"]])
    if tag == "dictsub":
        return DictSub(_pairs(v["v"], env))
    if tag == "opaque":
        return Opaque()
    if tag == "getonly":
        return GetOnly()
    if tag == "getitemonly":
        return GetItemOnly()
    if tag == "rematch":      # subscriptable by group name, IndexError for an unknown one, no ``in``
        import re as _re  # noqa: PLC0415
        return _re.match("(?P<a>x)(?P<m>y)?", "x")
    if tag == "sqlrow":       # subscriptable by column name, IndexError for an unknown one, iterates over VALUES
        import sqlite3  # noqa: PLC0415
        con = sqlite3.connect(":memory:")
        con.row_factory = sqlite3.Row
        return con.execute("select 1 as a, 2 as m").fetchone()
    if tag == "range":
        return range(v["n"])
    if tag == "type":
        return {"int": int, "str": str, "list": list, "dict": dict, "tuple": tuple, "set": set,
                "ordereddict": collections.OrderedDict, "mapping_abc": collections.abc.Mapping,
                "sequence_abc": collections.abc.Sequence}[v["n"]]
    raise ValueError(f"unknown tag {tag!r}")


def encode(o):  # noqa: C901, PLR0911
    """Python plain data (what a dumper may produce) -> vspec."""
    if o is None or isinstance(o, bool):
        return o
    if type(o) is int or type(o) is str:
        return o
    if type(o) is float:
        return o
    if type(o) is list:
        return [encode(x) for x in o]
    if type(o) is tuple:
        return {"$": "t", "v": [encode(x) for x in o]}
    if type(o) is dict:
        return {"$": "d", "v": [[encode(k), encode(x)] for k, x in o.items()]}
    if type(o) is bytes:
        return {"$": "bytes", "h": o.hex()}
    if type(o) is Decimal:
        return {"$": "dec", "s": str(o)}
    if type(o) is Fraction:
        return {"$": "frac", "s": str(o)}
    if type(o) is complex:
        return {"$": "cx", "r": repr(o.real), "i": repr(o.imag)}
    if type(o) is set:
        return {"$": "set", "v": [encode(x) for x in o]}
    if type(o) is frozenset:
        return {"$": "fset", "v": [encode(x) for x in o]}
    raise TypeError(f"cannot encode {type(o)}: {o!r}")


def is_container_spec(v) -> bool:
    return isinstance(v, list) or (isinstance(v, dict) and v.get("$") in (
        "t", "d", "set", "fset", "deque", "dd", "gen", "nolen", "custmap", "itemsonly", "listsub", "dictsub"))
