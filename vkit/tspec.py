"""Type specs: a pure-data grammar of type hints, with
   * ``build_type(spec)``            -> (hint object, Env of the classes created)
   * ``st_type(...)``                 -> Hypothesis strategy of specs (constructive, no rejection)
   * ``st_value(spec)``               -> strategy of canonical value specs (see codec) of that type
   * ``ref_dump`` / ``ref_load``      -> independent reference of docs/loading-and-dumping/specific-types-behavior.rst
   * ``deep_eq``                      -> type-aware comparison
   * ``shapes(spec, strict)``         -> which broad classes of data a loader of that type may accept
                                         (used to build unions whose cases provably do not overlap)

Spec grammar (lists, first item = tag):
  scalars   ["int"] ["float"] ["str"] ["bool"] ["none"] ["decimal"] ["fraction"] ["complex"] ["bytes"] ["bytearray"]
            ["bytestring"] ["bytesio"] ["iobytes"] ["pattern"] ["date"] ["time"] ["datetime"] ["timedelta"] ["uuid"]
            ["ip", cls] ["path", cls] ["pathlike"] ["literalstring"] ["any"] ["object"]
  enums     ["enum", {"name", "base", "members": [[name, value]...]}]
  literal   ["literal", [vspec...]]
  wrappers  ["newtype", T] ["annotated", T] ["alias", T]
  iterables ["list", T, sp] ["set", T, sp] ["frozenset", T, sp] ["deque", T] ["vtuple", T, sp] ["abc", name, T]
            (sp: "typing" | "builtin")
  tuple     ["tuple", [T...], sp]
  mappings  ["dict", K, V, sp] ["defaultdict", K, V] ["mapping", K, V] ["mutablemapping", K, V]
  unions    ["optional", T, sp] ["union", [T...], sp]   (sp: "typing" | "bar" | "optional")
  models    ["model", {"name", "kind", "fields": [{"n", "t", "d"}]}]   d: null | ["v", vspec] | ["f", "list"|"dict"|"set"]
            ["ref", name]  (reference to an enclosing model: recursive models)
"""
from __future__ import annotations

import base64
import collections
import collections.abc
import dataclasses
import datetime as dt
import enum
import io
import ipaddress
import itertools
import json
import math
import os
import pathlib
import re
import sys
import types
import typing
import uuid
from decimal import Decimal, InvalidOperation
from fractions import Fraction
from typing import Any

from hypothesis import strategies as st

from . import codec
from .codec import Env

# =========================================================================================== scalar table
SCALAR_HINTS = {
    "int": int, "float": float, "str": str, "bool": bool, "none": None, "decimal": Decimal, "fraction": Fraction,
    "complex": complex, "bytes": bytes, "bytearray": bytearray, "bytestring": collections.abc.ByteString,
    "bytesio": io.BytesIO, "iobytes": typing.IO[bytes], "pattern": re.Pattern, "date": dt.date, "time": dt.time,
    "datetime": dt.datetime, "timedelta": dt.timedelta, "uuid": uuid.UUID, "pathlike": os.PathLike[str],
    "literalstring": typing.LiteralString, "any": Any, "object": object,
}
IP_NAMES = list(codec.IP_CLASSES)
PATH_NAMES = list(codec.PATH_CLASSES)
ABC_IMPL = {  # documented: "a minimal suitable type will be used"
    "Iterable": tuple, "Reversible": tuple, "Collection": tuple, "Sequence": tuple, "MutableSequence": list,
    "Set": frozenset, "MutableSet": set,
}
ABC_HINT = {
    "Iterable": (typing.Iterable, collections.abc.Iterable), "Reversible": (typing.Reversible, collections.abc.Reversible),
    "Collection": (typing.Collection, collections.abc.Collection), "Sequence": (typing.Sequence, collections.abc.Sequence),
    "MutableSequence": (typing.MutableSequence, collections.abc.MutableSequence),
    "Set": (typing.AbstractSet, collections.abc.Set), "MutableSet": (typing.MutableSet, collections.abc.MutableSet),
}

_uid = itertools.count()
_TYPE_CACHE: dict[str, tuple[Any, Env]] = {}
_CACHE_LIMIT = 3000


def key_of(spec) -> str:
    return json.dumps(spec, sort_keys=True)


# =========================================================================================== building hints
def build_type(spec, env: Env | None = None, *, cache: bool = True):
    """spec -> (hint, env).  Classes are created once per distinct spec (per process) unless cache=False."""
    if env is None and cache:
        k = key_of(spec)
        hit = _TYPE_CACHE.get(k)
        if hit is not None:
            return hit
        e = Env()
        hint = _build(spec, e, {})
        if len(_TYPE_CACHE) >= _CACHE_LIMIT:
            _TYPE_CACHE.clear()
        _TYPE_CACHE[k] = (hint, e)
        return hint, e
    e = env if env is not None else Env()
    return _build(spec, e, {}), e


_BARE = {
    "list": (typing.List, list), "set": (typing.Set, set), "frozenset": (typing.FrozenSet, frozenset),
    "vtuple": (typing.Tuple, tuple), "deque": (typing.Deque, collections.deque), "dict": (typing.Dict, dict),
    "defaultdict": (typing.DefaultDict, collections.defaultdict), "mapping": (typing.Mapping, collections.abc.Mapping),
    "mutablemapping": (typing.MutableMapping, collections.abc.MutableMapping),
}


def _bare_hint(spec):
    """Bare spelling of a generic (``list`` for ``list[Any]``): spec[-1] in ("bare_typing", "bare_builtin")."""
    last = spec[-1] if isinstance(spec[-1], str) else None
    if last not in ("bare_typing", "bare_builtin"):
        return None
    idx = 0 if last == "bare_typing" else 1
    if spec[0] == "abc":
        return ABC_HINT[spec[1]][idx]
    return _BARE[spec[0]][idx]


def _sp(spec, idx, default="typing"):
    return spec[idx] if len(spec) > idx and spec[idx] is not None else default


def _build(spec, env: Env, open_models: dict):  # noqa: C901, PLR0911, PLR0912, PLR0915
    tag = spec[0]
    if tag in SCALAR_HINTS:
        return SCALAR_HINTS[tag]
    if tag == "ip":
        return codec.IP_CLASSES[spec[1]]
    if tag == "path":
        return codec.PATH_CLASSES[spec[1]]
    if tag == "enum":
        return _build_enum(spec[1], env)
    if tag == "literal":
        for v in spec[1]:
            if isinstance(v, dict) and v.get("$") == "enum" and "spec" in v:
                _build_enum(v["spec"], env)
        vals = tuple(codec.build(v, env) for v in spec[1])
        return typing.Literal[vals]  # type: ignore[valid-type]
    if tag == "newtype":
        return typing.NewType(f"NT{next(_uid)}", _build(spec[1], env, open_models))
    if tag == "annotated":
        return typing.Annotated[_build(spec[1], env, open_models), "meta"]
    if tag == "alias":
        return typing.TypeAliasType(f"Alias{next(_uid)}", _build(spec[1], env, open_models))
    bare = _bare_hint(spec)
    if bare is not None:
        return bare
    if tag in ("list", "set", "frozenset", "vtuple"):
        inner = _build(spec[1], env, open_models)
        sp = _sp(spec, 2)
        if tag == "vtuple":
            return typing.Tuple[inner, ...] if sp == "typing" else tuple[inner, ...]
        origin_t = {"list": typing.List, "set": typing.Set, "frozenset": typing.FrozenSet}[tag]
        origin_b = {"list": list, "set": set, "frozenset": frozenset}[tag]
        return origin_t[inner] if sp == "typing" else origin_b[inner]
    if tag == "deque":
        return collections.deque[_build(spec[1], env, open_models)]
    if tag == "abc":
        t, b = ABC_HINT[spec[1]]
        inner = _build(spec[2], env, open_models)
        return t[inner] if _sp(spec, 3) == "typing" else b[inner]
    if tag == "tuple":
        inner = tuple(_build(t, env, open_models) for t in spec[1])
        if not inner:
            return typing.Tuple[()] if _sp(spec, 2) == "typing" else tuple[()]
        return typing.Tuple[inner] if _sp(spec, 2) == "typing" else tuple[inner]
    if tag == "dict":
        k, v = _build(spec[1], env, open_models), _build(spec[2], env, open_models)
        return typing.Dict[k, v] if _sp(spec, 3) == "typing" else dict[k, v]
    if tag == "defaultdict":
        return collections.defaultdict[_build(spec[1], env, open_models), _build(spec[2], env, open_models)]
    if tag == "mapping":
        return typing.Mapping[_build(spec[1], env, open_models), _build(spec[2], env, open_models)]
    if tag == "mutablemapping":
        return typing.MutableMapping[_build(spec[1], env, open_models), _build(spec[2], env, open_models)]
    if tag == "optional":
        inner = _build(spec[1], env, open_models)
        sp = _sp(spec, 2, "optional")
        if sp == "bar" and not isinstance(inner, (str, typing.ForwardRef)):
            try:
                return inner | None
            except TypeError:
                return typing.Optional[inner]
        if sp == "typing":
            return typing.Union[inner, None]
        return typing.Optional[inner]
    if tag == "union":
        inner = [_build(t, env, open_models) for t in spec[1]]
        if _sp(spec, 2) == "bar":
            try:
                res = inner[0]
                for x in inner[1:]:
                    res = res | x
                return res
            except TypeError:
                pass
        return typing.Union[tuple(inner)]  # type: ignore[return-value]
    if tag == "model":
        return _build_model(spec[1], env, open_models)
    if tag == "ref":
        if len(spec) > 2 and spec[2] == "self" and list(open_models)[-1] == spec[1]:
            return typing.Self   # the directly enclosing model, spelled typing.Self
        return typing.ForwardRef(open_models[spec[1]])
    raise ValueError(f"unknown type tag {tag!r}")


_ENUM_BASES = {"Enum": (enum.Enum,), "IntEnum": (enum.IntEnum,), "StrEnum": (enum.StrEnum,),
               "str_Enum": (str, enum.Enum), "Flag": (enum.Flag,), "IntFlag": (enum.IntFlag,)}


def _build_enum(es, env: Env):
    name = es["name"]
    if name in env.classes:
        return env.classes[name]
    bases = _ENUM_BASES[es["base"]]
    cname = f"{name}_{next(_uid)}"
    ns = enum.EnumMeta.__prepare__(cname, bases)
    for n, v in es["members"]:
        ns[n] = codec.build(v, env)
    cls = enum.EnumMeta(cname, bases, ns)
    env.classes[name] = cls
    env.specs[name] = es
    return cls


_dyn_modules: collections.deque = collections.deque()
_DYN_MODULES_KEPT = 512


def _build_model(ms, env: Env, open_models: dict):
    name = ms["name"]
    if name in env.classes:
        return env.classes[name]
    cname = f"{name}_{next(_uid)}"
    mod = getattr(env, "module", None)
    if mod is None:  # one module per built type: forward references between its models resolve there
        modname = f"vkit_dyn_{cname}"
        mod = types.ModuleType(modname)
        sys.modules[modname] = mod
        env.module = mod
        # a module is needed while its models are being introspected (forward references), not for the whole run: keep the
        # latest ones only, or a thorough run holds hundreds of thousands of modules and their classes
        _dyn_modules.append(modname)
        if len(_dyn_modules) > _DYN_MODULES_KEPT:
            sys.modules.pop(_dyn_modules.popleft(), None)
        mod.__dict__.update({"dataclass": dataclasses.dataclass, "field": dataclasses.field, "typing": typing,
                             "NamedTuple": typing.NamedTuple, "TypedDict": typing.TypedDict,
                             "NotRequired": typing.NotRequired, "Required": typing.Required})
    ns = mod.__dict__
    pfx = f"_{cname}"
    inner_open = dict(open_models)
    inner_open[name] = cname
    kind = ms["kind"]
    lines = []
    fields = ms["fields"]
    for i, f in enumerate(fields):
        ns[f"{pfx}_T{i}"] = _build(f["t"], env, inner_open)
        d = f.get("d")
        if d is not None and d[0] == "v":
            ns[f"{pfx}_D{i}"] = codec.build(d[1], env)
        elif d is not None and d[0] == "f":
            ns[f"{pfx}_F{i}"] = {"list": list, "dict": dict, "set": set, "str": str, "bytes": bytes, "tuple": tuple}[d[1]]
    if kind == "dataclass":
        opts = ms.get("opts", "")
        lines.append(f"@dataclass({opts})")
        lines.append(f"class {cname}:")
        for i, f in enumerate(fields):
            d = f.get("d")
            if d is None:
                lines.append(f"    {f['n']}: {pfx}_T{i}")
            elif d[0] == "v":
                lines.append(f"    {f['n']}: {pfx}_T{i} = {pfx}_D{i}")
            else:
                lines.append(f"    {f['n']}: {pfx}_T{i} = field(default_factory={pfx}_F{i})")
    elif kind == "namedtuple":
        lines.append(f"class {cname}(NamedTuple):")
        for i, f in enumerate(fields):
            d = f.get("d")
            if d is None:
                lines.append(f"    {f['n']}: {pfx}_T{i}")
            else:
                lines.append(f"    {f['n']}: {pfx}_T{i} = {pfx}_D{i}")
    elif kind == "typeddict":
        if ms.get("opts") == "total=False":   # the other spelling of the same model: optional by default, Required marked
            lines.append(f"class {cname}(TypedDict, total=False):")
            for i, f in enumerate(fields):
                if f.get("d") is None:
                    lines.append(f"    {f['n']}: Required[{pfx}_T{i}]")
                else:
                    lines.append(f"    {f['n']}: {pfx}_T{i}")
        else:
            lines.append(f"class {cname}(TypedDict):")
            for i, f in enumerate(fields):
                if f.get("d") is None:
                    lines.append(f"    {f['n']}: {pfx}_T{i}")
                else:
                    lines.append(f"    {f['n']}: NotRequired[{pfx}_T{i}]")
    elif kind == "attrs":
        import attrs  # noqa: PLC0415
        ns["attrs"] = attrs
        lines.append(f"@attrs.define({ms.get('opts', '')})")
        lines.append(f"class {cname}:")
        for i, f in enumerate(fields):
            d = f.get("d")
            if d is None:
                lines.append(f"    {f['n']}: {pfx}_T{i}")
            elif d[0] == "v":
                lines.append(f"    {f['n']}: {pfx}_T{i} = {pfx}_D{i}")
            else:
                lines.append(f"    {f['n']}: {pfx}_T{i} = attrs.Factory({pfx}_F{i})")
    else:
        raise ValueError(kind)
    if not fields:
        lines.append("    pass")
    src = "\n".join(lines) + "\n"
    exec(compile(src, f"<vkit model {cname}>", "exec"), ns)  # noqa: S102
    cls = ns[cname]
    env.classes[name] = cls
    env.kinds[name] = kind
    env.specs[name] = ms
    return cls


# =========================================================================================== walking helpers
def children(spec):
    tag = spec[0]
    if tag in ("newtype", "annotated", "alias", "list", "set", "frozenset", "vtuple", "deque", "optional"):
        return [spec[1]]
    if tag == "abc":
        return [spec[2]]
    if tag in ("tuple", "union"):
        return list(spec[1])
    if tag in ("dict", "defaultdict", "mapping", "mutablemapping"):
        return [spec[1], spec[2]]
    if tag == "model":
        return [f["t"] for f in spec[1]["fields"]]
    return []


def walk(spec):
    yield spec
    for c in children(spec):
        yield from walk(c)


def listify_sets(spec):
    """The same type with every set-like node replaced by a list: the reference dump of its values is the documented
    input shape for the sets too, also where the set's elements load to unhashable values (Set[Any], Set[List[int]])."""
    tag = spec[0]
    if tag in ("set", "frozenset") or (tag == "abc" and spec[1] in ("Set", "MutableSet")):
        return ["list", listify_sets(spec[2] if tag == "abc" else spec[1]), "typing"]
    if tag in ("newtype", "annotated", "alias", "list", "vtuple", "deque", "optional"):
        return [tag, listify_sets(spec[1]), *spec[2:]]
    if tag == "abc":
        return [tag, spec[1], listify_sets(spec[2]), *spec[3:]]
    if tag in ("tuple", "union"):
        return [tag, [listify_sets(c) for c in spec[1]], *spec[2:]]
    if tag in ("dict", "defaultdict", "mapping", "mutablemapping"):
        return [tag, spec[1], listify_sets(spec[2]), *spec[3:]]
    if tag == "model":
        return [tag, {**spec[1], "fields": [{**f, "t": listify_sets(f["t"])} for f in spec[1]["fields"]]}]
    return spec


def has_set_node(spec) -> bool:
    return any(s[0] in ("set", "frozenset") or (s[0] == "abc" and s[1] in ("Set", "MutableSet")) for s in walk(spec))


def near_valid_possible(spec) -> bool:
    """Can canonical values of the type be generated and reference-dumped (all union cases dispatchable by class)?"""
    for s in walk(spec):
        if s[0] != "union":
            continue
        seen: set = set()
        for c in s[1]:
            sh = shapes(c, True)
            if not union_case_dumpable(c) or seen & sh:
                return False
            seen |= sh
    return True


def depth(spec) -> int:
    ch = children(spec)
    return 1 + (max(map(depth, ch)) if ch else 0)


def contains(spec, *tags) -> bool:
    return any(s[0] in tags for s in walk(spec))


def strip(spec):
    """Remove transparent wrappers."""
    while spec[0] in ("newtype", "annotated", "alias"):
        spec = spec[1]
    return spec


def text(spec) -> str:
    """Short canonical text of a spec (for labels / signatures)."""
    tag = spec[0]
    ch = children(spec)
    if tag == "model":
        return f"{spec[1]['kind']}:{spec[1]['name']}({','.join(text(c) for c in ch)})"
    if tag == "enum":
        return f"enum:{spec[1]['base']}"
    if tag == "literal":
        return "literal"
    if tag in ("ip", "path"):
        return spec[1]
    if tag == "abc":
        return f"{spec[1]}[{text(spec[2])}]"
    if ch:
        return f"{tag}[{','.join(text(c) for c in ch)}]"
    return tag


# =========================================================================================== accepted shapes
ALL_SHAPES = frozenset({"none", "bool", "int", "float", "str", "decimal", "fraction", "complex", "iter", "map", "other"})


def shapes(spec, strict: bool) -> frozenset:  # noqa: C901, PLR0911, PLR0912
    """Over-approximation of the broad data classes the loader of ``spec`` may accept."""
    spec = strip(spec)
    tag = spec[0]
    if tag in ("any", "object"):
        return ALL_SHAPES
    if tag == "none":
        return frozenset({"none"})
    if not strict and tag in ("int", "float", "str", "bool", "decimal", "fraction", "complex", "literalstring"):
        return ALL_SHAPES
    if tag == "int":
        return frozenset({"int"})
    if tag == "float":
        return frozenset({"int", "float"})
    if tag in ("str", "literalstring"):
        return frozenset({"str"})
    if tag == "bool":
        return frozenset({"bool"})
    if tag == "decimal":
        return frozenset({"str", "decimal"})
    if tag == "fraction":
        return frozenset({"str", "fraction"})
    if tag == "complex":
        return frozenset({"str", "complex"})
    if tag in ("bytes", "bytearray", "bytestring", "bytesio", "iobytes", "pattern", "date", "time", "datetime"):
        return frozenset({"str"})
    if tag in ("uuid", "ip", "path", "pathlike"):
        return frozenset({"str", "int", "other", "iter"})  # constructors take more than str (ints, bytes, tuples)
    if tag == "timedelta":
        return frozenset({"int", "float", "decimal"})
    if tag == "enum":
        base = spec[1]["base"]
        if base in ("Flag", "IntFlag"):
            return frozenset({"int"})
        out = set()
        for _, v in spec[1]["members"]:
            out |= _value_shape(v)
        return frozenset(out)
    if tag == "literal":
        out = set()
        for v in spec[1]:
            if isinstance(v, dict) and v.get("$") == "enum":
                out |= {"int", "str", "bool", "float", "none", "other"}
            elif isinstance(v, dict) and v.get("$") == "bytes":
                out |= {"str", "other"}
            else:
                out |= _value_shape(v)
        return frozenset(out)
    if tag in ("list", "set", "frozenset", "vtuple", "deque", "abc", "tuple"):
        return frozenset({"iter"}) if strict else frozenset({"iter", "str", "map"})
    if tag in ("dict", "defaultdict", "mapping", "mutablemapping"):
        return frozenset({"map", "other"})
    if tag == "model":
        return frozenset({"map", "other"})
    if tag == "ref":
        return frozenset({"map", "other"})
    if tag == "optional":
        return shapes(spec[1], strict) | {"none"}
    if tag == "union":
        out = set()
        for c in spec[1]:
            out |= shapes(c, strict)
        return frozenset(out)
    raise ValueError(tag)


def _value_shape(v) -> set:
    if v is None:
        return {"none"}
    if isinstance(v, bool):
        return {"bool", "int", "float"}  # True == 1 == 1.0 (dict/`in` lookups are by equality)
    if isinstance(v, int):
        return {"int", "bool", "float"}
    if isinstance(v, float):
        return {"float", "int", "bool"}
    if isinstance(v, str):
        return {"str"}
    return {"other"}


def lax_safe(spec) -> bool:
    """True when no union inside ``spec`` has cases that may overlap under lax coercion."""
    for s in walk(spec):
        if s[0] == "union":
            seen: set = set()
            for c in s[1]:
                sh = shapes(c, False)
                if seen & sh:
                    return False
                seen |= sh
        elif s[0] == "literal":
            vals = [v for v in s[1] if not isinstance(v, dict)]
            for a, b in itertools.combinations(vals, 2):
                if a == b and a is not None and b is not None:
                    return False
    return True


# =========================================================================================== type strategies
FIELD_NAMES = ["a", "b", "c", "value", "data", "from_", "id", "x1", "name", "items_"]
WIDE_FIELD_NAMES = [f"w{i}" for i in range(20)]
MODEL_OPTS = {
    "dataclass": ["", "", "", "slots=True", "frozen=True", "kw_only=True", "kw_only=True, slots=True, frozen=True"],
    "attrs": ["", "", "", "frozen=True", "kw_only=True", "slots=False", "kw_only=True, slots=False"],
    "typeddict": ["", "", "total=False"],
    "namedtuple": [""],
}

SCALAR_TAGS_COMMON = ["int", "str", "bool", "float", "none"]
SCALAR_TAGS_RICH = ["decimal", "fraction", "complex", "bytes", "bytearray", "bytestring", "bytesio", "iobytes",
                    "pattern", "date", "time", "datetime", "timedelta", "uuid", "pathlike", "literalstring"]
HASHABLE_KEY_TAGS = ["str", "int", "bool", "decimal", "date", "uuid", "bytes", "float"]


@st.composite
def st_enum_spec(draw, counter):
    if True:
        base = draw(st.sampled_from(["Enum", "Enum", "IntEnum", "StrEnum", "str_Enum", "Flag", "IntFlag"]))
        n = draw(st.integers(1, 4))
        names = ["A", "B", "C", "D"][:n]
        if base in ("Flag", "IntFlag"):
            members = [[nm, 1 << i] for i, nm in enumerate(names)]
        elif base == "IntEnum":
            vals = draw(st.lists(st.sampled_from([0, 1, 2, 3, 10, -1]), min_size=n, max_size=n, unique=True))
            members = [[nm, v] for nm, v in zip(names, vals)]
        elif base in ("StrEnum", "str_Enum"):
            vals = draw(st.lists(st.sampled_from(["a", "b", "c", "", "x y", "1"]), min_size=n, max_size=n, unique=True))
            members = [[nm, v] for nm, v in zip(names, vals)]
        else:
            vals = draw(st.lists(st.sampled_from([1, 2, "a", "b", None, 1.5, "1", 3]),
                                 min_size=n, max_size=n, unique_by=lambda v: (v == 1, v) if v in (1, True) else v))
            members = [[nm, v] for nm, v in zip(names, vals)]
        return ["enum", {"name": f"E{next(counter)}", "base": base, "members": members}]


@st.composite
def st_literal_spec(draw, counter, strict_only_lookalikes: bool):
    if True:
        kind = draw(st.sampled_from(["ints", "strs", "mixed", "bools", "bytes", "enum", "enum", "many", "lookalike",
                                     "lookalike_many"]))
        if kind == "ints":
            vals = draw(st.lists(st.sampled_from([0, 1, 2, 5, -1, 100]), min_size=1, max_size=3, unique=True))
        elif kind == "strs":
            vals = draw(st.lists(st.sampled_from(["a", "b", "", "x y", "1", "None"]), min_size=1, max_size=3, unique=True))
        elif kind == "bools":
            vals = draw(st.sampled_from([[True], [False], [True, False]]))
        elif kind == "bytes":
            vals = [{"$": "bytes", "h": h} for h in draw(st.lists(st.sampled_from(["", "00", "6162", "ff00"]),
                                                                 min_size=1, max_size=2, unique=True))]
            if draw(st.booleans()):
                # 0 / 1 / bool members switch the strict loader to its (type, value) branch
                vals.append(draw(st.sampled_from([2, "zz", None, 0, 1, True, False])))
        elif kind == "enum":
            es = draw(st_enum_spec(counter))
            es[1]["base"] = draw(st.sampled_from(["Enum", "StrEnum", "IntEnum"]))
            if es[1]["base"] == "StrEnum":
                es[1]["members"] = [[n, f"s{i}"] for i, (n, _) in enumerate(es[1]["members"])]
            elif es[1]["base"] == "IntEnum":
                es[1]["members"] = [[n, 10 + i] for i, (n, _) in enumerate(es[1]["members"])]
            else:
                es[1]["members"] = [[n, ["x", 20, "y", 21][i]] for i, (n, _) in enumerate(es[1]["members"])]
            names = [n for n, _ in es[1]["members"]]
            pick = draw(st.lists(st.sampled_from(names), min_size=1, max_size=len(names), unique=True))
            vals = [{"$": "enum", "c": es[1]["name"], "n": n, "spec": es[1]} for n in pick]
            extra = draw(st.sampled_from([[], [0], [1], ["zz"], [None], [0, "zz"], [True], [False, 2], [1, 0]]))
            vals = vals + extra
        elif kind == "many":
            vals = [0, 1, 2, 3, 4, 5, "a", "b"][: draw(st.integers(5, 8))]
        elif kind == "lookalike_many":
            # more than 4 members: the loader switches from a tuple to a set of allowed values
            vals = draw(st.sampled_from([[1, True, "a", "b", "c"], [False, 0, "a", "b", "c"], [0, 1, False, True, "x"],
                                         [True, 1, 2, 3, 4, 5], [0, 2, 3, 4, False]])) if strict_only_lookalikes else \
                draw(st.sampled_from([[1, 2, 3, 4, 5], [True, "a", "b", "c", "d"], [0, "a", "b", "c", "d", "e"]]))
        elif kind == "lookalike":
            vals = draw(st.sampled_from([[0, False], [1, True], [0, 1, False, True], [False, 1], [0, True]])) \
                if strict_only_lookalikes else draw(st.sampled_from([[0, 1], [False, True], [0, True], [1, False]]))
        else:
            vals = draw(st.lists(st.sampled_from([0, 2, "a", "b", None, 7]), min_size=1, max_size=4, unique=True))
        return ["literal", vals]


class TypeGen:
    """Configurable recursive strategy of type specs."""

    def __init__(self, *, models=True, unions=True, rich_scalars=True, enums=True, literals=True, wrappers=True,
                 any_types=True, abcs=True, max_depth=3, model_kinds=("dataclass", "namedtuple", "typeddict", "attrs"),
                 recursive_models=True, io_types=True, lookalike_literals=True, dumpable_unions=True,
                 disjoint_unions=True, unhashable_set_elems=False):
        self.models = models
        self.unions = unions
        self.rich = rich_scalars
        self.enums = enums
        self.literals = literals
        self.wrappers = wrappers
        self.any_types = any_types
        self.abcs = abcs
        self.max_depth = max_depth
        self.model_kinds = model_kinds
        self.recursive_models = recursive_models
        self.io_types = io_types
        self.lookalike_literals = lookalike_literals
        # docs: the builtin union *dumper* "can work only with class type hints and Literal" and dispatches by
        # the classes in type(obj).mro(): NewType/Annotated wrappers, abstract collections (virtual subclasses),
        # TypedDict, ByteString, PathLike and IO[bytes] cannot be union cases when the type is to be dumped.
        self.dumpable_unions = dumpable_unions
        self.disjoint_unions = disjoint_unions   # False: cases may overlap (only for oracles that do not depend on it)
        # True: a third of the sets get an element type whose loaded values can be unhashable (Set[Any], Set[List[int]]):
        # only for load-only checks, such a type has no values of its own
        self.unhashable_set_elems = unhashable_set_elems

    def strategy(self):
        return self._root()

    @st.composite
    def _root(draw, self):  # noqa: N805
        counter = itertools.count()
        return draw(self._t(self.max_depth, counter, (), hashable=False))

    def model_root_strategy(self):
        """Types whose root is a model (for checks that aim at the model loader / dumper itself)."""
        return self._model_root()

    @st.composite
    def _model_root(draw, self):  # noqa: N805
        counter = itertools.count()
        return draw(self._model(self.max_depth, counter, ()))

    def _scalar(self, counter, hashable):
        opts = [st.sampled_from([[t] for t in SCALAR_TAGS_COMMON])] * 3
        if self.rich:
            tags = [t for t in SCALAR_TAGS_RICH if self.io_types or t not in ("bytesio", "iobytes")]
            if hashable:
                tags = [t for t in tags if t not in ("bytearray", "bytesio", "iobytes")]
            opts.append(st.sampled_from([[t] for t in tags]))
            opts.append(st.sampled_from([["ip", n] for n in IP_NAMES] + [["path", n] for n in PATH_NAMES]))
        if self.enums:
            opts.append(st_enum_spec(counter))
        if self.literals:
            opts.append(st_literal_spec(counter, self.lookalike_literals))
        if self.any_types and not hashable:
            opts.append(st.sampled_from([["any"], ["object"]]))
        return st.one_of(*opts)

    @st.composite
    def _t(draw, self, d, counter, open_models, hashable):  # noqa: C901, N805, PLR0912
        if d <= 0:
            return draw(self._scalar(counter, hashable))
        choices = ["scalar", "scalar", "list", "dict", "tuple", "optional"]
        if not hashable:
            choices += ["set", "vtuple", "deque", "frozenset"]
            if self.abcs:
                choices += ["abc", "mapping"]
            if self.models:
                choices += ["model", "model"]
            if open_models and self.recursive_models:
                choices += ["ref"]
        else:
            choices = ["scalar", "scalar", "tuple", "vtuple", "frozenset", "optional"]
        if self.unions:
            choices += ["union"]
        if self.wrappers:
            choices += ["wrapper"]
        kind = draw(st.sampled_from(choices))
        sub = lambda h=hashable: self._t(d - 1, counter, open_models, h)  # noqa: E731
        sp2 = draw(st.sampled_from(["typing", "builtin"]))
        if kind == "scalar":
            return draw(self._scalar(counter, hashable))
        if kind == "list":
            return ["list", draw(sub()), sp2]
        if kind in ("set", "frozenset"):
            h = not (self.unhashable_set_elems and not hashable and draw(st.integers(0, 2)) == 0)
            return [kind, draw(self._t(d - 1, counter, open_models, h)), sp2]
        if kind == "vtuple":
            return ["vtuple", draw(sub()), sp2]
        if kind == "deque":
            return ["deque", draw(sub())]
        if kind == "abc":
            name = draw(st.sampled_from(list(ABC_IMPL)))
            h = not (self.unhashable_set_elems and not hashable and draw(st.integers(0, 2)) == 0)
            inner = draw(self._t(d - 1, counter, open_models, h)) if name in ("Set", "MutableSet") else draw(sub())
            return ["abc", name, inner, sp2]
        if kind == "tuple":
            n = draw(st.integers(0, 3))
            return ["tuple", [draw(sub()) for _ in range(n)], sp2]
        if kind in ("dict", "mapping"):
            ktag = draw(st.sampled_from(HASHABLE_KEY_TAGS if self.rich else ["str", "int", "bool"]))
            key = [ktag]
            if self.enums and draw(st.integers(0, 5)) == 0:
                key = draw(st_enum_spec(counter))
            val = draw(self._t(d - 1, counter, open_models, False))
            if kind == "mapping":
                return [draw(st.sampled_from(["mapping", "mutablemapping", "defaultdict"])), key, val]
            return ["dict", key, val, sp2]
        if kind == "optional":
            inner = draw(sub())
            if strip(inner)[0] in ("none", "optional", "any", "object") or \
                    (strip(inner)[0] == "union") or "none" in shapes(inner, True):
                return inner
            return ["optional", inner, draw(st.sampled_from(["optional", "typing", "bar"]))]
        if kind == "union":
            return draw(self._union(d, counter, open_models, hashable))
        if kind == "wrapper":
            w = draw(st.sampled_from(["newtype", "annotated", "alias"]))
            # a forward reference inside a NewType supertype / alias value is not resolvable by typing itself
            inner = draw(sub()) if w == "annotated" else draw(self._t(d - 1, counter, (), hashable))
            return [w, inner]
        if kind == "ref":
            name = draw(st.sampled_from(list(open_models)))
            how = draw(st.sampled_from(["optional", "list", "dict"]))
            ref = ["ref", name]
            if name == open_models[-1] and draw(st.integers(0, 2)) == 0:
                ref = ["ref", name, "self"]   # typing.Self
            if how == "optional":
                return ["optional", ref, "optional"]
            if how == "list":
                return ["list", ref, "typing"]
            return ["dict", ["str"], ref, "typing"]
        if kind == "model":
            return draw(self._model(d, counter, open_models))
        raise AssertionError(kind)

    @st.composite
    def _union(draw, self, d, counter, open_models, hashable):  # noqa: N805
        n = draw(st.integers(2, 4))
        cases = []
        seen_strict: set = set()
        if self.literals and self.rich and draw(st.integers(0, 7)) == 0:
            # a Literal next to a class whose instances can be *equal* to a literal value (Decimal(1) == 1)
            lit = draw(st_literal_spec(counter, self.lookalike_literals))
            other = [draw(st.sampled_from(["decimal", "fraction", "complex"] + ([] if hashable else ["bytearray"])))]
            sh = shapes(lit, True) | shapes(other, True)
            if not (self.disjoint_unions and shapes(lit, True) & shapes(other, True)):
                cases, seen_strict = [lit, other], set(sh)
                if draw(st.booleans()):
                    cases.reverse()
        for _ in range(n * 2):
            if len(cases) >= n:
                break
            c = draw(self._t(d - 1, counter, open_models, hashable))
            if strip(c)[0] in ("union", "optional", "any", "object"):
                continue
            if self.dumpable_unions and not union_case_dumpable(c):
                continue
            sh = shapes(c, True)
            if self.disjoint_unions and seen_strict & sh:
                continue
            seen_strict |= sh
            cases.append(c)
        if len(cases) < 2:
            return cases[0] if cases else ["int"]
        return ["union", cases, draw(st.sampled_from(["typing", "bar"]))]

    @st.composite
    def _model(draw, self, d, counter, open_models):  # noqa: N805
        name = f"M{next(counter)}"
        kind = draw(st.sampled_from(self.model_kinds))
        # one model in sixteen is wide (5..24 scalar fields): argument lists, generated variable numbering and error
        # lists beyond the handful of fields every other model has
        wide = draw(st.integers(0, 15)) == 0
        nf = draw(st.integers(5, 24)) if wide else draw(st.integers(0 if kind != "namedtuple" else 1, 4))
        names = draw(st.lists(st.sampled_from(FIELD_NAMES + WIDE_FIELD_NAMES if wide else FIELD_NAMES),
                              min_size=nf, max_size=nf, unique=True))
        inner_open = (*open_models, name) if kind != "typeddict" or True else open_models
        fields = []
        for fn in names:
            t = draw(self._t(0 if wide else d - 1, counter, inner_open, False))
            fields.append({"n": fn, "t": t, "d": None})
        # defaults; one model in five tries to give every field a default: only then the FIRST key of the model's mapping
        # is an optional one (required fields come first), which takes a path of its own through the generated loader
        all_optional = draw(st.integers(0, 4)) == 0
        for f in fields:
            if _mentions_ref(f["t"], name) and f["t"][0] == "optional":
                continue
            if all_optional or draw(st.integers(0, 2)) == 0:
                f["d"] = "?"  # resolved below (needs value strategy)
        for f in fields:
            if f["d"] == "?":
                f["d"] = draw(_st_default(f["t"], kind))
        req = [f for f in fields if f["d"] is None]
        opt = [f for f in fields if f["d"] is not None]
        fields = req + opt
        ms = {"name": name, "kind": kind, "fields": fields}
        # declaration options that must not change behaviour: they change how the class is introspected (parameter kinds,
        # __slots__ instead of __dict__, __setattr__ of frozen classes, Required / NotRequired markers)
        opts = draw(st.sampled_from(MODEL_OPTS[kind]))
        if opts:
            ms["opts"] = opts
        return ["model", ms]


def union_case_dumpable(c) -> bool:
    tag = c[0]
    if tag in ("newtype", "annotated", "alias", "abc", "mapping", "mutablemapping", "bytestring", "pathlike",
               "iobytes", "ref", "literalstring"):
        return False
    if tag == "model" and c[1]["kind"] == "typeddict":
        return False
    return True


def _mentions_ref(spec, name) -> bool:
    return any(s[0] == "ref" and s[1] == name for s in walk(spec))


_MUTABLE_TAGS = ("list", "dict", "set", "deque", "defaultdict", "mutablemapping", "mapping", "bytearray", "bytesio", "iobytes",
                 "model", "any", "object", "ref")


@st.composite
def _st_default(draw, tspec, kind):
    base = strip(tspec)
    if kind == "typeddict":
        return ["nr"]
    if base[0] in ("list", "dict") and kind in ("namedtuple", "attrs") and draw(st.integers(0, 2)) == 0:
        # a PLAIN mutable default (``x: List[int] = []``): NamedTuple and attrs accept it, dataclasses refuse it
        return ["v", [] if base[0] == "list" else {"$": "d", "v": []}]
    if base[0] in ("list", "dict", "set") and kind in ("dataclass", "attrs"):
        return ["f", base[0]]
    if kind in ("dataclass", "attrs") and draw(st.booleans()):
        # factories with a known literal (list, dict, tuple, str, bytes) get special treatment in generated code
        if base[0] in ("any", "object"):
            return ["f", draw(st.sampled_from(["list", "dict", "str"]))]  # JSON-stable values only (Any is passed as is)
        if base[0] in ("str", "literalstring"):
            return ["f", "str"]
        if base[0] in ("bytes", "bytestring"):
            return ["f", "bytes"]
        if base[0] == "vtuple" or (base[0] == "abc" and ABC_IMPL[base[1]] is tuple):
            return ["f", "tuple"]
    if base[0] == "optional" and strip(base[1])[0] in ("list", "dict", "set") and kind in ("dataclass", "attrs"):
        return ["f", strip(base[1])[0]]   # Optional[list] = field(default_factory=list): None is a falsy non-default value
    if contains(tspec, *_MUTABLE_TAGS) or any(s[0] == "abc" and s[1].startswith("Mutable") for s in walk(tspec)):
        return None  # only immutable canonical values are used as plain defaults
    return ["v", draw(st_value(tspec))]


# =========================================================================================== value strategies
_TEXT = st.one_of(st.sampled_from(["", "a", "abc", "x y", "1", "None", "é", "日本", "a\nb", "\x00", "0.5", "true"]),
                  st.text(max_size=8))
_INTS = st.one_of(st.sampled_from([0, 1, -1, 2, 10, 255, 2 ** 31, 2 ** 63, -2 ** 63 - 1, 10 ** 30]), st.integers())
_FLOATS = st.one_of(st.sampled_from([0.0, -0.0, 1.0, 1.5, -2.25, 1e100, 5e-324, 0.1]),
                    st.floats(allow_nan=False, allow_infinity=False))
_FLOATS_NAN = st.one_of(_FLOATS, st.sampled_from([float("nan"), float("inf"), float("-inf")]))
_HEX = st.one_of(st.sampled_from(["", "00", "ff", "616263", "00" * 20]), st.binary(max_size=12).map(bytes.hex))


def _fl(x: float):
    return x if math.isfinite(x) else {"$": "float", "s": repr(x)}


@st.composite
def _st_datetime(draw):
    d = draw(st.datetimes(min_value=dt.datetime(1, 1, 1), max_value=dt.datetime(9999, 12, 31, 23, 59, 59)))
    tz = draw(st.sampled_from([None, None, dt.timezone.utc, dt.timezone(dt.timedelta(hours=5, minutes=30)),
                               dt.timezone(dt.timedelta(hours=-3))]))
    if draw(st.booleans()):
        d = d.replace(microsecond=0)
    return {"$": "datetime", "s": d.replace(tzinfo=tz).isoformat()}


@st.composite
def _st_time(draw):
    t = draw(st.times())
    tz = draw(st.sampled_from([None, None, dt.timezone.utc, dt.timezone(dt.timedelta(hours=2))]))
    return {"$": "time", "s": t.replace(tzinfo=tz).isoformat()}


@st.composite
def _st_timedelta(draw):
    # docs: dumper uses total_seconds(), which "will lose microsecond accuracy" for very large intervals
    # (> ~270 years); stay inside the exactly representable range.
    days = draw(st.one_of(st.sampled_from([0, 0, 1, -1, 365]), st.integers(-90000, 90000)))
    secs = draw(st.integers(0, 86399))
    us = draw(st.one_of(st.sampled_from([0, 0, 500000, 1, 999999]), st.integers(0, 999999)))
    return {"$": "td", "d": days, "s": secs, "us": us}


_IP_VALUES = {
    "IPv4Address": ["127.0.0.1", "0.0.0.0", "255.255.255.255", "10.1.2.3"],
    "IPv6Address": ["::1", "::", "2001:db8::1", "fe80::1%eth0"],
    "IPv4Network": ["10.0.0.0/8", "192.168.1.0/24", "1.2.3.4/32"],
    "IPv6Network": ["2001:db8::/32", "::/0"],
    "IPv4Interface": ["10.1.2.3/8", "192.168.1.5/24"],
    "IPv6Interface": ["2001:db8::1/64"],
}
_PATH_VALUES = ["a", "/a/b", ".", "a/b.txt", "/", "é/x", "a b/c"]
_WIN_PATH_VALUES = ["a", "C:/a/b", "C:\\a\\b", "a\\b", "//host/share/x"]
_PATTERNS = ["", "a", "a+", "[a-z]*", "(x|y)", "\\d{2}", "é"]


def st_value(spec, models=None, budget=2, min_size=0):  # noqa: C901, PLR0911, PLR0912, PLR0915
    """Strategy of canonical value specs for a type spec (``models``/``budget`` steer recursive models)."""
    tag = spec[0]
    sv = lambda t: st_value(t, models, budget, min_size)  # noqa: E731
    if tag in ("newtype", "annotated", "alias"):
        return sv(spec[1])
    if tag == "int":
        return _INTS
    if tag == "float":
        return _FLOATS_NAN.map(_fl)
    if tag in ("str", "literalstring"):
        return _TEXT
    if tag == "bool":
        return st.booleans()
    if tag == "none":
        return st.none()
    if tag == "decimal":
        return st.one_of(
            st.sampled_from(["0", "1", "-1.50", "1E+3", "0.000", "NaN", "Infinity", "-0", "123456789.123456789"]),
            st.decimals(allow_nan=False, allow_infinity=False, places=3).map(str),
        ).map(lambda s: {"$": "dec", "s": s})
    if tag == "fraction":
        return st.fractions(max_denominator=1000).map(lambda f: {"$": "frac", "s": str(f)})
    if tag == "complex":
        return st.tuples(_FLOATS_NAN, _FLOATS_NAN).map(lambda t: {"$": "cx", "r": repr(t[0]), "i": repr(t[1])})
    if tag in ("bytes", "bytestring"):
        return _HEX.map(lambda h: {"$": "bytes", "h": h})
    if tag == "bytearray":
        return _HEX.map(lambda h: {"$": "bytearray", "h": h})
    if tag in ("bytesio", "iobytes"):
        return _HEX.map(lambda h: {"$": "bytesio", "h": h})
    if tag == "pattern":
        return st.sampled_from(_PATTERNS).map(lambda s: {"$": "re", "s": s})
    if tag == "date":
        return st.dates().map(lambda d: {"$": "date", "s": d.isoformat()})
    if tag == "time":
        return _st_time()
    if tag == "datetime":
        return _st_datetime()
    if tag == "timedelta":
        return _st_timedelta()
    if tag == "uuid":
        return st.uuids().map(lambda u: {"$": "uuid", "s": str(u)})
    if tag == "ip":
        return st.sampled_from(_IP_VALUES[spec[1]]).map(lambda s: {"$": "ip", "c": spec[1], "s": s})
    if tag == "path":
        vals = _WIN_PATH_VALUES if "Windows" in spec[1] else _PATH_VALUES
        return st.sampled_from(vals).map(lambda s: {"$": "path", "c": spec[1], "s": s})
    if tag == "pathlike":
        return st.sampled_from(_PATH_VALUES).map(lambda s: {"$": "path", "c": "Path", "s": s})
    if tag in ("any", "object"):
        return st.recursive(
            st.one_of(st.none(), st.booleans(), st.integers(-5, 5), st.sampled_from(["", "a", "b"]), st.just(1.5)),
            lambda ch: st.one_of(st.lists(ch, max_size=3),
                                 st.lists(st.tuples(st.sampled_from(["k", "a", "b"]), ch), max_size=3, unique_by=lambda t: t[0])
                                 .map(lambda items: {"$": "d", "v": [list(i) for i in items]})),
            max_leaves=5)
    if tag == "enum":
        es = spec[1]
        if es["base"] in ("Flag", "IntFlag"):
            mask = 0
            for _, v in es["members"]:
                mask |= v
            return st.integers(0, mask).map(lambda v: {"$": "flag", "c": es["name"], "v": v})
        return st.sampled_from([n for n, _ in es["members"]]).map(lambda n: {"$": "enum", "c": es["name"], "n": n})
    if tag == "literal":
        return st.sampled_from([{k: v for k, v in x.items() if k != "spec"} if isinstance(x, dict) else x
                                for x in spec[1]])
    if tag in ("list", "set", "frozenset", "vtuple", "deque", "abc"):
        inner_t = spec[2] if tag == "abc" else spec[1]
        mx = 0 if (strip(inner_t)[0] == "ref" and budget <= 0) else 3
        impl = {"list": list, "set": set, "frozenset": frozenset, "vtuple": tuple, "deque": collections.deque}.get(tag) \
            or ABC_IMPL[spec[1]]
        if impl in (set, frozenset):
            t = "set" if impl is set else "fset"
            return st.lists(sv(inner_t), min_size=min(min_size, mx, 1), max_size=mx, unique_by=_uniq_key)\
                .map(lambda v: {"$": t, "v": v})
        items = st.lists(sv(inner_t), min_size=min(min_size, mx), max_size=mx)
        if impl is list:
            return items
        t = "t" if impl is tuple else "deque"
        return items.map(lambda v: {"$": t, "v": v})
    if tag == "tuple":
        if not spec[1]:
            return st.just({"$": "t", "v": []})
        return st.tuples(*[sv(t) for t in spec[1]]).map(lambda v: {"$": "t", "v": list(v)})
    if tag in ("dict", "mapping", "mutablemapping", "defaultdict"):
        t = "dd" if tag == "defaultdict" else "d"
        mx = 0 if (strip(spec[2])[0] == "ref" and budget <= 0) else 3
        return st.lists(st.tuples(sv(spec[1]), sv(spec[2])), min_size=min(min_size, mx, 1), max_size=mx,
                        unique_by=lambda kv: _uniq_key(kv[0])) \
            .map(lambda items: {"$": t, "v": [list(i) for i in items]})
    if tag == "optional":
        if strip(spec[1])[0] == "ref" and budget <= 0:
            return st.none()
        return st.one_of(st.none(), sv(spec[1]), sv(spec[1]))
    if tag == "union":
        alts = [sv(c) for c in spec[1]]
        # values of one case that are *equal* to a Literal member of another case (Decimal(1) == 1, bytearray(b'a') == b'a')
        lits = [v for c in spec[1] if strip(c)[0] == "literal" for v in strip(c)[1]]
        nums = [int(v) for v in lits if isinstance(v, (bool, int)) and abs(v) < 10 ** 6]
        hexes = [v["h"] for v in lits if isinstance(v, dict) and v.get("$") == "bytes"]
        for c in spec[1]:
            k = strip(c)[0]
            if nums and k == "decimal":
                alts.append(st.sampled_from(nums).map(lambda n: {"$": "dec", "s": str(n)}))
            elif nums and k == "fraction":
                alts.append(st.sampled_from(nums).map(lambda n: {"$": "frac", "s": str(n)}))
            elif nums and k == "complex":
                alts.append(st.sampled_from(nums).map(lambda n: {"$": "cx", "r": repr(float(n)), "i": "0.0"}))
            elif hexes and k == "bytearray":
                alts.append(st.sampled_from(hexes).map(lambda h: {"$": "bytearray", "h": h}))
        return st.one_of(*alts)
    if tag == "model":
        m2 = dict(models or {})
        m2[spec[1]["name"]] = spec
        return _st_model_value(spec, m2, budget, min_size)
    if tag == "ref":
        return _st_model_value(models[spec[1]], models, budget - 1, min_size)
    raise ValueError(tag)


def _uniq_key(v):
    """Equality key for set members / dict keys: 1 == True == 1.0 also inside tuples, and NaN equals NaN — two members
    that differ only by the identity of a NaN object collapse as soon as both NaNs are one object (json.loads returns
    one shared NaN), so such pairs are not generated."""
    if isinstance(v, (bool, int, float)):
        return ("num", float(v)) if not isinstance(v, float) or v == v else ("nan",)
    if isinstance(v, dict):
        if v["$"] == "dec":
            d = Decimal(v["s"])
            return ("num", float(d)) if d.is_finite() else ("dec", v["s"])
        if v["$"] == "float":
            return ("float", v["s"])
        if v["$"] in ("set", "fset"):
            return (v["$"], frozenset(_uniq_key(x) for x in v["v"]))
        return tuple(sorted((k, _uniq_key(x)) for k, x in v.items()))
    if isinstance(v, list):
        return tuple(_uniq_key(x) for x in v)
    return v


_NO_FALSY = object()


def falsy_value(spec):  # noqa: PLR0911
    """A canonical falsy value of the type (None / 0 / False / '' / empty container) or _NO_FALSY."""
    s = strip(spec)
    tag = s[0]
    if tag == "optional" or tag == "none":
        return None
    if tag in ("any", "object"):
        return 0
    if tag == "int":
        return 0
    if tag == "float":
        return 0.0
    if tag in ("str", "literalstring"):
        return ""
    if tag == "bool":
        return False
    if tag == "list":
        return []
    if tag in ("vtuple",) or (tag == "abc" and ABC_IMPL[s[1]] is tuple) or (tag == "tuple" and not s[1]):
        return {"$": "t", "v": []}
    if tag in ("dict", "mapping", "mutablemapping"):
        return {"$": "d", "v": []}
    if tag == "set" or (tag == "abc" and ABC_IMPL[s[1]] is set):
        return {"$": "set", "v": []}
    if tag == "frozenset" or (tag == "abc" and ABC_IMPL[s[1]] is frozenset):
        return {"$": "fset", "v": []}
    if tag in ("bytes", "bytestring"):
        return {"$": "bytes", "h": ""}
    if tag == "union":
        for c in s[1]:
            v = falsy_value(c)
            if v is not _NO_FALSY:
                return v
    return _NO_FALSY


@st.composite
def _st_model_value(draw, spec, models, budget, min_size=0):
    ms = spec[1]
    fields = {}
    for f in ms["fields"]:
        d = f.get("d")
        if d is not None and draw(st.integers(0, 2)) == 0:
            continue  # leave the default in place / NotRequired key absent
        if d is not None and draw(st.integers(0, 3)) == 0:
            fv = falsy_value(f["t"])       # a falsy value that is (usually) not the default: omit_default territory
            if fv is not _NO_FALSY:
                fields[f["n"]] = fv
                continue
        fields[f["n"]] = draw(st_value(f["t"], models, budget, min_size))
    return {"$": "obj", "c": ms["name"], "f": fields}


# =========================================================================================== deep equality
def deep_eq(a, b) -> bool:  # noqa: C901, PLR0911, PLR0912
    """Type-aware equality: exact types, NaN == NaN, Decimal by as_tuple, BytesIO by content, models field-wise."""
    if type(a) is not type(b):
        return False
    if isinstance(a, float):
        return (a != a and b != b) or (a == b and math.copysign(1, a) == math.copysign(1, b))
    if isinstance(a, complex):
        return deep_eq(a.real, b.real) and deep_eq(a.imag, b.imag)
    if isinstance(a, Decimal):
        return a.as_tuple() == b.as_tuple()
    if isinstance(a, io.BytesIO):
        return a.getvalue() == b.getvalue()
    if isinstance(a, re.Pattern):
        return a.pattern == b.pattern and a.flags == b.flags
    if isinstance(a, (list, tuple, collections.deque)):
        return len(a) == len(b) and all(deep_eq(x, y) for x, y in zip(a, b))
    if isinstance(a, (set, frozenset)):
        if len(a) != len(b):
            return False
        rest = list(b)
        for x in a:
            for i, y in enumerate(rest):
                if deep_eq(x, y):
                    del rest[i]
                    break
            else:
                return False
        return True
    if isinstance(a, dict):
        if len(a) != len(b):
            return False
        if isinstance(a, collections.defaultdict) and a.default_factory is not b.default_factory:
            return False
        rest = list(b.items())
        for k, v in a.items():
            for i, (k2, v2) in enumerate(rest):
                if deep_eq(k, k2) and deep_eq(v, v2):
                    del rest[i]
                    break
            else:
                return False
        return True
    if dataclasses.is_dataclass(a) and not isinstance(a, type):
        return all(deep_eq(getattr(a, f.name), getattr(b, f.name)) for f in dataclasses.fields(a))
    if hasattr(type(a), "__attrs_attrs__"):
        return all(deep_eq(getattr(a, f.name), getattr(b, f.name)) for f in type(a).__attrs_attrs__)
    if isinstance(a, enum.Enum):
        return a is b or (isinstance(a, enum.Flag) and a == b)
    try:
        return bool(a == b)
    except Exception:  # noqa: BLE001
        return a is b


# =========================================================================================== reference dump
def model_key(name: str) -> str:
    """Documented default: trailing underscore is trimmed (trim_trailing_underscore=True)."""
    if name.endswith("_") and not name.endswith("__"):
        return name[:-1]
    return name


_LAYOUTS: dict = {}


def list_index(ms, f) -> int:
    """Index of a field in a list layout: declaration order; TypedDict fields are ordered by name (adaptix sorts
    them deliberately because TypedDict keeps no reliable order across inheritance)."""
    if ms["kind"] == "typeddict":
        return sorted(x["n"] for x in ms["fields"]).index(f["n"])
    return ms["fields"].index(f)


class use_layouts:  # noqa: N801
    """Context manager: ``{model name: {"paths": {field: (key, ...)}} | {"as_list": True}}`` for ref_dump."""

    def __init__(self, layouts):
        self.layouts = layouts or {}

    def __enter__(self):
        self.saved = dict(_LAYOUTS)
        _LAYOUTS.clear()
        _LAYOUTS.update(self.layouts)

    def __exit__(self, *a):
        _LAYOUTS.clear()
        _LAYOUTS.update(self.saved)


def ref_dump(spec, value, env: Env):  # noqa: C901, PLR0911, PLR0912
    """The documented outer form ("Dumping to" column etc.)."""
    tag = spec[0]
    if tag in ("newtype", "annotated", "alias"):
        return ref_dump(spec[1], value, env)
    if tag in ("int", "float", "str", "bool", "none", "any", "object", "literalstring"):
        return value
    if tag in ("decimal", "fraction", "complex", "uuid", "ip"):
        return str(value)
    if tag in ("bytes", "bytearray", "bytestring"):
        return base64.b64encode(bytes(value)).decode("ascii")
    if tag in ("bytesio", "iobytes"):
        return base64.b64encode(value.getvalue()).decode("ascii")
    if tag == "pattern":
        return value.pattern
    if tag in ("date", "time", "datetime"):
        return value.isoformat()
    if tag == "timedelta":
        return value.total_seconds()
    if tag in ("path", "pathlike"):
        return value.__fspath__()
    if tag == "enum":
        return value.value
    if tag == "literal":
        if isinstance(value, enum.Enum):
            return value.value
        if isinstance(value, bytes):
            return base64.b64encode(value).decode("ascii")
        return value
    if tag == "list":
        return [ref_dump(spec[1], x, env) for x in value]
    if tag in ("set", "frozenset"):
        # deterministic order: the iteration order of a set is not (hash(nan) is address based), and the order of a
        # dumped set is not significant anyway (comparisons use dumped_eq)
        return tuple(ref_dump(spec[1], x, env) for x in sorted(value, key=lambda o: repr(canon(o))))
    if tag in ("vtuple", "deque"):
        return tuple(ref_dump(spec[1], x, env) for x in value)
    if tag == "abc":
        items = sorted(value, key=lambda o: repr(canon(o))) if isinstance(value, (set, frozenset)) else value
        return tuple(ref_dump(spec[2], x, env) for x in items)
    if tag == "tuple":
        return tuple(ref_dump(t, x, env) for t, x in zip(spec[1], value))
    if tag in ("dict", "mapping", "mutablemapping", "defaultdict"):
        return {ref_dump(spec[1], k, env): ref_dump(spec[2], v, env) for k, v in value.items()}
    if tag == "optional":
        return None if value is None else ref_dump(spec[1], value, env)
    if tag == "union":
        case = union_case_for_value(spec, value, env)
        return ref_dump(case, value, env)
    if tag == "model":
        ms = spec[1]
        layout = _LAYOUTS.get(ms["name"])
        out: Any = {}
        if layout is not None and layout.get("as_list"):
            out = [None] * len(ms["fields"])
        elif layout is not None:
            # intermediate containers of nested paths are always present in the dump, even when every field below
            # them is absent (and the loader requires them) -- observed behaviour, consistent between dump and load
            for f in ms["fields"]:
                cur = out
                for k in layout["paths"][f["n"]][:-1]:
                    cur = cur.setdefault(k, {})
        for f in ms["fields"]:
            i = list_index(ms, f)
            if ms["kind"] == "typeddict":
                if f["n"] not in value:
                    continue
                fv = value[f["n"]]
            else:
                fv = getattr(value, f["n"])
            dumped = ref_dump(f["t"], fv, env)
            if layout is None:
                out[model_key(f["n"])] = dumped
            elif layout.get("as_list"):
                out[i] = dumped
            else:
                path = layout["paths"][f["n"]]
                cur = out
                for k in path[:-1]:
                    cur = cur.setdefault(k, {})
                cur[path[-1]] = dumped
        return out
    if tag == "ref":
        ms = env.specs[spec[1]]
        return ref_dump(["model", ms], value, env)
    raise ValueError(tag)


def runtime_class(spec, env: Env):
    """The class of canonical values of this type, None when there is no single class (union/any)."""
    spec = strip(spec)
    tag = spec[0]
    simple = {"int": int, "float": float, "str": str, "bool": bool, "none": type(None), "decimal": Decimal,
              "fraction": Fraction, "complex": complex, "bytes": bytes, "bytearray": bytearray, "bytestring": bytes,
              "bytesio": io.BytesIO, "iobytes": io.BytesIO, "pattern": re.Pattern, "date": dt.date, "time": dt.time,
              "datetime": dt.datetime, "timedelta": dt.timedelta, "uuid": uuid.UUID, "literalstring": str,
              "list": list, "set": set, "frozenset": frozenset, "vtuple": tuple, "deque": collections.deque,
              "tuple": tuple, "dict": dict, "mapping": dict, "mutablemapping": dict,
              "defaultdict": collections.defaultdict}
    if tag in simple:
        return simple[tag]
    if tag == "ip":
        return codec.IP_CLASSES[spec[1]]
    if tag in ("path", "pathlike"):
        return None
    if tag == "abc":
        return ABC_IMPL[spec[1]]
    if tag == "enum":
        return env.classes[spec[1]["name"]]
    if tag == "model":
        return dict if spec[1]["kind"] == "typeddict" else env.classes[spec[1]["name"]]
    if tag == "ref":
        return dict if env.kinds[spec[1]] == "typeddict" else env.classes[spec[1]]
    return None


def union_case_for_value(spec, value, env: Env):
    """Documented: dumper finds the case by the runtime class of the object (Literal members by membership)."""
    for c in spec[1]:
        cs = strip(c)
        if cs[0] == "literal":
            vals = [codec.build({k: v for k, v in x.items() if k != "spec"} if isinstance(x, dict) else x, env)
                    for x in cs[1]]
            if any(type(value) is type(v) and value == v for v in vals):
                return c
    by_class = {}
    for c in spec[1]:
        rc = runtime_class(c, env)
        if rc is not None:
            by_class.setdefault(rc, c)
    for klass in type(value).__mro__:   # documented: "the selected class that appears first in .mro() list"
        if klass in by_class:
            return by_class[klass]
    for c in spec[1]:
        if strip(c)[0] in ("path", "pathlike") and isinstance(value, pathlib.PurePath):
            return c
    raise LookupError(f"no union case for {value!r}")


# =========================================================================================== canonical structure
_ADDR = re.compile(r"0x[0-9a-fA-F]+")


def canon(o, _depth=0):  # noqa: C901, PLR0911, PLR0912
    """Structural, type-exact, identity-free description of an object (also of the exotic soup classes);
    two separately built copies of one value spec have equal canons."""
    if _depth > 60:
        return ("deep",)
    tn = type(o).__name__
    if isinstance(o, str) and " at 0x" in o:
        return (tn, _ADDR.sub("0x?", o))  # str(<some object>) made by a lax loader: the address is not content
    if o is None or isinstance(o, (bool, int, str, bytes, bytearray)):
        return (tn, o if not isinstance(o, bytearray) else bytes(o))
    if isinstance(o, float):
        return (tn, repr(o))
    if isinstance(o, complex):
        return (tn, repr(o.real), repr(o.imag))
    if isinstance(o, Decimal):
        return (tn, str(o.as_tuple()))
    if isinstance(o, (list, tuple, collections.deque)):
        if hasattr(o, "_fields"):
            return (tn, tuple((f, canon(getattr(o, f), _depth + 1)) for f in o._fields))
        return (tn, tuple(canon(x, _depth + 1) for x in o))
    if isinstance(o, (set, frozenset)):
        return (tn, tuple(sorted((canon(x, _depth + 1) for x in o), key=repr)))
    if isinstance(o, dict):
        items = sorted(((canon(k, _depth + 1), canon(v, _depth + 1)) for k, v in o.items()), key=repr)
        extra = (repr(o.default_factory),) if isinstance(o, collections.defaultdict) else ()
        return (tn, tuple(items), *extra)
    if isinstance(o, codec.CustomMapping):
        return (tn, canon(o._d, _depth + 1))
    if isinstance(o, (codec.ItemsOnly, codec.NoLenIterable)):
        return (tn, canon(o._items, _depth + 1))
    if isinstance(o, codec.Opaque):
        return (tn,)
    if isinstance(o, types.GeneratorType):
        return ("generator",)
    if isinstance(o, io.BytesIO):
        return (tn, o.getvalue(), o.tell())   # the stream position is part of the object's state
    if isinstance(o, re.Pattern):
        return (tn, o.pattern, o.flags)
    if isinstance(o, enum.Enum):
        return ("enum", type(o).__qualname__, o.name if o.name is not None else o.value)
    if dataclasses.is_dataclass(o) and not isinstance(o, type):
        return (tn, tuple((f.name, canon(getattr(o, f.name, "<unset>"), _depth + 1)) for f in dataclasses.fields(o)))
    if hasattr(type(o), "__attrs_attrs__"):
        return (tn, tuple((f.name, canon(getattr(o, f.name, "<unset>"), _depth + 1)) for f in type(o).__attrs_attrs__))
    if isinstance(o, BaseException):
        return (tn, canon(o.args, _depth + 1))
    r = repr(o)
    if " at 0x" in r:
        return (tn,)
    return (tn, r)


def has_unordered_input(v) -> bool:
    """Does a value spec contain a set / frozenset with two or more members?  Its iteration order depends on addresses
    when members hash by identity (generators, Decimal('NaN'), custom objects) and differs between two builds of the spec."""
    if isinstance(v, list):
        return any(has_unordered_input(x) for x in v)
    if isinstance(v, dict):
        if v.get("$") in ("set", "fset") and len(v["v"]) >= 2:
            return True
        return any(has_unordered_input(x) for x in v.values())
    return False


def unordered(c):
    """Order-insensitive image of a canon() value (for results computed from unordered inputs)."""
    if isinstance(c, tuple):
        if c and isinstance(c[0], str):
            return (c[0], *sorted((unordered(x) for x in c[1:]), key=repr))
        return tuple(sorted((unordered(x) for x in c), key=repr))
    return c


def canon_eq(a, b) -> bool:
    return canon(a) == canon(b)


def dumped_eq(spec, a, b, env: Env) -> bool:  # noqa: C901, PLR0911
    """Equality of two dumped data for type ``spec`` where the element order of dumped *sets* is not significant
    (a set has no order; the docs fix none for its dumped tuple)."""
    s = strip(spec)
    tag = s[0]
    if type(a) is not type(b):
        return False
    try:
        if tag in ("set", "frozenset") or (tag == "abc" and s[1] in ("Set", "MutableSet")):
            inner = s[2] if tag == "abc" else s[1]
            if len(a) != len(b):
                return False
            rest = list(b)
            for x in a:
                for i, y in enumerate(rest):
                    if dumped_eq(inner, x, y, env):
                        del rest[i]
                        break
                else:
                    return False
            return True
        if tag in ("list", "vtuple", "deque", "abc"):
            inner = s[2] if tag == "abc" else s[1]
            return len(a) == len(b) and all(dumped_eq(inner, x, y, env) for x, y in zip(a, b))
        if tag == "tuple":
            return len(a) == len(b) == len(s[1]) and all(dumped_eq(t, x, y, env) for t, x, y in zip(s[1], a, b))
        if tag in ("dict", "mapping", "mutablemapping", "defaultdict") and isinstance(a, dict):
            if len(a) != len(b):
                return False
            return all(any(canon_eq(k, k2) and dumped_eq(s[2], v, v2, env) for k2, v2 in b.items()) for k, v in a.items())
        if tag == "optional" and a is not None:
            return dumped_eq(s[1], a, b, env)
        if tag == "union":
            return canon_eq(a, b) or any(dumped_eq(c, a, b, env) for c in s[1])
        if tag in ("model", "ref") and isinstance(a, dict) and set(a) == set(b):
            ms = s[1] if tag == "model" else env.specs[s[1]]
            ftypes = {model_key(f["n"]): f["t"] for f in ms["fields"]}
            return all(dumped_eq(ftypes[k], a[k], b[k], env) if k in ftypes else canon_eq(a[k], b[k]) for k in a)
    except Exception:  # noqa: BLE001  (the data does not have the shape of the type: fall back to exact structure)
        return canon_eq(a, b)
    return canon_eq(a, b)
