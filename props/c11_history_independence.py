"""C11 -- results never depend on call history; retorts are immutable.

Hypothesis RuleBasedStateMachine: one warm Retort (generated options + recipe), one warm ConversionRetort and the
module-level facade receive a generated history of facade calls over a pool of mutually confusable hints
(Literal[0,1] vs Literal[False,True] bare and nested, List[int] / list[int] / Sequence[int] / bare list, unions in
different orders and nestings, Optional spellings, structurally equal and equally named models, equally named
NewTypes, Annotated variants, recursive and mutually recursive models, requests that fail, > 128 distinct hints to
churn the normalisation LRU, replace() / extend(), loaders obtained earlier).  After every step the outcome of a probe
battery on the warm object is compared with the outcome on a freshly constructed equal retort.

Retorts in retorts: the recipe of the warm retort may hold inner retorts bound to model classes (``bound(Model, Retort(...))``,
one or two levels, drawn as the ``nest`` of the case or added later by extend()), the pool holds cycle families (garden, ring,
chain, mamb, node) whose type cycles pass through inner-owned classes and whose fields are equal as locations at different
depths, and the histories request the hints of a family in every order (machine rules + the exhaustive side table
``nested_cycle_cases``).  A fresh retort gets fresh inner retorts.

A history is pure data (list of steps); ``check_case`` re-executes it without Hypothesis.
"""
from __future__ import annotations

import dataclasses
import typing
from decimal import Decimal
from typing import Annotated, Any, Dict, List, Literal, NewType, Optional, Sequence, Tuple, Union

from vkit import env, runner
from vkit.errors import all_nodes, describe
from vkit import tspec

env.import_adaptix()

import hypothesis  # noqa: E402


def _drop_hypothesis_gc_callback():
    """Hypothesis registers a gc callback (timing statistics) that runs at arbitrary points, also at the bottom of the
    deliberately deep "churn" histories, where it dies with RecursionError and Python prints "Exception ignored in ..." on
    stderr.  Nothing of the check runs there; the callback is registered once (lazily), so it is triggered and removed."""
    import gc  # noqa: PLC0415
    try:
        from hypothesis.internal.conjecture.junkdrawer import gc_cumulative_time  # noqa: PLC0415
        gc_cumulative_time()
    except Exception:  # noqa: BLE001
        return
    gc.callbacks[:] = [cb for cb in gc.callbacks if "gc_cumulative_time" not in getattr(cb, "__qualname__", "")]


_drop_hypothesis_gc_callback()
from hypothesis import strategies as st  # noqa: E402
from hypothesis.stateful import RuleBasedStateMachine, rule, run_state_machine_as_test  # noqa: E402

import adaptix  # noqa: E402
from adaptix import DebugTrail, NameStyle, P, Retort, bound, loader, name_mapping  # noqa: E402
from adaptix.conversion import ConversionRetort, coercer  # noqa: E402
from adaptix.struct_trail import get_trail  # noqa: E402

PROP = "C11"
DEBUG = [DebugTrail.DISABLE, DebugTrail.FIRST, DebugTrail.ALL]


# ------------------------------------------------------------------------------------ the confusable pool
import enum as _enum  # noqa: E402


class EnumA(_enum.Enum):
    RED = 1
    BLUE = 2


class EnumB(_enum.Enum):
    BIG = 1
    SMALL = 2


@dataclasses.dataclass
class PropA:
    side: int

    @property
    def area(self) -> int:
        return self.side * self.side


@dataclasses.dataclass
class PropB:
    radius: int

    @property
    def area(self) -> "Decimal":
        return Decimal(self.radius) / 2


# this module uses ``from __future__ import annotations``: give the properties real return annotations (with_property infers the
# field type from them)
PropA.area.fget.__annotations__["return"] = int
PropB.area.fget.__annotations__["return"] = Decimal


@dataclasses.dataclass
class EnumModel:
    p: EnumA
    q: EnumB


# models whose defaults are EQUAL but not identical (False == 0 == 0.0, True == 1, hash-equal too): whatever a retort remembers
# about a default (omit_default sieves, rendered literals) under a key compared by equality is confused by them
@dataclasses.dataclass
class DefF:
    flag: bool = False


@dataclasses.dataclass
class Def0:
    n: int = 0


@dataclasses.dataclass
class Def0f:
    x: float = 0.0


@dataclasses.dataclass
class DefT:
    flag: bool = True


@dataclasses.dataclass
class Def1:
    n: int = 1


@dataclasses.dataclass
class A1:
    x: int
    y: str = "d"


@dataclasses.dataclass
class A2:
    x: int
    y: str = "d"


def _same_name_twin():
    @dataclasses.dataclass
    class A1:  # noqa: F811  -- deliberately the same __name__ / __qualname__ tail as the module-level A1
        x: str
        y: int = 0
    A1.__qualname__ = "A1"
    return A1


A1Twin = _same_name_twin()


class NT1(typing.NamedTuple):
    x: int
    y: str = "d"


@dataclasses.dataclass
class LitModel01:
    f: Literal[0, 1]
    g: List[Literal[0, 1]]


@dataclasses.dataclass
class LitModelFT:
    f: Literal[False, True]
    g: List[Literal[False, True]]


@dataclasses.dataclass
class Node:
    value: int
    children: List["Node"]


@dataclasses.dataclass
class MA:
    v: int
    b: Optional["MB"] = None


@dataclasses.dataclass
class MB:
    w: str
    a: Optional["MA"] = None


# ---- models whose type cycles are meant to CROSS RETORT BOUNDARIES: a retort placed in the recipe of another retort with
# ``bound(Model, inner_retort)`` ("Retort extension and combination") serves some classes of a cycle, the enclosing retort
# serves the others.  Every family has a cycle, roots outside the cycle, and fields that are EQUAL AS LOCATIONS (name, type,
# default) at different depths (CPark.owner / CGarden.owner / CLeaf.owner; RRoot.a / RC.a; SHead.nxt / SNode.nxt; MRoot.b / MA.b),
# because whatever a retort remembers about a location is confused by them.
@dataclasses.dataclass
class CLeaf:
    owner: "CTree"
    tag: int = 0


@dataclasses.dataclass
class CTree:
    leaves: List[CLeaf] = dataclasses.field(default_factory=list)


@dataclasses.dataclass
class CGarden:
    owner: CTree


@dataclasses.dataclass
class CPark:
    garden: CGarden
    owner: CTree


@dataclasses.dataclass
class RA:
    b: Optional["RB"] = None
    n: int = 0


@dataclasses.dataclass
class RB:
    c: Optional["RC"] = None


@dataclasses.dataclass
class RC:
    a: Optional[RA] = None
    b: Optional[RB] = None


@dataclasses.dataclass
class RRoot:
    a: Optional[RA] = None
    c: Optional[RC] = None
    b: Optional[RB] = None


@dataclasses.dataclass
class SNode:
    nxt: Optional["SNode"] = None
    v: int = 0


@dataclasses.dataclass
class SHead:
    nxt: Optional[SNode] = None
    items: List[SNode] = dataclasses.field(default_factory=list)


@dataclasses.dataclass
class MRoot:
    b: Optional[MB] = None
    a: Optional[MA] = None


class Unloadable:
    """No provider can load or dump this class."""


@dataclasses.dataclass
class RNode:
    value: int
    nxt: Tuple[Optional["RNode"], Unloadable]


@dataclasses.dataclass
class Wrap:
    node: RNode


@dataclasses.dataclass
class HasUnloadable:
    a: int
    u: Unloadable


@dataclasses.dataclass
class Dst1:
    x: int
    y: str


@dataclasses.dataclass
class DstOpt:
    x: Optional[int]
    y: str


@dataclasses.dataclass
class DstBad:
    x: int
    z: str


Id1 = NewType("Id", int)
Id2 = NewType("Id", str)

POOL: Dict[str, Any] = {
    "Lit01": Literal[0, 1], "LitFT": Literal[False, True], "ListLit01": List[Literal[0, 1]], "ListLitFT": List[Literal[False, True]],
    "OptLit0": Optional[Literal[0]], "OptLitF": Optional[Literal[False]], "TupLit1T": Tuple[Literal[1], Literal[True]],
    "TupLitT1": Tuple[Literal[True], Literal[1]], "DictLit01": Dict[str, Literal[0, 1]], "DictLitFT": Dict[str, Literal[False, True]],
    "Lit0": Literal[0], "LitF": Literal[False], "Lit1T": Literal[1, True], "LitModel01": LitModel01, "LitModelFT": LitModelFT,
    "ListInt": List[int], "listint": list[int], "SeqInt": Sequence[int], "list": list, "List": List, "TupInts": Tuple[int, ...],
    "ListBool": List[bool], "ListStr": List[str], "ListAny": List[Any],
    "U_int_str": Union[int, str], "U_str_int": Union[str, int], "OptInt": Optional[int], "U_None_int": Union[None, int],
    "U_int_str_None": Union[int, str, None], "U_nested": Union[Union[int, str], None], "int|str": int | str, "int|None": int | None,
    "A1": A1, "A2": A2, "A1Twin": A1Twin, "NT1": NT1, "ListA1": List[A1], "ListA2": List[A2], "OptA1": Optional[A1],
    "Id1": Id1, "Id2": Id2, "ListId1": List[Id1], "ListId2": List[Id2],
    "AnnIntA": Annotated[int, "a"], "AnnIntB": Annotated[int, "b"], "AnnListInt": Annotated[List[int], 1], "int": int, "bool": bool,
    "str": str, "Node": Node, "ListNode": List[Node], "MA": MA, "MB": MB,
    "RNode": RNode, "Wrap": Wrap, "HasUnloadable": HasUnloadable, "Unloadable": Unloadable, "ListUnloadable": List[Unloadable],
    "DictStrInt": Dict[str, int], "dict": dict, "DictStrBool": Dict[str, bool],
    "EnumA": EnumA, "EnumB": EnumB, "EnumModel": EnumModel, "ListEnumB": List[EnumB],
    "PropA": PropA, "PropB": PropB,
    "DefF": DefF, "Def0": Def0, "Def0f": Def0f, "DefT": DefT, "Def1": Def1,
    "CLeaf": CLeaf, "CTree": CTree, "CGarden": CGarden, "CPark": CPark, "ListCLeaf": List[CLeaf],
    "RA": RA, "RB": RB, "RC": RC, "RRoot": RRoot, "SNode": SNode, "SHead": SHead, "MRoot": MRoot,
}
# cycle families: the request names of one family (members of the cycle and roots pointing into it) and the classes an inner
# retort may be bound to
CYCLE_FAMILIES: Dict[str, Dict[str, List[str]]] = {
    "garden": {"types": ["CLeaf", "CTree", "CGarden", "CPark", "ListCLeaf"], "bindable": ["CLeaf", "CTree", "CGarden"]},
    "ring": {"types": ["RA", "RB", "RC", "RRoot"], "bindable": ["RA", "RB", "RC"]},
    "chain": {"types": ["SNode", "SHead"], "bindable": ["SNode", "SHead"]},
    "mamb": {"types": ["MA", "MB", "MRoot"], "bindable": ["MA", "MB"]},
    "node": {"types": ["Node", "ListNode"], "bindable": ["Node"]},
}
FAMILY_OF = {t: f for f, d in CYCLE_FAMILIES.items() for t in d["types"]}
CONFUSABLE_GROUPS = [
    {"Lit01", "LitFT", "Lit0", "LitF", "Lit1T", "OptLit0", "OptLitF"}, {"ListLit01", "ListLitFT"}, {"TupLit1T", "TupLitT1"},
    {"DictLit01", "DictLitFT"}, {"LitModel01", "LitModelFT"}, {"ListInt", "listint", "SeqInt", "list", "List", "TupInts", "ListBool", "ListAny"},
    {"U_int_str", "U_str_int", "int|str", "U_int_str_None", "U_nested"}, {"OptInt", "U_None_int", "int|None"},
    {"A1", "A2", "A1Twin", "NT1"}, {"ListA1", "ListA2"}, {"Id1", "Id2"}, {"ListId1", "ListId2"}, {"AnnIntA", "AnnIntB", "int"},
    {"Node", "ListNode"}, {"MA", "MB"}, {"RNode", "Wrap", "HasUnloadable", "Unloadable", "ListUnloadable"},
    {"DictStrInt", "dict", "DictStrBool"}, {"EnumA", "EnumB", "EnumModel", "ListEnumB"},
    {"PropA", "PropB"}, {"DefF", "Def0", "Def0f", "DefT", "Def1"},
    {"CLeaf", "CTree", "CGarden", "CPark", "ListCLeaf"}, {"RA", "RB", "RC", "RRoot"}, {"SNode", "SHead"},
]
CONFUSABLE_GROUPS[[i for i, g in enumerate(CONFUSABLE_GROUPS) if "MA" in g][0]].add("MRoot")
GROUP_OF = {name: i for i, g in enumerate(CONFUSABLE_GROUPS) for name in g}

BATTERY = [0, 1, True, False, None, "a", "1", 1.0, [0, 1], [True, False], [1, True], (1, True), (True, 1), [], ["a"], [1, "a"], {},
           {"a": 0}, {"a": True}, {"x": 1}, {"x": 1, "y": "s"}, {"x": "s", "y": 1}, {"f": 0, "g": [1]}, {"f": True, "g": [False]},
           {"value": 1, "children": [{"value": 2, "children": []}]}, {"value": 1, "children": [{"value": "bad", "children": []}]},
           {"v": 1, "b": {"w": "s", "a": {"v": 2}}}, {"w": "s", "a": {"v": 1, "b": None}}, {"value": 1, "nxt": [None, "u"]},
           {"node": {"value": 1, "nxt": [{"value": 2, "nxt": [None, "u"]}, "u"]}}, {"a": 1, "u": "u"}, [[1]], "u",
           "RED", "BIG", ["BIG", "SMALL"], {"p": "RED", "q": "BIG"}, {"p": 1, "q": 2}]
DUMP_VALUES = {
    "A1": lambda: A1(1, "s"), "A2": lambda: A2(2), "NT1": lambda: NT1(1), "ListA1": lambda: [A1(1)], "Node": lambda: Node(1, [Node(2, [])]),
    "MA": lambda: MA(1, MB("s", MA(2))), "ListInt": lambda: [1, 2], "listint": lambda: [3], "SeqInt": lambda: (1,), "Lit01": lambda: 1,
    "LitFT": lambda: True, "LitModel01": lambda: LitModel01(1, [0]), "LitModelFT": lambda: LitModelFT(True, [False]),
    "U_int_str": lambda: "s", "OptInt": lambda: None, "Id1": lambda: 5, "DictStrInt": lambda: {"a": 1}, "OptA1": lambda: A1(3),
    "A1Twin": lambda: A1Twin("s"), "Wrap": lambda: Wrap(RNode(1, (None, Unloadable()))),
    "EnumA": lambda: EnumA.RED, "EnumB": lambda: EnumB.BIG, "EnumModel": lambda: EnumModel(EnumA.BLUE, EnumB.SMALL),
    "ListEnumB": lambda: [EnumB.SMALL], "PropA": lambda: PropA(3), "PropB": lambda: PropB(3),
    "DefF": DefF, "Def0": Def0, "Def0f": Def0f, "DefT": DefT, "Def1": Def1,   # instances holding exactly the defaults
}

# probe data of the cycle families: deep enough to reach every loader of the cycle a second time (a recursion stub that was never
# bound only fails when the data reaches it), valid and invalid.  The hints of the cycle families are probed with this battery
# (plus a few look-alikes), the older hints with BATTERY.
_G1 = {"owner": {"leaves": [{"owner": {"leaves": []}}, {"owner": {"leaves": [{"owner": {"leaves": []}, "tag": 5}]}, "tag": 1}]}}
_R1 = {"a": {"b": {"c": {"a": {"b": {"c": None}, "n": 1}, "b": {"c": {"a": None}}}}}, "b": {"c": {"a": {"n": 2}}},
       "c": {"a": {"b": {"c": {"b": {}}}}}, "n": 7}
CYC_BATTERY = [
    _G1, {"leaves": [{"owner": {"leaves": [{"owner": {"leaves": []}}]}, "tag": 1}]}, {"garden": _G1, "owner": {"leaves": [{"owner": {"leaves": []}}]}},
    {"owner": {"leaves": [{"owner": {"leaves": [{"owner": 3}]}}]}}, [{"owner": {"leaves": [{"owner": {"leaves": []}}]}}, {"owner": {}}],
    _R1, {"c": {"a": {"b": {"c": {"a": {"b": {"c": {}}}, "b": {}}}}}}, {"a": {"b": {"c": {"a": {"n": "bad"}}}}, "b": {"c": {"b": {"c": 1}}}},
    {"nxt": {"nxt": {"nxt": None, "v": 2}, "v": 1}, "items": [{"nxt": {"v": 3}}]}, {"nxt": {"nxt": {"v": "bad"}}},
    {"b": {"w": "s", "a": {"v": 1, "b": {"w": "t", "a": {"v": 3}}}}, "a": {"v": 1, "b": {"w": "s", "a": {"v": 2}}}, "v": 4, "w": "w"},
    {"value": 1, "children": [{"value": 2, "children": [{"value": 3, "children": []}]}]}, [{"value": 1, "children": [{"value": 2, "children": []}]}],
    {}, None, 0, [], "a",
]


def battery_for(tname):
    return CYC_BATTERY if tname in FAMILY_OF else BATTERY


DUMP_VALUES.update({
    "CLeaf": lambda: CLeaf(CTree([CLeaf(CTree([]), 2)])), "CTree": lambda: CTree([CLeaf(CTree([CLeaf(CTree())]))]),
    "CGarden": lambda: CGarden(CTree([CLeaf(CTree([CLeaf(CTree([]), 3)]))])),
    "CPark": lambda: CPark(CGarden(CTree([CLeaf(CTree([CLeaf(CTree())]))])), CTree([CLeaf(CTree())])),
    "ListCLeaf": lambda: [CLeaf(CTree([CLeaf(CTree())])), CLeaf(CTree())],
    "RA": lambda: RA(RB(RC(RA(RB(RC())), RB(RC(RA(n=2)))))), "RB": lambda: RB(RC(RA(RB(RC(b=RB()))), RB())),
    "RC": lambda: RC(RA(RB(RC(RA()))), RB(RC(b=RB()))), "RRoot": lambda: RRoot(RA(RB(RC(RA(RB())))), RC(RA(RB(RC())), RB(RC())), RB(RC(RA()))),
    "SNode": lambda: SNode(SNode(SNode(None, 3), 2), 1), "SHead": lambda: SHead(SNode(SNode(None, 2), 1), [SNode(SNode())]),
    "MB": lambda: MB("s", MA(1, MB("t", MA(2)))), "MRoot": lambda: MRoot(MB("s", MA(1, MB("t"))), MA(2, MB("u", MA(3)))),
    "ListNode": lambda: [Node(1, [Node(2, [Node(3, [])])])],
})


def _int_plus(x):
    if type(x) is not int:
        raise adaptix.load_error.TypeLoadError(int, x)
    return x + 100


def _unloadable_loader(x):
    return Unloadable()


RECIPES = {
    "none": lambda: [],
    "camel": lambda: [name_mapping(name_style=NameStyle.CAMEL)],
    "int_plus": lambda: [loader(int, _int_plus)],
    "a1_only": lambda: [name_mapping(A1, map={"x": "X"})],
    "located_unloadable": lambda: [loader(P[Wrap].node.nxt.generic_arg(1, Unloadable), _unloadable_loader),
                                   adaptix.dumper(P[Wrap].node.nxt.generic_arg(1, Unloadable), lambda o: "u")],
    "a1_x_field": lambda: [loader(P[A1].x, _int_plus)],
    # a provider bound by several predicates at once (its checker is consulted by every request of the retort)
    "enum_names_multi": lambda: [adaptix.enum_by_name(EnumA, EnumB)],
    "enum_names_field_and_type": lambda: [adaptix.enum_by_name(P[EnumModel].p, EnumB, "nope")],
    # one provider serving two classes whose same-named properties have different return annotations (int / Decimal)
    "with_property_two_classes": lambda: [adaptix.with_property(P[PropA, PropB], "area")],
    "omit_default": lambda: [name_mapping(omit_default=True)],
}


# ---- retorts placed in the recipe of a retort.  A *nest* is pure data: a list of bindings
#     {"to": [class names], "inner": <nest of the inner retort>, "recipe": name of a flat recipe, "debug": 0..2}
# Each binding makes ONE inner Retort(recipe=<inner nest> + <flat recipe>) and binds it to every class of "to" with bound().
NEST_FLAT = {"none": lambda: [], "int_plus": lambda: [loader(int, _int_plus)]}


def build_nest(nest):
    out = []
    for b in nest:
        kw = {} if b.get("debug") is None else {"debug_trail": DEBUG[b["debug"]]}
        inner = Retort(recipe=[*build_nest(b.get("inner", [])), *NEST_FLAT[b.get("recipe", "none")]()], **kw)
        out += [bound(POOL[c], inner) for c in b["to"]]
    return out


def nest_depth(nest):
    return max((1 + nest_depth(b.get("inner", [])) for b in nest), default=0)


def nest_families(nest):
    return sorted({FAMILY_OF[c] for b in nest for c in b["to"]} | {f for b in nest for f in nest_families(b.get("inner", []))})


# nests as named recipes: reachable by extend() (a retort can get an inner retort later) and as the whole recipe of the warm retort
NEST_RECIPES = {
    "nest_leaf": [{"to": ["CLeaf"]}],
    "nest_tree_in_leaf": [{"to": ["CLeaf"], "inner": [{"to": ["CTree"]}]}],
    "nest_rb_rc": [{"to": ["RB"], "recipe": "int_plus"}, {"to": ["RC"]}],
    "nest_snode_mb": [{"to": ["SNode", "MB"], "debug": 0}],
}
RECIPES.update({name: (lambda spec=spec: build_nest(spec)) for name, spec in NEST_RECIPES.items()})


def args_nests(args):
    """Every nest a retort with these construction arguments holds."""
    return [args.get("nest", []), *[NEST_RECIPES[n] for n in [args["recipe"], *args.get("extended", [])] if n in NEST_RECIPES]]


def inner_owned(nest):
    return {c for b in nest for c in b["to"]} | {c for b in nest for c in inner_owned(b.get("inner", []))}


def nest_labels(world):
    nests = [n for _, args in world.retorts.values() for n in args_nests(args) if n]
    if not nests:
        return []
    owned = set().union(*[inner_owned(n) for n in nests])
    cyc = [t for t in world.requested if t in FAMILY_OF]
    out = [f"nest:depth{max(nest_depth(n) for n in nests)}", *[f"nestfam:{f}" for n in nests for f in nest_families(n)]]
    if cyc:
        out.append("cyc:inner_owned_first" if cyc[0] in owned else "cyc:outer_first")
        if len(set(cyc)) >= 2:
            out.append("cyc:two_hints_of_a_nested_cycle")
    return sorted(set(out))
CONV_PAIRS = {"A1->A2": (A1, A2), "A1->Dst1": (A1, Dst1), "A2->Dst1": (A2, Dst1), "A1->DstOpt": (A1, DstOpt),
              "A1->DstBad": (A1, DstBad), "A1Twin->Dst1": (A1Twin, Dst1), "NT1->A1": (NT1, A1), "A2->A1": (A2, A1),
              "LitModel01->LitModelFT": (LitModel01, LitModelFT), "MA->MA": (MA, MA)}
CONV_VALUES = {"A1": lambda: A1(1, "s"), "A2": lambda: A2(2, "t"), "A1Twin": lambda: A1Twin("s", 1), "NT1": lambda: NT1(1, "n"),
               "LitModel01": lambda: LitModel01(1, [0, 1]), "MA": lambda: MA(1, MB("s"))}


# ------------------------------------------------------------------------------------ outcomes
def flat(exc):
    out = []
    for n in all_nodes(exc):
        out.append((type(n).__name__, tuple(repr(t) for t in get_trail(n))))
    return tuple(out)


def outcome(fn, *args):
    try:
        return ("ok", tspec.canon(fn(*args)))
    except BaseException as ex:  # noqa: BLE001
        return ("err", flat(ex))


def creation(fn, *args):
    try:
        return ("ok", fn(*args))
    except BaseException as ex:  # noqa: BLE001
        return ("err", type(ex).__name__)


# ------------------------------------------------------------------------------------ history interpreter
class World:
    def __init__(self, init):
        self.init = init
        self.providers = RECIPES[init["recipe"]]()
        self.nest = build_nest(init.get("nest", []))          # inner retorts of the warm retort: built once, warmed with it
        self._own_ext = {}
        self.warm = self.make_fresh()
        self.warm_conv = ConversionRetort()
        self.retorts = {"warm": (self.warm, dict(init))}     # name -> (retort, construction args)
        self.old_loaders = []                                 # (retort name, type name, loader)
        self.old_dumpers = []
        self.requested = []                                   # type names requested so far (for the non-triviality rule)

    def make_fresh(self, args=None):
        a = args or self.init
        recipe = []
        # extend() prepends: the effective recipe is ext_n + ... + ext_1 + base
        for name in reversed(a.get("extended", [])):
            recipe += self._ext_providers(name) if args is None else RECIPES[name]()
        # a fresh retort gets fresh inner retorts as well (build_nest constructs new ones): "constructed afresh with the same arguments"
        recipe += self.nest if args is None else build_nest(a.get("nest", []))
        # the warm retort is built once from one set of provider objects; a fresh retort for a probe gets provider objects
        # of its own ("fresh" must not inherit whatever the requests did to the warm retort's providers)
        recipe += self.providers if args is None else RECIPES[a["recipe"]]()
        return Retort(recipe=recipe, strict_coercion=a["strict"], debug_trail=DEBUG[a["debug"]])

    _ext_cache: dict = {}

    def _ext_providers(self, name):
        # recipes holding retorts are kept per World (per case): an inner retort shared between cases would make a case depend
        # on the cases executed before it in the process, and a replay could not reproduce it
        cache = self._own_ext if name.startswith("nest_") else self._ext_cache
        if name not in cache:
            cache[name] = RECIPES[name]()
        return cache[name]


def probe_type(world: World, rname: str, tname: str):
    """Compare warm vs fresh for one type over the battery.  Returns list of (what, warm_outcome, fresh_outcome)."""
    retort, args = world.retorts[rname]
    fresh = world.make_fresh(args)
    tp = POOL[tname]
    diffs = []
    cw, cf = creation(retort.get_loader, tp), creation(fresh.get_loader, tp)
    if cw[0] != cf[0] or (cw[0] == "err" and cw[1] != cf[1]):
        diffs.append((f"get_loader({tname})", cw[:2] if cw[0] == "err" else "ok", cf[:2] if cf[0] == "err" else "ok"))
    elif cw[0] == "ok":
        for d in battery_for(tname):
            ow, of = outcome(cw[1], d), outcome(cf[1], d)
            if ow != of:
                diffs.append((f"load({d!r}, {tname})", ow, of))
    if tname in DUMP_VALUES:
        cw, cf = creation(retort.get_dumper, tp), creation(fresh.get_dumper, tp)
        if cw[0] != cf[0] or (cw[0] == "err" and cw[1] != cf[1]):
            diffs.append((f"get_dumper({tname})", cw[:2] if cw[0] == "err" else "ok", cf[:2] if cf[0] == "err" else "ok"))
        elif cw[0] == "ok":
            ow, of = outcome(cw[1], DUMP_VALUES[tname]()), outcome(cf[1], DUMP_VALUES[tname]())
            if ow != of:
                diffs.append((f"dump({tname})", ow, of))
    return diffs


def _x10(v):
    return v * 10 if isinstance(v, int) else v


CALL_RECIPES = {"none": lambda: None, "int_x10": lambda: [coercer(int, int, _x10)],
                "opt_x10": lambda: [coercer(int, Optional[int], _x10), coercer(int, int, _x10)]}


def probe_conv(world: World, pname: str, module_level: bool, call_recipe: str = "none"):
    s, d = CONV_PAIRS[pname]
    fresh = ConversionRetort()
    kw = {} if call_recipe == "none" else {"recipe": CALL_RECIPES[call_recipe]()}
    if module_level:
        cw = creation(lambda: adaptix.conversion.get_converter(s, d, **kw))
    else:
        cw = creation(lambda: world.warm_conv.get_converter(s, d, **kw))
    cf = creation(lambda: fresh.get_converter(s, d, **kw))
    diffs = []
    if cw[0] != cf[0] or (cw[0] == "err" and cw[1] != cf[1]):
        diffs.append((f"get_converter({pname})", cw[:2] if cw[0] == "err" else "ok", cf[:2] if cf[0] == "err" else "ok"))
    elif cw[0] == "ok":
        v = CONV_VALUES[s.__name__ if s is not A1Twin else "A1Twin"]
        ow, of = outcome(cw[1], v()), outcome(cf[1], v())
        if ow != of:
            diffs.append((f"convert({pname})", ow, of))
    return diffs


def apply_step(world: World, step):  # noqa: C901, PLR0912
    """Execute one step on the warm objects; return the list of (retort name, type name) / conv probes to run."""
    op = step["op"]
    probes = []
    if op in ("load", "dump", "get_loader", "get_dumper"):
        rname = step.get("r", "warm")
        if rname not in world.retorts:
            rname = "warm"
        retort, _ = world.retorts[rname]
        tp = POOL[step["t"]]
        world.requested.append(step["t"])
        try:
            if op == "load":
                bat = battery_for(step["t"])
                retort.load(bat[step["d"] % len(bat)], tp)
            elif op == "dump":
                if step["t"] in DUMP_VALUES:
                    retort.dump(DUMP_VALUES[step["t"]](), tp)
            elif op == "get_loader":
                world.old_loaders.append((rname, step["t"], retort.get_loader(tp)))
            else:
                world.old_dumpers.append((rname, step["t"], retort.get_dumper(tp)))
        except BaseException:  # noqa: BLE001, S110  -- failing requests are part of the history
            pass
        probes.append(("type", rname, step["t"]))
        if step.get("also"):
            probes.append(("type", rname, step["also"]))
    elif op == "module_load":
        tp = POOL[step["t"]]
        world.requested.append(step["t"])
        try:
            bat = battery_for(step["t"])
            adaptix.load(bat[step["d"] % len(bat)], tp)
        except BaseException:  # noqa: BLE001, S110
            pass
        probes.append(("module", step["t"]))
    elif op == "replace":
        name = f"r{len(world.retorts)}"
        base_name = step.get("r", "warm") if step.get("r", "warm") in world.retorts else "warm"
        base, args = world.retorts[base_name]
        new_args = {**args, **step["opts"]}
        # only the options named in the step are passed: replace(strict_coercion=...) alone, replace(debug_trail=...) alone, or both
        kwargs = {}
        if "strict" in step["opts"]:
            kwargs["strict_coercion"] = new_args["strict"]
        if "debug" in step["opts"]:
            kwargs["debug_trail"] = DEBUG[new_args["debug"]]
        world.retorts[name] = (base.replace(**kwargs), new_args)
        probes += [("type", name, step["t"]), ("type", base_name, step["t"])]
    elif op == "extend":
        name = f"r{len(world.retorts)}"
        base_name = step.get("r", "warm") if step.get("r", "warm") in world.retorts else "warm"
        base, args = world.retorts[base_name]
        new_args = {**args, "extended": [*args.get("extended", []), step["recipe"]]}
        world.retorts[name] = (base.extend(recipe=world._ext_providers(step["recipe"])), new_args)
        probes += [("type", name, step["t"]), ("type", base_name, step["t"])]
    elif op == "churn":
        retort, _ = world.retorts["warm"]
        for i in range(step["n"]):
            try:
                retort.get_loader(List[Literal[1000 + step["base"] + i]])  # type: ignore[valid-type]
            except BaseException:  # noqa: BLE001, S110
                pass
        probes.append(("type", "warm", step["t"]))
    elif op in ("get_converter", "convert"):
        s, d = CONV_PAIRS[step["p"]]
        kw = {} if step.get("cr", "none") == "none" else {"recipe": CALL_RECIPES[step["cr"]]()}
        try:
            c = (adaptix.conversion.get_converter if step.get("module") else world.warm_conv.get_converter)(s, d, **kw)
            if op == "convert":
                c(CONV_VALUES[s.__name__ if s is not A1Twin else "A1Twin"]())
        except BaseException:  # noqa: BLE001, S110
            pass
        # probe the same pair with every per-call recipe: a per-call recipe must be honoured whatever was asked before
        for cr in CALL_RECIPES:
            probes.append(("conv", step["p"], bool(step.get("module")), cr))
        if step.get("also"):
            probes.append(("conv", step["also"], bool(step.get("module")), "none"))
    elif op == "call_old":
        pass
    return probes


def run_probes(ctx, world, probes, history):
    for pr in probes:
        if pr[0] == "type":
            diffs = probe_type(world, pr[1], pr[2])
            label = f"{pr[2]}"
        elif pr[0] == "module":
            fresh = Retort()
            tp = POOL[pr[1]]
            diffs = []
            for d in battery_for(pr[1]):
                ow, of = outcome(adaptix.load, d, tp), outcome(fresh.load, d, tp)
                if ow != of:
                    diffs.append((f"adaptix.load({d!r}, {pr[1]})", ow, of))
            label = f"module:{pr[1]}"
        else:
            diffs = probe_conv(world, pr[1], pr[2], pr[3] if len(pr) > 3 else "none")
            label = f"conv:{pr[1]}:{pr[3] if len(pr) > 3 else 'none'}"
        ctx.count("probes")
        for what, ow, of in diffs[:3]:
            prior = sorted({t for t in world.requested[:-1] if GROUP_OF.get(t) == GROUP_OF.get(pr[-1] if pr[0] != "conv" else "")})
            ctx.violation("warm_differs_from_fresh", (label, what.split("(")[0], str(ow[0]) + "/" + str(of[0])),
                          {"init": world.init, "history": list(history)},
                          f"after history {history!r}: {what}: warm -> {ow!r}; fresh -> {of!r}; confusable earlier requests: {prior}")
    # loaders obtained earlier must still answer like a fresh retort built with the arguments of their origin
    for rname, tname, ld in world.old_loaders[-3:]:
        _, args = world.retorts[rname]
        fresh = world.make_fresh(args)
        cf = creation(fresh.get_loader, POOL[tname])
        if cf[0] != "ok":
            continue
        for d in battery_for(tname)[:12]:
            ow, of = outcome(ld, d), outcome(cf[1], d)
            if ow != of:
                ctx.violation("old_loader_changed", (tname, str(ow[0]) + "/" + str(of[0])), {"init": world.init, "history": list(history)},
                              f"after history {history!r}: loader for {tname} obtained earlier: {d!r} -> {ow!r}; fresh -> {of!r}")
                break


def check_case(ctx: runner.Ctx, case):
    world = World(case["init"])
    hist = []
    for step in case["history"]:
        hist.append(step)
        probes = apply_step(world, step)
        run_probes(ctx, world, probes, hist)
    groups = [GROUP_OF.get(t) for t in world.requested]
    confusable_pairs = sum(1 for i, g in enumerate(groups) if g is not None and g in groups[:i] and
                           world.requested[i] not in world.requested[:i])
    ctx.case([case], confusable_pairs >= 1 and len(case["history"]) >= 2,
             sample={"init": case["init"], "history": case["history"][:12], "steps": len(case["history"])},
             labels=[f"steps:{min(len(case['history']) // 10, 6)}0+", f"recipe:{case['init']['recipe']}",
                     *[f"op:{s['op']}" for s in case["history"]], *nest_labels(world),
                     *[f"group:{g}" for g in sorted({g for g in groups if g is not None})][:6]])


# ------------------------------------------------------------------------------------ the state machine
TYPE_NAMES = sorted(POOL)
_CTX: list = []


def st_type_pair():
    """A type name and, often, a confusable partner of it."""
    return st.sampled_from(TYPE_NAMES)


def partner(draw, t):
    g = GROUP_OF.get(t)
    if g is None:
        return None
    others = sorted(CONFUSABLE_GROUPS[g] - {t})
    return draw(st.sampled_from(others)) if others else None


def _st_binding(fam, depth):
    opt = {"recipe": st.sampled_from(sorted(NEST_FLAT)), "debug": st.integers(0, 2)}
    if depth > 0:
        opt["inner"] = st.lists(_st_binding(fam, depth - 1), min_size=1, max_size=1)
    return st.fixed_dictionaries(
        {"to": st.lists(st.sampled_from(CYCLE_FAMILIES[fam]["bindable"]), min_size=1, max_size=2, unique=True)}, optional=opt)


# one or two bindings (each of a family of its own choice), one or two levels of retorts in retorts
ST_NEST = st.lists(st.sampled_from(sorted(CYCLE_FAMILIES)).flatmap(lambda fam: _st_binding(fam, 1)), min_size=1, max_size=2)
CYC_OPS = ["load", "get_loader", "dump", "get_dumper"]


class HistoryMachine(RuleBasedStateMachine):
    def __init__(self):
        super().__init__()
        self.world = None
        self.history = []
        self.init = None

    def ensure(self, data):
        if self.world is None:
            self.init = {"recipe": data.draw(st.sampled_from(sorted(RECIPES))), "strict": data.draw(st.booleans()),
                         "debug": data.draw(st.integers(0, 2))}
            nest = data.draw(st.one_of(st.just(None), st.just(None), st.just(None), ST_NEST))
            if nest:
                self.init["nest"] = nest
            self.world = World(self.init)

    def cycle_families(self):
        """The cycle families some retort of the world has an inner retort for."""
        return sorted({f for _, args in self.world.retorts.values() for n in args_nests(args) for f in nest_families(n)})

    @rule(data=st.data(), op=st.sampled_from(CYC_OPS), d=st.integers(0, 40), with_also=st.booleans())
    def request_cycle(self, data, op, d, with_also):
        """A hint of a cycle family -- of one that crosses a retort boundary in this world if there is any."""
        self.ensure(data)
        fam = data.draw(st.sampled_from(self.cycle_families() or sorted(CYCLE_FAMILIES)))
        types = CYCLE_FAMILIES[fam]["types"]
        step = {"op": op, "t": data.draw(st.sampled_from(types)), "d": d, "r": data.draw(st.sampled_from(sorted(self.world.retorts)))}
        if with_also:
            step["also"] = data.draw(st.sampled_from(types))
        self.do(step)

    def do(self, step):
        self.history.append(step)
        probes = apply_step(self.world, step)
        run_probes(_CTX[0], self.world, probes, self.history)

    @rule(data=st.data(), op=st.sampled_from(["load", "load", "get_loader", "dump", "get_dumper"]), t=st_type_pair(),
          d=st.integers(0, 40), with_partner=st.booleans())
    def request(self, data, op, t, d, with_partner):
        self.ensure(data)
        rname = data.draw(st.sampled_from(sorted(self.world.retorts)))
        fams = self.cycle_families()
        if fams and data.draw(st.integers(0, 2)) == 0:
            # a world with inner retorts spends a third of its plain requests on the cycles that pass through them
            t = data.draw(st.sampled_from(CYCLE_FAMILIES[data.draw(st.sampled_from(fams))]["types"]))
        step = {"op": op, "t": t, "d": d, "r": rname}
        if with_partner:
            p = partner(data.draw, t)
            if p:
                step["also"] = p
        self.do(step)

    @rule(data=st.data(), t=st_type_pair())
    def request_partner_of_previous(self, data, t):
        self.ensure(data)
        prev = [s["t"] for s in self.history if "t" in s]
        if prev:
            p = partner(data.draw, prev[-1])
            t = p or t
        self.do({"op": "load", "t": t, "d": data.draw(st.integers(0, 40)), "r": "warm"})

    @rule(data=st.data(), t=st_type_pair(), d=st.integers(0, 40))
    def module_load(self, data, t, d):
        self.ensure(data)
        self.do({"op": "module_load", "t": t, "d": d})

    @rule(data=st.data(), t=st_type_pair(), strict=st.booleans(), debug=st.integers(0, 2),
          which=st.sampled_from(["both", "strict", "strict", "debug"]))
    def replace(self, data, t, strict, debug, which):
        self.ensure(data)
        if len(self.world.retorts) < 5:
            opts = {"strict": strict, "debug": debug}
            if which == "strict":
                del opts["debug"]
            elif which == "debug":
                del opts["strict"]
            self.do({"op": "replace", "t": t, "opts": opts,
                     "r": data.draw(st.sampled_from(sorted(self.world.retorts)))})

    @rule(data=st.data(), t=st_type_pair(), recipe=st.sampled_from(sorted(RECIPES)))
    def extend(self, data, t, recipe):
        self.ensure(data)
        if len(self.world.retorts) < 5:
            self.do({"op": "extend", "t": t, "recipe": recipe, "r": data.draw(st.sampled_from(sorted(self.world.retorts)))})

    @rule(data=st.data(), t=st_type_pair(), n=st.sampled_from([10, 130, 200]), base=st.integers(0, 5))
    def churn(self, data, t, n, base):
        self.ensure(data)
        self.do({"op": "churn", "t": t, "n": n, "base": base * 1000})

    @rule(data=st.data(), op=st.sampled_from(["get_converter", "convert"]), p=st.sampled_from(sorted(CONV_PAIRS)),
          module=st.booleans(), also=st.one_of(st.none(), st.sampled_from(sorted(CONV_PAIRS))),
          cr=st.sampled_from(["none", "none", "int_x10", "opt_x10"]))
    def conversion(self, data, op, p, module, also, cr):
        self.ensure(data)
        step = {"op": op, "p": p, "module": module, "cr": cr}
        if also:
            step["also"] = also
        self.do(step)

    def teardown(self):
        if self.world is not None and self.history:
            ctx = _CTX[0]
            groups = [GROUP_OF.get(t) for t in self.world.requested]
            confusable = sum(1 for i, g in enumerate(groups) if g is not None and g in groups[:i] and
                             self.world.requested[i] not in self.world.requested[:i])
            ctx.case([self.init, self.history], confusable >= 1 and len(self.history) >= 2,
                     sample={"init": self.init, "history": self.history[:12], "steps": len(self.history)},
                     labels=[f"recipe:{self.init['recipe']}", *[f"op:{s['op']}" for s in self.history], *nest_labels(self.world),
                             *[f"group:{g}" for g in sorted({g for g in groups if g is not None})][:8]])


SCENARIOS = [
    # the failed-request witness of DESIGN.md section 5: a request that fails after caching a closure with an unbound stub
    {"init": {"recipe": "located_unloadable", "strict": True, "debug": 2},
     "history": [{"op": "get_loader", "t": "RNode", "d": 0, "r": "warm"}, {"op": "load", "t": "Wrap", "d": 29, "r": "warm"}]},
    {"init": {"recipe": "located_unloadable", "strict": True, "debug": 0},
     "history": [{"op": "get_dumper", "t": "RNode", "d": 0, "r": "warm"}, {"op": "dump", "t": "Wrap", "d": 0, "r": "warm"}]},
    {"init": {"recipe": "none", "strict": True, "debug": 2},
     "history": [{"op": "load", "t": "Lit01", "d": 1, "r": "warm"}, {"op": "load", "t": "LitFT", "d": 2, "r": "warm"},
                 {"op": "load", "t": "ListLitFT", "d": 9, "r": "warm", "also": "ListLit01"}]},
    {"init": {"recipe": "none", "strict": True, "debug": 2},
     "history": [{"op": "load", "t": "HasUnloadable", "d": 30, "r": "warm"}, {"op": "load", "t": "A1", "d": 20, "r": "warm"},
                 {"op": "churn", "t": "ListInt", "n": 200, "base": 0}, {"op": "load", "t": "listint", "d": 8, "r": "warm"}]},
    # every recipe once with each of its confusable hints requested in both orders (provider objects that remember something
    # about the first class / predicate they served)
    *[{"init": {"recipe": rec, "strict": True, "debug": dbg},
       "history": [{"op": "dump", "t": a, "d": 0, "r": "warm", "also": b}, {"op": "load", "t": b, "d": 0, "r": "warm", "also": a}]}
      for rec, pairs in (("with_property_two_classes", [("PropA", "PropB"), ("PropB", "PropA")]),
                         ("enum_names_multi", [("EnumA", "EnumB"), ("EnumB", "EnumA"), ("EnumModel", "EnumA")]),
                         ("enum_names_field_and_type", [("EnumModel", "EnumB"), ("EnumB", "EnumModel")]),
                         ("omit_default", [("DefF", "Def0"), ("Def0", "DefF"), ("DefT", "Def1"), ("Def1", "DefT"), ("DefF", "Def0f"),
                                           ("Def0f", "Def0")]),
                         ("none", [("DefF", "Def0"), ("Def1", "DefT")]))
      for a, b in pairs for dbg in (0, 2)],
    # replace() with a single option after the parent has served the type
    *[{"init": {"recipe": "none", "strict": False, "debug": 2},
       "history": [{"op": "load", "t": t, "d": 1, "r": "warm"}, {"op": "replace", "t": t, "opts": opts, "r": "warm"}]}
      for t in ("int", "ListStr", "Lit01", "A1") for opts in ({"strict": True}, {"debug": 0})],
]


CYC_OP_PAIRS = [("load", "get_loader"), ("get_loader", "load"), ("dump", "get_dumper"), ("get_dumper", "dump")]


def nested_cycle_cases(full: bool):
    """Exhaustive side table through the same oracle (check_case): every cycle family x every placement of inner retorts (each
    bindable class alone, one inner retort for two classes, every ordered pair class -> class one level deeper) x every ordered
    pair (thorough: and triple) of distinct hints of the family x the facade calls of the history (quick: one pair of calls per
    history, taken in rotation; thorough: all four -- the probes after every step call get_loader / load / get_dumper / dump for
    the hints anyway, so the call only decides which of them comes first).  The order of the requests is the point: a member
    of the cycle before a root and a root before a member, inner-owned before outer-owned and vice versa."""
    cases = []
    for fam in sorted(CYCLE_FAMILIES):
        bindable, types = CYCLE_FAMILIES[fam]["bindable"], CYCLE_FAMILIES[fam]["types"]
        nests = [[{"to": [c]}] for c in bindable]
        nests += [[{"to": [c1], "inner": [{"to": [c2]}]}] for c1 in bindable for c2 in bindable if c1 != c2]
        if len(bindable) >= 2:
            nests.append([{"to": bindable[:2]}])
        orders = [(a, b) for a in types for b in types if a != b]
        if full:
            orders += [(a, b, c) for a in types for b in types for c in types if len({a, b, c}) == 3]
        for nest in nests:
            for order in orders:
                for op1, op2 in (CYC_OP_PAIRS if full else [CYC_OP_PAIRS[len(cases) % 4]]):
                    i = len(cases)
                    hist = [{"op": (op1, op2)[k % 2], "t": t, "d": i + k, "r": "warm"} for k, t in enumerate(order)]
                    hist[-1]["also"] = order[0]
                    cases.append({"init": {"recipe": "none", "strict": bool(i % 2), "debug": i % 3, "nest": nest}, "history": hist})
    return cases


def explore(ctx: runner.Ctx):
    _CTX[:] = [ctx]
    if ctx.shard == 0:
        for sc in SCENARIOS:
            check_case(ctx, sc)
    table = nested_cycle_cases(full=ctx.tier != "quick")
    for i, case in enumerate(table):
        if i % ctx.nshards == ctx.shard:
            check_case(ctx, case)
    if ctx.shard == 0:
        ctx.mark_exhaustive(f"nested retorts x cycle families x request orders: {len(table)} histories")
    n_machines = ctx.budget(120, 10000)
    machine = hypothesis.seed(ctx.seed)(HistoryMachine)
    run_state_machine_as_test(machine, settings=hypothesis.settings(
        max_examples=n_machines, stateful_step_count=40, deadline=None, database=None, derandomize=False,
        report_multiple_bugs=False, phases=[hypothesis.Phase.generate], suppress_health_check=list(hypothesis.HealthCheck)))


RULE = ("cases = generated histories (up to 40 steps) of facade calls on a warm Retort / ConversionRetort / module-level facade "
        "over a pool of ~60 mutually confusable hints, with replace(), extend(), LRU churn and failing requests; after every "
        "step a probe battery of 33 data is compared between the warm object and a fresh equal retort. Recipes may hold inner "
        "retorts bound to model classes (one or two levels); type cycles of five families pass through the inner-owned classes; "
        "an exhaustive side table runs every placement of inner retorts x every order of two (thorough: three) hints of a family "
        "through the same oracle. Non-trivial = the history requests >= 2 distinct hints of one confusable group. "
        "Distinct by (init, history).")

if __name__ == "__main__":
    raise SystemExit(runner.main(
        PROP, explore=explore, check_case=check_case, strategy=None, rule=RULE,
        assumptions=["the same provider objects are given to the warm and to the fresh retort (providers are immutable)",
                     "retorts placed in a recipe are part of the construction: the fresh retort of a probe gets freshly built inner "
                     "retorts, the warm retort keeps the ones it was built with (and clones made by replace/extend share them)",
                     "outcomes are compared as (ok, structural value) or (err, flattened exception classes and trails)"],
    ))
