"""C13 -- A generated converter equals the field-wise construction the linking rules fix.

Generated (pure data): a set of logical models (pairs related by renaming / dropping / adding / nesting fields; dataclass,
attrs, NamedTuple, TypedDict, pydantic, plain __init__ class as destination; generic nested pairs; attrs private attributes /
``alias=`` and pydantic ``Field(alias=)``: constructor parameter spelled unlike the field id), a conversion recipe built from the public providers (link / link_constant / link_function / coercer /
allow_unlinked_optional / forbid_unlinked_optional) with unambiguous predicates, an entry point (get_converter,
impl_converter with a generated stub, convert; module level or ConversionRetort(...).extend(...)), extra parameters
(positional-only / positional / keyword-only, with defaults), a call plan and the values.

Oracle: an independent reference of docs/conversion/tutorial.rst + extended-usage.rst (class ``Ref``):
  * per destination field the first provider in recipe order among link / link_constant / link_function whose
    destination predicate matches (and, for link, whose source predicate matches a candidate), else the same-named
    candidate; candidates: extra parameters right-to-left (top-level fields only), then the fields of the source model
    of the same level; from_param reaches any level; unlinked optional fields take their default only under
    allow_unlinked_optional (first matching policy in recipe order, default forbid);
  * coercion: link(coercer=) first, then user coercers in recipe order, then the structural rules (model, iterable,
    dict, Optional element-wise; same type / Any / subclass / union subset as is);
  * the reference plan is evaluated on the source value and the bound arguments and the destination is constructed
    by the harness through the real class; result compared structurally (exact types);
  * reference says "linkable" => creation must succeed; documented refusals (required field without a source,
    optional field without a source under the forbid policy, parameter used for a nested field without from_param,
    scalar -> other scalar without coercer) => ProviderNotFoundError;
  * impl_converter: inspect.signature, __name__, __doc__ equal the stub's; the call plan (positional / keyword /
    omitted-with-default) is bound with the *stub's* signature and must behave accordingly;
  * get_converter(name=...) sets __name__; the source object and the extra arguments are unchanged afterwards;
  * a call rejected by the stub's signature raises TypeError; link_constant factories are called once per built field.
Details, unspecified zones, findings and sensitivity experiments: /verif/notes/C13.md.
"""
from __future__ import annotations

import collections
import dataclasses
import enum
import inspect
import itertools
import linecache
import typing
import zlib
from decimal import Decimal
from fractions import Fraction

from vkit import env, runner
from vkit.errors import describe, exc_site

env.import_adaptix()

from hypothesis import strategies as st  # noqa: E402

from adaptix import P, ProviderNotFoundError  # noqa: E402
from adaptix import conversion as cv  # noqa: E402
from vkit import codec  # noqa: E402

PROP = "C13"


# =================================================================================== harness-level classes
class Kind(enum.IntEnum):
    A = 0
    B = 1


class Color(enum.Enum):
    RED = "red"
    BLUE = 1


class RefRefuse(Exception):
    """The documented rules give no converter for this configuration."""

    def __init__(self, reason: str, documented: bool):
        super().__init__(reason)
        self.reason = reason
        self.documented = documented


class RefUnspec(Exception):
    """The configuration / input lies in a zone the docs leave open."""


class ConstructorRejects(Exception):
    """The destination class raised while the harness constructed the expected object."""

    def __init__(self, error: BaseException):
        super().__init__(repr(error))
        self.error = error


SCALARS = {"int": int, "str": str, "bool": bool, "float": float, "bytes": bytes, "dec": Decimal, "enum": Kind}
ITER = {"list": list, "tuple": tuple, "set": set, "deque": collections.deque}
FACTORIES = {"list": list, "dict": dict, "tuple": tuple, "str": str, "set": set, "bytes": bytes}

SRC_KINDS = ["dataclass", "dataclass", "attrs", "namedtuple", "typeddict", "pydantic"]
DST_KINDS = ["dataclass", "dataclass", "attrs", "namedtuple", "typeddict", "pydantic", "plain"]
GENERIC_KINDS = ["dataclass", "dataclass", "attrs", "namedtuple", "typeddict"]

FIELD_NAMES = ["a", "b", "c", "d", "e", "x", "y", "id", "name", "title", "value", "data", "ctx", "src", "r", "n",
               "coercer", "key", "dst", "item"]
PARAM_NAMES = ["p", "q", "k", "extra", "rating", "ctx", "data", "coercer", "dst", "page_count"]
MODEL_NAMES = ["Book", "BookDTO", "Person", "PersonDTO", "Item", "ItemOut", "Src", "Dst", "data", "ctx", "Coercer"]
STUB_NAMES = ["convert", "conv", "to_dto", "make", "f", "data", "ctx", "src", "convert_book_to_dto", "func_0", "coercer",
              "_stub_function", "_closure_signature", "converter", "default_p"]
FIRST_NAMES = ["src", "s", "book", "data", "ctx", "coercer", "obj", "model"]
FN_NAMES = ["fn", "make_value", "data", "ctx", "coercer", "list", "id", "constant_0", "accessor_0", "func_0",
            "convert"]

# explicit constructor aliases (attrs ``alias=``, pydantic ``Field(alias=)``); field / parameter names of the case are
# added to the pool so that an alias may equal the id of another (itself renamed) field or the name of a parameter
ALIAS_NAMES = ["remark", "alias", "kw", "x_", "arg0", "note", "item_id", "kwargs"]

_uid = itertools.count()


# =================================================================================== values
def bv(v, E):
    """vspec -> python object (codec.build plus a few constant-only shapes)."""
    if isinstance(v, dict):
        tag = v.get("$")
        if tag == "range3":
            return range(*v["v"])
        if tag == "slice":
            return slice(*v["v"])
        if tag == "ellipsis":
            return Ellipsis
        if tag == "notimpl":
            return NotImplemented
        if tag == "object":
            return object()
    return codec.build(v, E)


def contains_single_tuple(v) -> bool:
    if isinstance(v, list):
        return any(contains_single_tuple(x) for x in v)
    if isinstance(v, dict):
        if v.get("$") == "t" and len(v["v"]) == 1:
            return True
        return any(contains_single_tuple(x) for x in v.values())
    return False


# values whose literal rendering is delicate (DESIGN.md section 5: get_literal_expr) -- link_constant values
CONST_POOL = [
    None, True, False, 0, 1, -1, 2, 10 ** 20, -5, 1.0, 0.0, -0.0, 1.5, 1e16, 1e-7, "", "a", "it's", 'q"', "é\ud7ff",
    "\t", "\r", "\\", '"""', "'''", "\\n", " lead", "{x}", "%s", "\x00", "\u2028",
    # strings with a line feed (open finding C13-newline-str-constant: excluded unless the case probes)
    "\n", "line 1\nline 2", "\r\n", "tail\n",
    {"$": "float", "s": "nan"}, {"$": "float", "s": "inf"}, {"$": "float", "s": "-inf"},
    {"$": "dec", "s": "1"}, {"$": "dec", "s": "0"}, {"$": "dec", "s": "NaN"}, {"$": "frac", "s": "1"},
    {"$": "frac", "s": "1/3"}, {"$": "cx", "r": "1.0", "i": "0.0"},
    {"$": "enum", "c": "Kind", "n": "A"}, {"$": "enum", "c": "Kind", "n": "B"}, {"$": "enum", "c": "Color", "n": "RED"},
    {"$": "enum", "c": "Color", "n": "BLUE"},
    {"$": "bytes", "h": ""}, {"$": "bytes", "h": "00ff27"}, {"$": "bytearray", "h": "0102"},
    [], [1, 2], [[1], []], [{"$": "dec", "s": "1"}], [True, 1, 1.0],
    {"$": "t", "v": []}, {"$": "t", "v": [1, 2]}, {"$": "t", "v": [1, [2], "x"]}, {"$": "t", "v": [None, True]},
    {"$": "d", "v": []}, {"$": "d", "v": [["k", 1]]}, {"$": "d", "v": [[1, [1, 2]], [True, "x"]]},
    {"$": "d", "v": [[{"$": "t", "v": [1, 2]}, 0]]},
    {"$": "set", "v": []}, {"$": "set", "v": [1, 2]}, {"$": "set", "v": [1, "a"]}, {"$": "fset", "v": []},
    {"$": "fset", "v": [3]}, {"$": "range3", "v": [0, 5, 1]}, {"$": "range3", "v": [1, 10, 3]},
    {"$": "slice", "v": [1, 2, None]}, {"$": "slice", "v": [None, None, -1]}, {"$": "ellipsis"}, {"$": "notimpl"},
    {"$": "object"}, {"$": "strsub", "s": "a"}, {"$": "intsub", "v": 1}, {"$": "type", "n": "int"},
    {"$": "type", "n": "list"},
    # single-element tuples (were rendered as '(1)' until /repo commit 9eebc64)
    {"$": "t", "v": [1]}, {"$": "t", "v": ["a"]}, {"$": "t", "v": [{"$": "t", "v": [1]}]}, [{"$": "t", "v": [0]}],
    {"$": "d", "v": [["k", {"$": "t", "v": [None]}]]}, {"$": "t", "v": [[1, 2]]},
]
CONST_RISKY = [c for c in CONST_POOL if isinstance(c, str) and "\n" in c]
CONST_SAFE = [c for c in CONST_POOL if c not in CONST_RISKY]

# stub parameter defaults by parameter type: literals, and values whose repr is no expression for them (enum members,
# Decimal, nan, objects: rendered with repr until /repo commit 798f1cf -- kept as regression coverage)
DEFAULTS = {
    "int": [0, 1, -7, 10 ** 12, {"$": "enum", "c": "Kind", "n": "B"}, {"$": "intsub", "v": 5}],
    "str": ["", "dflt", "it's", {"$": "strsub", "s": "sub"}],
    "bool": [True, False],
    "float": [0.5, -0.0, 1e16, {"$": "float", "s": "inf"}, {"$": "float", "s": "nan"}],
    "bytes": [{"$": "bytes", "h": "6162"}],
    "dec": [{"$": "dec", "s": "1"}, {"$": "dec", "s": "2.50"}],
    "enum": [{"$": "enum", "c": "Kind", "n": "B"}, {"$": "enum", "c": "Kind", "n": "A"}],
    "any": [None, 3, "x", [1, 2], {"$": "t", "v": [1, "a"]}, {"$": "d", "v": [["k", 1]]}, {"$": "ellipsis"},
            {"$": "enum", "c": "Color", "n": "RED"}, {"$": "frac", "s": "1/3"}, {"$": "object"}, {"$": "strsub", "s": "a"},
            {"$": "type", "n": "int"}, {"$": "dec", "s": "1"},
            {"$": "t", "v": [1]}, {"$": "t", "v": [{"$": "t", "v": ["a"]}]}],
    "opt": [None],
    "list": [[]],
}


# =================================================================================== class construction
class CEnv(codec.Env):
    def __init__(self, case):
        super().__init__()
        self.case = case
        self.models = case["models"]
        self.by_class: dict[type, int] = {}
        self.classes["Kind"] = Kind
        self.classes["Color"] = Color
        self.uid = next(_uid)

    def cls(self, idx: int):
        key = f"M{idx}"
        if key not in self.classes:
            build_model(self, idx)
        return self.classes[key]


def subst(t, arg):
    """Replace the type variable ["tv"] of a generic model's field type by the type argument."""
    if arg is None:
        return t
    if t[0] == "tv":
        return arg
    if t[0] in ("opt", "list", "tuple", "set", "deque"):
        return [t[0], subst(t[1], arg)]
    if t[0] == "dict":
        return ["dict", subst(t[1], arg), subst(t[2], arg)]
    if t[0] == "model" and len(t) > 2:  # noqa: PLR2004
        return ["model", t[1], subst(t[2], arg)]
    return t


def targ(t):
    return t[2] if len(t) > 2 else None  # noqa: PLR2004


def build_hint(t, E: CEnv, tv=None):  # noqa: PLR0911
    tag = t[0]
    if tag in SCALARS:
        return SCALARS[tag]
    if tag == "tv":
        return tv
    if tag == "any":
        return typing.Any
    if tag == "none":
        return type(None)
    if tag == "opt":
        return typing.Optional[build_hint(t[1], E, tv)]
    if tag == "union":
        return typing.Union[tuple(build_hint(x, E, tv) for x in t[1])]
    if tag == "list":
        return typing.List[build_hint(t[1], E, tv)]
    if tag == "tuple":
        return typing.Tuple[build_hint(t[1], E, tv), ...]
    if tag == "set":
        return typing.Set[build_hint(t[1], E, tv)]
    if tag == "deque":
        return typing.Deque[build_hint(t[1], E, tv)]
    if tag == "dict":
        return typing.Dict[build_hint(t[1], E, tv), build_hint(t[2], E, tv)]
    if tag == "model":
        return E.cls(t[1]) if targ(t) is None else E.cls(t[1])[build_hint(t[2], E, tv)]
    raise ValueError(t)


def ttext(t, E=None) -> str:
    tag = t[0]
    if tag in ("opt", "list", "tuple", "set", "deque"):
        return f"{tag}[{ttext(t[1])}]"
    if tag == "union":
        return "union[" + ",".join(ttext(x) for x in t[1]) + "]"
    if tag == "dict":
        return f"dict[{ttext(t[1])},{ttext(t[2])}]"
    if tag == "model":
        return f"M{t[1]}" + (f"[{ttext(t[2])}]" if targ(t) is not None else "")
    return tag


def _sig_text(params) -> str:
    """params: list of (text, kind) with kind in po/pk/ko, already in a valid order."""
    out = []
    seen_po = any(k == "po" for _, k in params)
    star = False
    for i, (text, k) in enumerate(params):
        if k == "ko" and not star:
            out.append("*")
            star = True
        out.append(text)
        if k == "po" and seen_po and (i + 1 == len(params) or params[i + 1][1] != "po"):
            out.append("/")
    return ", ".join(out)


def is_private(name: str) -> bool:
    return name.startswith("_") and not name.startswith("__")


def param_name(ms, f) -> str:
    """Name of the constructor parameter that fills field ``f`` of model spec ``ms``.  It differs from the field id
    (``f["n"]``, the attribute name) for the model kinds that rename parameters: attrs strips the leading underscore
    of a private attribute unless ``alias=`` says otherwise; pydantic takes a field with an alias by the alias.
    Harness plumbing only (how the real class wants to be called) -- the linking reference never looks at it."""
    if ms["kind"] in ("attrs", "pydantic") and f.get("al"):
        return f["al"]
    if ms["kind"] == "attrs" and is_private(f["n"]):
        return f["n"][1:]
    return f["n"]


def rename_kind(ms, f):
    """None, or how the parameter of the field comes to differ from the field id."""
    if ms["kind"] == "attrs" and f.get("al"):
        return "attrs_private_alias" if is_private(f["n"]) else "attrs_alias"
    if ms["kind"] == "attrs" and is_private(f["n"]):
        return "attrs_private"
    if ms["kind"] == "pydantic" and f.get("al"):
        return "pydantic_" + f.get("alk", "alias") + ("_populate_by_name" if ms.get("pbn") else "")
    return None


def build_model(E: CEnv, idx: int):  # noqa: C901, PLR0912, PLR0915
    ms = E.models[idx]
    kind = ms["kind"]
    cname = f"{ms['name']}_{idx}_{E.uid}"
    ns: dict = {"__name__": "c13_dyn", "dataclass": dataclasses.dataclass, "field": dataclasses.field,
                "NamedTuple": typing.NamedTuple, "TypedDict": typing.TypedDict, "NotRequired": typing.NotRequired}
    fields = ms["fields"]
    tv = None
    gen = ""
    if ms.get("generic"):
        tv = ns["TV"] = typing.TypeVar(f"T{idx}")
        ns["Generic"] = typing.Generic
        gen = "Generic[TV]"
    for i, f in enumerate(fields):
        ns[f"T{i}"] = build_hint(f["t"], E, tv)
        d = f.get("d")
        if d is not None and d[0] == "v":
            ns[f"D{i}"] = bv(d[1], E)
        elif d is not None:
            ns[f"F{i}"] = FACTORIES[d[1]]
    lines = []
    if kind == "dataclass":
        lines += ["@dataclass", f"class {cname}({gen}):"]
        for i, f in enumerate(fields):
            d, kw = f.get("d"), ", kw_only=True" if f.get("kw") else ""
            if d is None:
                lines.append(f"    {f['n']}: T{i}" + (" = field(kw_only=True)" if kw else ""))
            elif d[0] == "v":
                lines.append(f"    {f['n']}: T{i} = field(default=D{i}{kw})")
            else:
                lines.append(f"    {f['n']}: T{i} = field(default_factory=F{i}{kw})")
    elif kind == "attrs":
        import attrs  # noqa: PLC0415
        ns["attrs"] = attrs
        lines += ["@attrs.define", f"class {cname}({gen}):"]
        for i, f in enumerate(fields):
            d = f.get("d")
            opts = [] if d is None else [f"default=D{i}"] if d[0] == "v" else [f"factory=F{i}"]
            if f.get("kw"):
                opts.append("kw_only=True")
            if f.get("al"):
                opts.append(f"alias={f['al']!r}")
            lines.append(f"    {f['n']}: T{i}" + (f" = attrs.field({', '.join(opts)})" if opts else ""))
    elif kind == "namedtuple":
        lines.append(f"class {cname}(NamedTuple{', ' + gen if gen else ''}):")
        for i, f in enumerate(fields):
            d = f.get("d")
            if d is None:
                lines.append(f"    {f['n']}: T{i}")
            elif d[0] == "v":
                lines.append(f"    {f['n']}: T{i} = D{i}")
            else:
                lines.append(f"    {f['n']}: T{i} = F{i}()")
    elif kind == "typeddict":
        lines.append(f"class {cname}(TypedDict{', ' + gen if gen else ''}):")
        for i, f in enumerate(fields):
            lines.append(f"    {f['n']}: T{i}" if f.get("d") is None else f"    {f['n']}: NotRequired[T{i}]")
    elif kind == "pydantic":
        import pydantic  # noqa: PLC0415
        ns["pydantic"] = pydantic
        lines.append(f"class {cname}(pydantic.BaseModel):")
        lines.append("    model_config = pydantic.ConfigDict(arbitrary_types_allowed=True"
                     + (", populate_by_name=True" if ms.get("pbn") else "") + ")")
        for i, f in enumerate(fields):
            d = f.get("d")
            opts = [] if d is None else [f"default=D{i}"] if d[0] == "v" else [f"default_factory=F{i}"]
            if f.get("al"):
                how = f.get("alk", "alias")
                opts.append(f"alias={f['al']!r}" if how == "alias" else f"validation_alias={f['al']!r}"
                            if how == "validation_alias" else
                            f"validation_alias=pydantic.AliasChoices({f['al']!r}, {'zz_' + f['al']!r})")
            if f.get("al") or (d is not None and d[0] != "v"):
                lines.append(f"    {f['n']}: T{i} = pydantic.Field({', '.join(opts)})")
            else:
                lines.append(f"    {f['n']}: T{i}" + ("" if d is None else f" = D{i}"))
    elif kind == "plain":
        params = []
        for i, f in enumerate(fields):
            d = f.get("d")
            text = f"{f['n']}: T{i}" + ("" if d is None else f" = D{i}" if d[0] == "v" else f" = F{i}()")
            params.append((text, f.get("pk", "pk")))
        lines.append(f"class {cname}:")
        lines.append(f"    def __init__(self, {_sig_text(params)}):")
        for f in fields:
            lines.append(f"        self.{f['n']} = {f['n']}")
        if not fields:
            lines.append("        pass")
    else:
        raise ValueError(kind)
    if not fields and kind != "plain":
        lines.append("    pass")
    src = "\n".join(lines) + "\n"
    exec(compile(src, f"<c13 model {cname}>", "exec", dont_inherit=True), ns)  # noqa: S102
    cls = ns[cname]
    if kind == "attrs":   # harness self-check: the real class takes the parameters the spec says (crash = harness bug)
        real = [(a.name, a.alias) for a in ns["attrs"].fields(cls)]
        assert real == [(f["n"], param_name(ms, f)) for f in fields], (real, fields)
    E.classes[f"M{idx}"] = cls
    E.by_class[cls] = idx
    E.kinds[f"M{idx}"] = kind
    return cls


def construct(E: CEnv, idx: int, kwargs: dict):
    """The harness-side construction of a destination (real class, given fields only)."""
    ms = E.models[idx]
    cls = E.cls(idx)
    if ms["kind"] == "plain":
        args, kw = [], {}
        for f in ms["fields"]:
            if f["n"] not in kwargs:
                continue
            if f.get("pk") == "po":
                args.append(kwargs[f["n"]])
            else:
                kw[f["n"]] = kwargs[f["n"]]
        return cls(*args, **kw)
    if ms["kind"] in ("attrs", "pydantic"):   # kinds whose constructor parameters may be spelled unlike the fields
        return cls(**{param_name(ms, f): kwargs[f["n"]] for f in ms["fields"] if f["n"] in kwargs})
    return cls(**kwargs)


_MISSING = ("<missing>",)


def canon(o, E: CEnv):  # noqa: C901, PLR0911, PLR0912
    """Plain, comparable image of a value: exact types, NaN-safe, order-insensitive for sets and dicts."""
    if o is None or type(o) in (bool, int, str, bytes):
        return (type(o).__name__, o)
    if type(o) is float:
        return ("float", repr(o))
    if isinstance(o, enum.Enum):
        return ("enum", type(o).__name__, o.name)
    if type(o) in (Decimal, Fraction, complex, range, slice, bytearray):
        return (type(o).__name__, repr(o))
    if type(o) in (list, tuple, collections.deque):
        return (type(o).__name__, [canon(x, E) for x in o])
    if type(o) in (set, frozenset):
        return (type(o).__name__, sorted((canon(x, E) for x in o), key=repr))
    if type(o) is dict:
        return ("dict", sorted(([canon(k, E), canon(v, E)] for k, v in o.items()), key=repr))
    idx = E.by_class.get(type(o))
    if idx is not None:
        return ("model", idx, [(f["n"], canon(getattr(o, f["n"], _MISSING), E)) for f in E.models[idx]["fields"]])
    if o is Ellipsis or o is NotImplemented or isinstance(o, type):
        return ("singleton", repr(o))
    if isinstance(o, (str, int)):
        return (type(o).__name__, repr(o))
    return ("object", type(o).__qualname__, id(o))


def image(o, t, E: CEnv):
    """``canon`` directed by the destination type spec, so that TypedDict results (plain dicts) are seen as models."""
    tag = t[0]
    if tag == "model":
        ms = E.models[t[1]]
        a = targ(t)
        if ms["kind"] == "typeddict" and type(o) is dict:
            known = {f["n"] for f in ms["fields"]}
            return ("model", t[1], [(f["n"], image(o[f["n"]], subst(f["t"], a), E) if f["n"] in o else ("absent",))
                                    for f in ms["fields"]]
                    + [("<extra keys>", canon({k: v for k, v in o.items() if k not in known}, E))])
        if E.by_class.get(type(o)) == t[1]:
            return ("model", t[1], [(f["n"], image(getattr(o, f["n"], _MISSING), subst(f["t"], a), E))
                                    for f in ms["fields"]])
    elif tag == "opt" and o is not None:
        return image(o, t[1], E)
    elif tag in ("list", "tuple", "deque") and type(o) is ITER[tag]:
        return (type(o).__name__, [image(x, t[1], E) for x in o])
    elif tag == "dict" and type(o) is dict:
        return ("dict", sorted(([canon(k, E), image(v, t[2], E)] for k, v in o.items()), key=repr))
    return canon(o, E)


def first_diff(a, b, owner=None):
    """(model idx, field, sub-image of a, sub-image of b) for the innermost model field containing the first difference."""
    if a == b:
        return None
    if isinstance(a, tuple) and isinstance(b, tuple) and a[:1] == b[:1]:
        if a[0] == "model" and a[1] == b[1]:
            for (fn, fa), (_, fb) in zip(a[2], b[2]):
                d = first_diff(fa, fb, (a[1], fn, fa, fb))
                if d is not None:
                    return d
        elif a[0] in ("list", "tuple", "deque") and len(a[1]) == len(b[1]):
            for x, y in zip(a[1], b[1]):
                d = first_diff(x, y, owner)
                if d is not None:
                    return d
        elif a[0] == "dict" and len(a[1]) == len(b[1]):
            for (ka, va), (kb, vb) in zip(a[1], b[1]):
                if ka == kb:
                    d = first_diff(va, vb, owner)
                    if d is not None:
                        return d
    return owner or ("?", "?", a, b)


def image_has_single_tuple(c) -> bool:
    if isinstance(c, tuple) and len(c) == 2 and c[0] == "tuple" and isinstance(c[1], list) and len(c[1]) == 1:  # noqa: PLR2004
        return True
    if isinstance(c, (tuple, list)):
        return any(image_has_single_tuple(x) for x in c)
    return False


def digest(x, E) -> int:
    return zlib.crc32(repr(canon(x, E)).encode("utf-8", "backslashreplace")) % 99991


def cast_to(to: str, tag: int, x, E):  # noqa: PLR0911
    """Deterministic, input-dependent value of scalar type ``to`` (makes every application of a user function visible)."""
    d = digest(x, E)
    if to == "int":
        return tag * 100000 + d
    if to == "str":
        return f"c{tag}:{d}"
    if to == "float":
        return float(tag * 100000 + d) + 0.25
    if to == "bytes":
        return b"c%d:%d" % (tag, d)
    if to == "bool":
        return bool((d + tag) & 1)
    if to == "dec":
        return Decimal(tag * 100000 + d)
    if to == "enum":
        return Kind((d + tag) & 1)
    return ("raw", tag, canon(x, E))


# =================================================================================== recipe objects
def build_pred(p, E: CEnv):  # noqa: PLR0911
    k = p[0]
    if k == "S":
        return p[1]
    if k == "PN":
        return getattr(P, p[1])
    if k == "PF":
        return getattr(P[E.cls(p[1])], p[2])
    if k == "FP":
        return cv.from_param(p[1])
    if k == "OR":
        out = build_pred(p[1][0], E)
        if isinstance(out, str):
            out = getattr(P, out)
        for q in p[1][1:]:
            nxt = build_pred(q, E)
            out = out | (getattr(P, nxt) if isinstance(nxt, str) else nxt)
        return out
    if k == "T":
        return build_hint(p[1], E)
    if k == "ANY":
        return P.ANY
    raise ValueError(p)


def make_one_arg(spec, E):
    to, tag = spec["to"], spec["tag"]

    def c13_coercer(x):
        return cast_to(to, tag, x, E)
    c13_coercer.__name__ = spec.get("name", "c13_coercer")
    if spec.get("lam"):
        return lambda x: cast_to(to, tag, x, E)
    return c13_coercer


def make_link_function(spec, E: CEnv):
    """def name(m, p1: A0, p2, *, f1: B0): return cast(to, tag, (pos..., kw...))"""
    to, tag = spec["to"], spec["tag"]
    ns = {"_ret": lambda pos, kw: cast_to(to, tag, ("fn", pos, kw), E)}
    pos = (["m"] if spec["model"] else []) + [n for n, _ in spec["ctx"]]
    kw = [n for n, _ in spec["kw"]]
    body = "_ret((" + "".join(f"{n}, " for n in pos) + "), (" + "".join(f"{n}, " for n in kw) + "))"
    if spec.get("lam"):
        sig = ", ".join(pos + (["*"] + kw if kw else []))
        return eval(f"lambda {sig}: {body}", ns)  # noqa: S307
    parts = ["m"] if spec["model"] else []
    for i, (n, t) in enumerate(spec["ctx"]):
        if t is not None:
            ns[f"A{i}"] = build_hint(t, E)
        parts.append(n if t is None else f"{n}: A{i}")
    if kw:
        parts.append("*")
    for i, (n, t) in enumerate(spec["kw"]):
        if t is not None:
            ns[f"B{i}"] = build_hint(t, E)
        parts.append(n if t is None else f"{n}: B{i}")
    src = f"def {spec['name']}({', '.join(parts)}):\n    return {body}\n"
    exec(compile(src, f"<c13 link function {spec['name']}>", "exec", dont_inherit=True), ns)  # noqa: S102
    return ns[spec["name"]]


class Counting:
    """Zero-argument factory with a visible result."""

    def __init__(self, tag):
        self.tag = tag
        self.calls = 0

    def __call__(self):
        self.calls += 1
        return ["made", self.tag]


def build_recipe(recipe, E: CEnv):
    """-> (providers, callables): callables[i] is the python function behind item i (coercer / function / factory)."""
    provs, fns = [], {}
    for i, it in enumerate(recipe):
        k = it["k"]
        if k == "link":
            co = None
            if it.get("co") is not None:
                co = fns[i] = make_one_arg(it["co"], E)
            provs.append(cv.link(build_pred(it["src"], E), build_pred(it["dst"], E), coercer=co)
                         if co is not None else cv.link(build_pred(it["src"], E), build_pred(it["dst"], E)))
        elif k == "const":
            if "factory" in it:
                f = it["factory"]
                fns[i] = Counting(int(f[3:])) if f.startswith("mk:") else FACTORIES[f]
                provs.append(cv.link_constant(build_pred(it["dst"], E), factory=fns[i]))
            else:
                fns[i] = bv(it["value"], E)
                provs.append(cv.link_constant(build_pred(it["dst"], E), value=fns[i]))
        elif k == "func":
            fns[i] = make_link_function(it["fn"], E)
            provs.append(cv.link_function(fns[i], build_pred(it["dst"], E)))
        elif k == "coercer":
            fns[i] = make_one_arg(it["fn"], E)
            provs.append(cv.coercer(build_pred(it["src"], E), build_pred(it["dst"], E), fns[i]))
        elif k in ("allow", "forbid"):
            f = cv.allow_unlinked_optional if k == "allow" else cv.forbid_unlinked_optional
            provs.append(f(*[build_pred(p, E) for p in it["preds"]]))
        else:
            raise ValueError(k)
    return provs, fns


# =================================================================================== the reference
class Ref:
    """Independent statement of the documented linking and coercion rules.  ``plan()`` is static (what adaptix must
    decide at creation time), the returned closure computes the expected destination from (source, arguments)."""

    def __init__(self, E: CEnv, case, fns, params, first_name):
        self.E = E
        self.models = case["models"]
        self.recipe = case["recipe"]
        self.fns = fns
        self.params = params            # [{"name", "t"}] extra parameters, left to right
        self.first = first_name
        self.modes: dict = {}           # (dst model idx, field) -> mode label
        self.labels: set = set()
        self.risks: set = set()         # situations that belong to a recorded open finding

    # ---- predicates on location stacks; a loc is (kind, name, type spec), kind in root/param/field/generic/funcparam
    def match(self, p, stack) -> bool:  # noqa: PLR0911
        k, last = p[0], stack[-1]
        if k in ("S", "PN"):
            return last[0] in ("param", "field", "funcparam") and last[1] == p[1]
        if k == "PF":
            return (last[0] in ("field", "funcparam") and last[1] == p[2] and len(stack) >= 2  # noqa: PLR2004
                    and stack[-2][2][:2] == ["model", p[1]])
        if k == "FP":
            return len(stack) == 1 and last[0] == "param" and last[1] == p[1]
        if k == "OR":
            return any(self.match(q, stack) for q in p[1])
        if k == "T":
            return last[2] == p[1]
        if k == "ANY":
            return True
        raise ValueError(p)

    # ---- coercion
    def coercer(self, S, D, sst, dst, alt_dst=None):  # noqa: C901, PLR0911, PLR0912
        hits = []
        for i, it in enumerate(self.recipe):
            if it["k"] != "coercer" or not self.match(it["src"], sst):
                continue
            hit = self.match(it["dst"], dst)
            if alt_dst is not None and hit != self.match(it["dst"], alt_dst):
                # where a link_function parameter "lives" (below the destination field or directly below the
                # destination model) is not documented; a predicate that tells the two apart is not asserted
                raise RefUnspec("coercer predicate against the location of a link_function parameter")
            if hit:
                hits.append((i, it))
        if len(hits) > 1:
            self.labels.add("coerce:first_of_several_user_coercers")
            # open finding C13-notrequired-hides-type-predicate: the winner is found through a type predicate on a
            # NotRequired TypedDict field while a later coercer is found through a field predicate
            w = hits[0][1]
            for side, stack in (("src", sst), ("dst", dst)):
                if len(stack[-1]) > 3 and stack[-1][3] and w[side][0] == "T" \
                        and any(h[side][0] != "T" for _, h in hits[1:]):  # noqa: PLR2004
                    self.risks.add("notrequired_type_predicate")
        if hits:
            i, it = hits[0]
            fn = self.fns[i]
            self.labels.add("coerce:user_" + ("type" if it["src"][0] == "T" else "field"))
            return lambda v, ctx: fn(v)
        sk, dk = S[0], D[0]
        if sk == "model" and dk == "model":
            if S[1] == D[1]:
                raise RefUnspec("same model class on both sides: 'same type' and 'model' rules overlap")
            self.labels.add("coerce:model")
            if targ(S) is not None or targ(D) is not None:
                self.labels.add("coerce:generic_model")
            return self.model_plan(S[1], D[1], sst, dst, targ(S), targ(D))
        if sk in ITER and dk in ITER:
            elem = self.coercer(S[1], D[1], [*sst, ("generic", 0, S[1])], [*dst, ("generic", 0, D[1])])
            factory = ITER[dk]
            self.labels.add("coerce:iterable")
            return lambda v, ctx: factory(elem(x, ctx) for x in v)
        if sk == "dict" and dk == "dict":
            kc = self.coercer(S[1], D[1], [*sst, ("generic", 0, S[1])], [*dst, ("generic", 0, D[1])])
            vc = self.coercer(S[2], D[2], [*sst, ("generic", 1, S[2])], [*dst, ("generic", 1, D[2])])
            self.labels.add("coerce:dict")
            return lambda v, ctx: {kc(k, ctx): vc(x, ctx) for k, x in v.items()}
        if sk == "opt" and dk == "opt":
            if S[1][0] in ("union", "opt", "none") or D[1][0] in ("union", "opt", "none"):
                raise RefUnspec("Optional of a union")
            inner = self.coercer(S[1], D[1], [*sst, ("generic", 0, S[1])], [*dst, ("generic", 0, D[1])])
            self.labels.add("coerce:optional")
            return lambda v, ctx: None if v is None else inner(v, ctx)
        if S == D:
            self.labels.add("coerce:same")
            return lambda v, ctx: v
        if dk == "any":
            self.labels.add("coerce:any")
            return lambda v, ctx: v
        if dk == "union":
            if any(m[0] in ("none", "opt") for m in D[1]) or sk == "opt":
                raise RefUnspec("union with None")
            if sk == "union" and all(m in D[1] for m in S[1]):
                self.labels.add("coerce:union_subset")
                return lambda v, ctx: v
            if sk != "union" and S in D[1]:
                raise RefUnspec("single type into a union (docs speak of a source *union*)")
        if S == ["bool"] and D == ["int"]:
            self.labels.add("coerce:subclass")
            return lambda v, ctx: v
        if S == ["enum"] and D == ["int"]:
            self.labels.add("coerce:subclass")
            return lambda v, ctx: v
        raise RefRefuse(f"no coercion {ttext(S)} -> {ttext(D)}", documented=sk in SCALARS and dk in SCALARS)

    # ---- linking
    def policy_allows(self, gst) -> bool:
        for it in self.recipe:
            if it["k"] in ("allow", "forbid") and (not it["preds"] or any(self.match(p, gst) for p in it["preds"])):
                return it["k"] == "allow"
        return False

    def model_plan(self, smi, dmi, sst, dst, sarg=None, darg=None):  # noqa: C901, PLR0912, PLR0915
        S, D = self.models[smi], self.models[dmi]
        # generic models: the fields carry the substituted types ("conversion like top-level models" of G[X] -> H[Y])
        S = {**S, "fields": [{**f, "t": subst(f["t"], sarg)} for f in S["fields"]]}
        D = {**D, "fields": [{**f, "t": subst(f["t"], darg)} for f in D["fields"]]}
        top = len(dst) == 1
        E = self.E
        plans = []
        s_nr = {f["n"]: S["kind"] == "typeddict" and f.get("d") is not None for f in S["fields"]}
        for g in D["fields"]:
            gst = [*dst, ("field", g["n"], g["t"], D["kind"] == "typeddict" and g.get("d") is not None)]
            found = None
            n_matching = 0
            for i, it in enumerate(self.recipe):
                k = it["k"]
                if k not in ("link", "const", "func") or not self.match(it["dst"], gst):
                    continue
                if k == "link":
                    fm = [f for f in S["fields"] if self.match(it["src"], [*sst, ("field", f["n"], f["t"])])]
                    pm = [p for p in reversed(self.params) if self.match(it["src"], [("param", p["name"], p["t"])])]
                    if fm and pm:
                        raise RefUnspec("source predicate matches a field and a parameter")
                    if len(fm) > 1:
                        raise RefUnspec("source predicate matches several fields")
                    if not fm and not pm:
                        self.labels.add("link:dead_source_skipped")
                        continue
                    if found is None:
                        found = ("field", fm[0], i) if fm else ("param", pm[0], i)
                        if len(pm) > 1:
                            self.labels.add("link:rightmost_of_several_params")
                elif found is None:
                    found = (k, None, i)
                n_matching += 1
            if n_matching > 1:
                self.labels.add("link:first_of_several_matching")
            mode = None
            if found is None:
                pm = [p for p in reversed(self.params) if p["name"] == g["n"]] if top else []
                fm = [f for f in S["fields"] if f["n"] == g["n"]]
                if pm:
                    found, mode = ("param", pm[0], None), "name:param_over_field" if fm else "name:param"
                elif fm:
                    found = ("field", fm[0], None)
                    mode = "name:field"
                    if not top and any(p["name"] == g["n"] for p in self.params):
                        mode = "name:field_nested_ignores_param"
            if found is None:
                required = g.get("d") is None
                if required:
                    if not top and any(p["name"] == g["n"] for p in self.params):
                        raise RefRefuse(f"M{dmi}.{g['n']}: parameters are matched only for top-level fields", True)
                    raise RefRefuse(f"M{dmi}.{g['n']}: required field without source", True)
                if not self.policy_allows(gst):
                    raise RefRefuse(f"M{dmi}.{g['n']}: unlinked optional field under forbid policy", True)
                self.modes[(dmi, g["n"])] = "skip:default"
                self.labels.add("mode:skip:default")
                continue
            what, obj, i = found
            if what == "field":
                sfield = obj
                if i is not None and self.recipe[i].get("co") is not None:
                    fn = self.fns[i]
                    co = (lambda fn: lambda v, ctx: fn(v))(fn)
                    self.labels.add("coerce:link_coercer")
                else:
                    co = self.coercer(sfield["t"], g["t"],
                                      [*sst, ("field", sfield["n"], sfield["t"], s_nr[sfield["n"]])], gst)
                plans.append((g["n"], self._from_field(S, sfield["n"], co)))
                mode = mode or "link:field"
            elif what == "param":
                pname = obj["name"]
                if i is not None and self.recipe[i].get("co") is not None:
                    fn = self.fns[i]
                    co = (lambda fn: lambda v, ctx: fn(v))(fn)
                    self.labels.add("coerce:link_coercer")
                else:
                    co = self.coercer(obj["t"], g["t"], [("param", pname, obj["t"])], gst)
                plans.append((g["n"], (lambda pname, co: lambda v, ctx: co(ctx[pname], ctx))(pname, co)))
                mode = mode or ("link:param" if top else "link:param_nested")
            elif what == "const":
                it = self.recipe[i]
                if "factory" in it:
                    f = self.fns[i]
                    plans.append((g["n"], (lambda f: lambda v, ctx: f())(f)))
                    mode = "const:factory"
                else:
                    c = self.fns[i]
                    plans.append((g["n"], (lambda c: lambda v, ctx: c)(c)))
                    mode = "const:value"
            else:
                plans.append((g["n"], self._function_plan(i, S, sst, gst)))
                mode = "func"
            self.modes[(dmi, g["n"])] = mode
            self.labels.add("mode:" + mode)

        def run(v, ctx):
            kwargs = {name: p(v, ctx) for name, p in plans}
            try:
                return construct(E, dmi, kwargs)
            except Exception as e:  # noqa: BLE001 -- only the user-level constructor call is guarded
                raise ConstructorRejects(e) from e
        return run

    def _from_field(self, S, fname, co):
        typed = S["kind"] == "typeddict"

        def get(v, ctx):
            if typed:
                if fname not in v:
                    raise RefUnspec("linked NotRequired key is absent from the TypedDict source")
                return co(v[fname], ctx)
            return co(getattr(v, fname), ctx)
        return get

    def _function_plan(self, i, S, sst, gst):
        spec = self.recipe[i]["fn"]
        fn = self.fns[i]
        pos, kws = [], []
        for pname, annot in spec["ctx"]:
            ps = [p for p in self.params if p["name"] == pname]
            if not ps:
                # what happens then is not documented (adaptix: error, or the field is skipped when optional + allowed)
                raise RefRefuse(f"link_function parameter {pname!r} has no converter parameter", False)
            t = annot or ["any"]
            pos.append((pname, self.coercer(ps[0]["t"], t, [("param", pname, ps[0]["t"])], [*gst, ("funcparam", pname, t)],
                                            [*gst[:-1], ("funcparam", pname, t)])))
        for fname, annot in spec["kw"]:
            fs = [f for f in S["fields"] if f["n"] == fname]
            if not fs:
                raise RefRefuse(f"link_function keyword-only parameter {fname!r} has no model field", False)
            t = annot or ["any"]
            nr = S["kind"] == "typeddict" and fs[0].get("d") is not None
            co = self.coercer(fs[0]["t"], t, [*sst, ("field", fname, fs[0]["t"], nr)], [*gst, ("funcparam", fname, t)],
                              [*gst[:-1], ("funcparam", fname, t)])
            kws.append((fname, self._from_field(S, fname, co)))
        with_model = spec["model"]

        def run(v, ctx):
            args = [v] if with_model else []
            args += [co(ctx[pname], ctx) for pname, co in pos]
            return fn(*args, **{fname: g(v, ctx) for fname, g in kws})
        return run

    def plan(self, smi, dmi):
        return self.model_plan(smi, dmi, [("param", self.first, ["model", smi])], [("root", None, ["model", dmi])])


# =================================================================================== entry points
def api_params(api):
    """-> (first parameter name, [extra parameter specs])"""
    if api["kind"] == "impl":
        return api["stub"]["first"]["name"], api["stub"]["params"]
    return "src", []


def build_stub(E: CEnv, api, smi, dmi):
    s = api["stub"]
    ns = {"__name__": "c13_dyn", "_S": E.cls(smi), "_D": E.cls(dmi)}
    params = [(f"{s['first']['name']}: _S", s["first"]["kind"])]
    for i, p in enumerate(s["params"]):
        text = p["name"]
        if p["t"] is not None:
            ns[f"_A{i}"] = build_hint(p["t"], E)
            text += f": _A{i}"
        if p.get("d") is not None:
            ns[f"_D{i}"] = bv(p["d"][0], E)
            text += f" = _D{i}"
        params.append((text, p["kind"]))
    body = {"ellipsis": "...", "pass": "pass", "doc": repr(s.get("doc") or "Converts.")}[s["body"]]
    src = f"def {s['name']}({_sig_text(params)}) -> _D:\n    {body}\n"
    fname = f"<c13 stub {E.uid}>"
    linecache.cache[fname] = (len(src), None, src.splitlines(True), fname)  # inspect.getsource works: the stub check runs
    exec(compile(src, fname, "exec", dont_inherit=True), ns)  # noqa: S102
    return ns[s["name"]], fname


def split_recipe(provs, api):
    i, j = api.get("split", [len(provs), len(provs)])
    return provs[:i], provs[i:j], provs[j:]


def rename_labels(models, ref: Ref) -> list[str]:
    """Evidence labels for models whose constructor parameters are spelled unlike the field ids: which kind, on which
    side, and -- for destination fields the reference links -- how the argument can be passed (by position, or only by
    keyword: keyword-only attribute / after a destination field the reference leaves to its default / pydantic)."""
    out = set()
    for idx, ms in enumerate(models):
        side = "dst" if any(k[0] == idx for k in ref.modes) else "src"
        ids = {f["n"] for f in ms["fields"]}
        skipped = False
        for f in ms["fields"]:
            rk = rename_kind(ms, f)
            mode = ref.modes.get((idx, f["n"]))
            if rk is not None:
                out.add(f"renamed_param:{side}:{rk}")
                if f.get("al") in ids:
                    out.add(f"renamed_param:{side}:alias_is_id_of_another_field")
                if mode is not None and mode != "skip:default":
                    how = ("pydantic_defaulted" if f.get("d") is not None else "pydantic_required") \
                        if ms["kind"] == "pydantic" else "attrs_kw_only" if f.get("kw") \
                        else "attrs_after_skipped_optional" if skipped else "attrs_positional"
                    out.add("renamed_dst_arg:" + how)
            if mode == "skip:default":
                skipped = True
    return sorted(out)


def risk_tags(case) -> list[str]:
    """Features of the case that belong to a recorded open finding (used in signatures; see notes/C13.md)."""
    tags = []
    if any(it["k"] == "const" and isinstance(it.get("value"), str) and "\n" in it["value"] for it in case["recipe"]):
        tags.append("newline_str_const")
    return tags


# =================================================================================== the oracle
def check_case(ctx: runner.Ctx, case):  # noqa: C901, PLR0912, PLR0915
    E = CEnv(case)
    smi, dmi = case["src"], case["dst"]
    api = case["api"]
    Scls, Dcls = E.cls(smi), E.cls(dmi)
    provs, fns = build_recipe(case["recipe"], E)
    first_name, params = api_params(api)
    ref = Ref(E, case, fns, [{"name": p["name"], "t": p["t"] or ["any"]} for p in params], first_name)
    verdict, plan, reason = "ok", None, ""
    try:
        plan = ref.plan(smi, dmi)
    except RefRefuse as e:
        verdict, reason = ("refuse" if e.documented else "unspecified"), e.reason
    except RefUnspec as e:
        verdict, reason = "unspecified", str(e)
    risks = risk_tags(case) + sorted(ref.risks)
    risk = "+".join(risks) or "-"

    models = case["models"]
    kinds = sorted({m["kind"] for m in models})
    n_link = sum(1 for it in case["recipe"] if it["k"] in ("link", "const", "func"))
    nested = len(models) > 2  # noqa: PLR2004
    nontrivial = verdict != "unspecified" and (n_link >= 1 or len(params) >= 1 or nested)
    labels = [f"verdict:{verdict}", f"api:{api['kind']}:{api.get('via', 'module')}", f"src_kind:{models[smi]['kind']}",
              f"dst_kind:{models[dmi]['kind']}", f"models:{min(len(models), 8)}", f"extra_params:{len(params)}",
              f"recipe_len:{min(len(case['recipe']), 8)}", *[f"uses_kind:{k}" for k in kinds],
              *sorted(ref.labels), *rename_labels(models, ref), *[f"risk:{r}" for r in risks]]
    if api["kind"] == "impl":
        labels += [f"stub_param_kind:{p['kind']}" for p in params]
        labels += ["stub:first_" + api["stub"]["first"]["kind"], "stub:body_" + api["stub"]["body"]]
        if any(p.get("d") is not None for p in params):
            labels.append("stub:has_default")
        labels += [f"call:{how}" for how in set(case["call"])]
    if api.get("split") and api["split"] != [len(provs), len(provs)]:
        labels.append("recipe:split_over_retort_extend_call")
    ctx.case([case], nontrivial,
             sample={"models": [{"name": m["name"], "kind": m["kind"],
                                 "fields": {f["n"]: ttext(f["t"]) + ("=dflt" if f.get("d") else "")
                                            + (f" param={param_name(m, f)}" if rename_kind(m, f) else "")
                                            for f in m["fields"]}}
                                for m in models],
                     "src": smi, "dst": dmi, "recipe": case["recipe"], "api": api, "verdict": verdict, "reason": reason},
             labels=labels)
    if not risks:
        ctx.count("excluded_known")
    if verdict == "unspecified":
        ctx.count("unspecified_configuration")
        ctx.count("unspecified:" + _category(reason))

    def viol(kind, discr, detail):
        ctx.violation(kind, discr, case, f"{detail} | api={api['kind']} verdict={verdict} {reason}")

    # ---- the source value and the call plan (built before creation so that every object exists once)
    src_obj = bv(case["value"], E)
    stub = stub_file = None
    if api["kind"] == "impl":
        stub, stub_file = build_stub(E, api, smi, dmi)
        args, kwargs = [], {}
        values = [src_obj] + [bv(a, E) for a in case["args"]]
        names = [first_name] + [p["name"] for p in params]
        for how, name, val in zip(case["call"], names, values):
            if how == "pos":
                args.append(val)
            elif how == "kw":
                kwargs[name] = val
        bound = inspect.signature(stub).bind(*args, **kwargs)   # a TypeError here is a harness bug (generator)
        bound.apply_defaults()
        ctxvals = {p["name"]: bound.arguments[p["name"]] for p in params}
    else:
        args, kwargs, ctxvals = [src_obj], {}, {}

    # ---- creation
    call_recipe, ext_recipe, base_recipe = split_recipe(provs, api)
    via_retort = api.get("via") == "retort"
    if via_retort:
        retort = cv.ConversionRetort(recipe=base_recipe)
        if api.get("extend", True):
            retort = retort.extend(recipe=ext_recipe)
    conv = None
    result = _MISSING
    raised = None
    snapshot = canon([src_obj, list(args[1:]), sorted(kwargs.items(), key=lambda kv: kv[0])], E)
    try:
        if api["kind"] == "get":
            kw = {"name": api["name"]} if api.get("name") else {}
            if via_retort:
                conv = retort.get_converter(Scls, Dcls, recipe=call_recipe, **kw)
            else:
                conv = cv.get_converter(Scls, Dcls, recipe=call_recipe, **kw)
        elif api["kind"] == "impl":
            if via_retort:
                conv = retort.impl_converter(recipe=call_recipe)(stub) if call_recipe or api.get("paren") \
                    else retort.impl_converter(stub)
            else:
                conv = cv.impl_converter(recipe=call_recipe)(stub) if call_recipe or api.get("paren") \
                    else cv.impl_converter(stub)
        elif via_retort:
            result = retort.convert(src_obj, Dcls, recipe=call_recipe)
        else:
            result = cv.convert(src_obj, Dcls, recipe=call_recipe)
    except ProviderNotFoundError as e:
        if verdict == "ok":
            viol("creation_refused", (_cause_kind(e), risk),
                 f"linkable by the documented rules ({_refusal_feature(ref)}), refused: {_cause(e)}")
        elif verdict == "refuse":
            ctx.count("refused_as_documented")
        return
    except Exception as e:  # noqa: BLE001 -- anything but ProviderNotFoundError out of the public entry point
        if api["kind"] == "convert":
            raised = e      # creation and call are one step here; judged below like a failing call
        else:
            if verdict != "unspecified":
                viol("creation_crashed", (type(e).__name__, site(e), risk), describe(e))
            return
    finally:
        if stub_file is not None:
            linecache.cache.pop(stub_file, None)

    if verdict == "refuse":
        viol("created_unlinkable", (reason.split(":")[-1].strip()[:50], risk), f"docs refuse this configuration: {reason}")
        return
    if verdict == "unspecified":
        return

    # ---- what impl_converter / get_converter promise about the function object
    if api["kind"] == "impl":
        if not same_signature(inspect.signature(conv), inspect.signature(stub)):
            viol("signature_differs", (risk,), f"stub {inspect.signature(stub)} converter {inspect.signature(conv)}")
        if conv.__name__ != stub.__name__:
            viol("name_differs", (risk,), f"stub {stub.__name__!r} converter {conv.__name__!r}")
        if conv.__doc__ != stub.__doc__:
            viol("doc_differs", (risk,), f"stub {stub.__doc__!r} converter {conv.__doc__!r}")
    elif api["kind"] == "get" and api.get("name") and conv.__name__ != api["name"]:
        viol("name_differs", ("get_converter", risk), f"name={api['name']!r} converter {conv.__name__!r}")

    # ---- a call the stub's signature rejects must be rejected by the converter as well
    if api["kind"] == "impl" and case.get("badcall"):
        bargs, bkwargs = list(args), dict(kwargs)
        how = case["badcall"]
        if how == "unknown_kw":
            bkwargs["no_such_parameter"] = 1
        elif how == "extra_positional":
            bargs.append(1)
        elif how == "twice" and bargs:
            bkwargs[first_name] = src_obj
        elif how == "drop" and (bkwargs or len(bargs) > 1):
            if bkwargs:
                bkwargs.pop(sorted(bkwargs)[-1])
            else:
                bargs.pop()
        elif how == "po_by_kw" and api["stub"]["first"]["kind"] == "po":
            bargs, bkwargs = bargs[1:], {**bkwargs, first_name: src_obj}
        try:
            inspect.signature(stub).bind(*bargs, **bkwargs)
        except TypeError:
            ctx.count("bad_calls_checked")
            try:
                r = conv(*bargs, **bkwargs)
            except TypeError:
                pass
            except Exception as e:  # noqa: BLE001
                viol("bad_call_not_typeerror", (how, type(e).__name__), describe(e))
            else:
                viol("bad_call_accepted", (how,), f"args={bargs!r} kwargs={bkwargs!r} returned {r!r}")

    # ---- the call
    counting = [f for f in fns.values() if isinstance(f, Counting)]
    calls0 = sum(f.calls for f in counting)
    if conv is not None:
        try:
            result = conv(*args, **kwargs)
        except Exception as e:  # noqa: BLE001
            raised = e
    calls1 = sum(f.calls for f in counting)
    try:
        expected = plan(src_obj, ctxvals)
    except RefUnspec as u:
        ctx.count("unspecified_input")
        ctx.count("unspecified:" + _category(str(u)))
        return
    except ConstructorRejects as c:
        # the destination class itself refuses the linked values (validating constructor): the converter calls the same
        # constructor with the same values, so it has to fail the same way
        ctx.count("destination_constructor_rejects_values")
        if raised is None or type(raised) is not type(c.error):
            viol("constructor_error_differs", (type(c.error).__name__, type(raised).__name__),
                 f"harness construction raised {describe(c.error)}; converter: "
                 + (describe(raised) if raised is not None else f"returned {result!r}"))
        return
    if raised is not None:
        viol("call_raised", (type(raised).__name__, site(raised), risk), describe(raised))
        return
    calls2 = sum(f.calls for f in counting)
    if conv is not None and counting and calls1 - calls0 != calls2 - calls1:
        # link_constant(factory=...): "the result of a function call" per constructed field, not a value made once
        viol("factory_call_count", (), f"the conversion called the factories {calls1 - calls0} time(s), the field-wise "
                                       f"construction needs {calls2 - calls1}")
    got_c, exp_c = image(result, ["model", dmi], E), image(expected, ["model", dmi], E)
    if got_c != exp_c:
        where = first_diff(got_c, exp_c)
        mode = ref.modes.get((where[0], where[1]), "?")
        detail = "-"
        if image_has_single_tuple(where[3]) and not image_has_single_tuple(where[2]):
            detail = "single_tuple"
        elif isinstance(where[3], tuple) and where[3][0] == "str" and "\n" in where[3][1] and where[2][0] == "str":
            detail = "newline_str"
        elif isinstance(where[0], int):   # triage aid: the differing field is filled through a renamed parameter
            rk = [rename_kind(models[where[0]], f) for f in models[where[0]]["fields"] if f["n"] == where[1]]
            if rk and rk[0]:
                detail = "renamed_param:" + rk[0]
        viol("wrong_result", (mode, detail, risk),
             f"field M{where[0]}.{where[1]} [{mode}]: got {result!r} expected {expected!r}")
    after = canon([src_obj, list(args[1:]), sorted(kwargs.items(), key=lambda kv: kv[0])], E)
    if after != snapshot:
        viol("arguments_mutated", (models[smi]["kind"],), f"before {snapshot!r} after {after!r}")


def same_signature(a: inspect.Signature, b: inspect.Signature) -> bool:
    """Signature equality that accepts the *same* default object even when it is not equal to itself (nan)."""
    if a.return_annotation != b.return_annotation or list(a.parameters) != list(b.parameters):
        return False
    for pa, pb in zip(a.parameters.values(), b.parameters.values()):
        if pa.kind != pb.kind or pa.annotation != pb.annotation:
            return False
        if pa.default is not pb.default and not (type(pa.default) is type(pb.default) and pa.default == pb.default):
            return False
    return True


def _category(reason: str) -> str:
    import re  # noqa: PLC0415
    reason = re.sub(r"no coercion .*", "no coercion for a non-scalar pair (cross-talk of string predicates)", reason)
    reason = re.sub(r"M\d+\.\w+: ", "", reason)
    return re.sub(r"'\w+'", "'_'", reason)[:90]


def site(e) -> str:
    """exc_site without the generated class names (one bucket per root cause, not per model name)."""
    s = exc_site(e)
    if s.startswith("<generated>:coerce_"):
        return "<generated>:coerce_*"
    return s


def _cause_kind(e) -> str:
    """Innermost reason of a ProviderNotFoundError, names stripped."""
    c, last = e.__cause__, str(e)
    depth = 0
    while c is not None and depth < 12:  # noqa: PLR2004
        last = str(c).split("\n")[0]
        c = c.exceptions[0] if isinstance(c, BaseExceptionGroup) and c.exceptions else c.__cause__
        depth += 1
    import re  # noqa: PLC0415
    return re.sub(r"`[^`]*`", "_", last)[:70]


def _cause(e) -> str:
    c = e.__cause__
    out = [str(e)[:120]]
    while c is not None and len(out) < 6:  # noqa: PLR2004
        out.append(str(c)[:160])
        c = c.exceptions[0] if isinstance(c, BaseExceptionGroup) and c.exceptions else c.__cause__
    return " / ".join(out)


def _refusal_feature(ref: Ref) -> str:
    feats = sorted(x for x in ref.labels if x.startswith(("mode:", "link:")))
    return "+".join(f.replace("mode:", "") for f in feats)[:120] or "plain"


# =================================================================================== generation
SCALAR_POOL = ["int", "int", "int", "str", "str", "bool", "float", "bytes", "dec", "enum"]
VALUES = {
    "int": [0, 1, -1, 2, 7, 42, 255, -128, 2 ** 40, 10 ** 20],
    "str": ["", "a", "abc", "Ünï", "x y", "'q\"", "0", "True", "data"],
    "bool": [True, False],
    "float": [0.0, -0.0, 1.5, -2.25, 1e10, 3.0],
    "bytes": [{"$": "bytes", "h": ""}, {"$": "bytes", "h": "00"}, {"$": "bytes", "h": "616263"}],
    "dec": [{"$": "dec", "s": "0"}, {"$": "dec", "s": "1"}, {"$": "dec", "s": "1.50"}, {"$": "dec", "s": "-3"}],
    "enum": [{"$": "enum", "c": "Kind", "n": "A"}, {"$": "enum", "c": "Kind", "n": "B"}],
}


def st_value(t, models, absent_ok=False):  # noqa: C901, PLR0911
    tag = t[0]
    if tag in VALUES:
        return st.sampled_from(VALUES[tag])
    if tag == "any":
        return st.sampled_from([None, 1, "s", [1, 2], True])
    if tag == "none":
        return st.none()
    if tag == "opt":
        return st.one_of(st.none(), st_value(t[1], models, absent_ok))
    if tag == "union":
        return st.one_of([st_value(m, models, absent_ok) for m in t[1]])
    if tag == "list":
        return st.lists(st_value(t[1], models, absent_ok), max_size=3)
    if tag == "tuple":
        return st.lists(st_value(t[1], models, absent_ok), max_size=3).map(lambda xs: {"$": "t", "v": xs})
    if tag == "deque":
        return st.lists(st_value(t[1], models, absent_ok), max_size=3).map(lambda xs: {"$": "deque", "v": xs})
    if tag == "set":
        return st.lists(st_value(t[1], models), max_size=3, unique_by=repr).map(lambda xs: {"$": "set", "v": xs})
    if tag == "dict":
        return st.lists(st.tuples(st_value(t[1], models), st_value(t[2], models, absent_ok)), max_size=3,
                        unique_by=lambda kv: repr(kv[0])).map(lambda kvs: {"$": "d", "v": [list(kv) for kv in kvs]})
    if tag == "model":
        ms = models[t[1]]
        arg = targ(t)

        @st.composite
        def model_value(draw):
            out = {}
            for f in ms["fields"]:
                if absent_ok and ms["kind"] == "typeddict" and f.get("d") is not None and draw(st.integers(0, 3)) == 0:
                    continue
                # keyed by constructor parameter: codec.build calls cls(**fields) (pydantic by alias, attrs `_x` by `x`)
                out[param_name(ms, f)] = draw(st_value(subst(f["t"], arg), models, absent_ok))
            return {"$": "obj", "c": f"M{t[1]}", "f": out}
        return model_value()
    raise ValueError(t)


def default_for(draw, t, probe=False):  # noqa: ARG001
    """-> vspec wrapped in a list, or None when the pool has no default for the type."""
    pool = DEFAULTS.get(t[0] if t is not None else "any")
    if not pool:
        return None
    return [draw(st.sampled_from(pool))]


class Gen:
    """Constructive generator: builds model pairs field by field together with the recipe entries, parameters and
    coercers each field needs.  Intent is only a bias -- the oracle re-derives everything from the finished case."""

    def __init__(self, draw, probe: bool, neg: bool):
        self.draw = draw
        self.probe = probe
        self.neg = neg
        self.neg_done = False
        self.models: list = []
        self.groups: list[list] = []       # ordered groups of recipe items (order inside a group is meaningful)
        self.params: list[dict] = []
        self.tag = itertools.count(1)
        self.allow_params = True
        self.pairs: list[tuple[int, int]] = []
        self.global_allow = False

    # ---- small helpers
    def pick(self, xs):
        return self.draw(st.sampled_from(xs))

    def chance(self, num, den=100):
        return self.draw(st.integers(0, den - 1)) < num

    def fresh(self, pool, used, prefix):
        free = [n for n in pool if n not in used]
        if free:
            return self.pick(free)
        return f"{prefix}{len(used)}"

    @staticmethod
    def taken(names) -> set:
        """The names plus the constructor parameters attrs derives from private ones (`_x` is filled through `x`)."""
        return set(names) | {n[1:] for n in names if is_private(n)}

    def dst_pred(self, dmi, g):
        w = self.draw(st.integers(0, 9))
        return ["PF", dmi, g] if w < 6 else ["S", g] if w < 8 else ["PN", g]  # noqa: PLR2004

    def src_pred(self, smi, f):
        param_names = {p["name"] for p in self.params} | set(PARAM_NAMES)
        w = self.draw(st.integers(0, 9))
        if w < 6 or f in param_names:  # noqa: PLR2004  -- a bare name would also match a parameter: avoided
            return ["PF", smi, f]
        return ["S", f] if w < 8 else ["PN", f]  # noqa: PLR2004

    def fn_spec(self, to):
        return {"to": to, "tag": next(self.tag), "lam": self.chance(25),
                "name": self.pick(["c13_coercer", "str", "coercer", "data", "func_0"])}

    def coerced_fields(self) -> set:
        """(model idx, field) named by a field-predicate coercer (see open finding C13-notrequired-hides-type-predicate)."""
        out = set()
        for grp in self.groups:
            for it in grp:
                if it["k"] == "coercer":
                    out |= {(p[1], p[2]) for p in (it["src"], it["dst"]) if p[0] == "PF"}
        return out

    def param(self, name, t):
        for p in self.params:
            if p["name"] == name:
                return p
        p = {"name": name, "t": t}
        self.params.append(p)
        return p

    # ---- type pairs
    def scalar(self):
        return [self.pick(SCALAR_POOL)]

    def tpair(self, depth, loc=None, inner=False):  # noqa: C901, PLR0911, PLR0912
        """-> (source type, destination type) coercible by the documented rules (by construction).
        ``loc`` = (src pred, dst pred) of the field position, when coercer-by-field is possible."""
        w = self.draw(st.integers(0, 99))
        if inner and w < 30 and self.chance(50):  # noqa: PLR2004  -- containers of nested models are the interesting ones
            w = 60
        if w < 30:  # noqa: PLR2004
            s = self.scalar()
            return s, s
        if w < 36:  # noqa: PLR2004
            return self.scalar(), ["any"]
        if w < 41:  # noqa: PLR2004
            return (["bool"], ["int"]) if self.chance(70) else (["enum"], ["int"])
        if w < 46:  # noqa: PLR2004
            members = self.draw(st.lists(st.sampled_from(["int", "str", "bytes", "float", "bool"]), min_size=2, max_size=3,
                                         unique=True))
            extra = [m for m in ["int", "str", "bytes", "float", "bool", "dec"] if m not in members]
            dm = members + ([self.pick(extra)] if self.chance(60) else [])
            if self.chance(50):
                dm = list(reversed(dm))
            return ["union", [[m] for m in members]], ["union", [[m] for m in dm]]
        if w < 56:  # noqa: PLR2004
            u = self.pick(["int", "str", "float", "bytes", "dec"])
            t = self.pick([x for x in ["int", "str", "float", "bytes", "dec"] if x != u])
            if loc is not None and self.chance(35):
                self.groups.append([{"k": "coercer", "src": loc[0], "dst": loc[1], "fn": self.fn_spec(t)}])
                if self.chance(40):   # a second coercer for the same point: whichever comes first in the recipe wins
                    self.groups.append([{"k": "coercer", "src": ["T", [u]], "dst": ["T", [t]], "fn": self.fn_spec(t)}])
            else:
                self.groups.append([{"k": "coercer", "src": ["T", [u]], "dst": ["T", [t]], "fn": self.fn_spec(t)}])
            return [u], [t]
        if w < 74 and depth < 2 and len(self.models) < 8:  # noqa: PLR2004
            if self.chance(22):
                x, y = self.targ_pair(depth + 1)
                smi, dmi = self.pair(depth + 1, generic=True)
                return ["model", smi, x], ["model", dmi, y]
            plain_pairs = [p for p in self.pairs if not self.models[p[0]].get("generic")]
            if plain_pairs and self.chance(20):
                smi, dmi = self.pick(plain_pairs)
                return ["model", smi], ["model", dmi]
            smi, dmi = self.pair(depth + 1)
            return ["model", smi], ["model", dmi]
        if w < 82 and not inner:  # noqa: PLR2004
            s, d = self.tpair(depth, None, inner=True)
            if s[0] in ("union", "opt") or d[0] in ("union", "opt", "any"):
                return s, d
            return ["opt", s], ["opt", d]
        if w < 94:  # noqa: PLR2004
            s, d = self.tpair(depth, None, inner=True)
            hashable = s[0] in SCALARS and d[0] in SCALARS
            sk = self.pick(["list", "list", "tuple", "deque"] + (["set"] if hashable else []))
            dk = self.pick(["list", "list", "tuple", "deque"] + (["set"] if hashable else []))
            return [sk, s], [dk, d]
        s, d = self.tpair(depth, None, inner=True)
        k = [self.pick(["str", "int"])]
        if self.chance(20):   # keys go through a coercer as well
            k2 = ["str"] if k == ["int"] else ["int"]
            self.groups.append([{"k": "coercer", "src": ["T", k], "dst": ["T", k2], "fn": self.fn_spec(k2[0])}])
            return ["dict", k, s], ["dict", k2, d]
        return ["dict", k, s], ["dict", k, d]

    def targ_pair(self, depth):
        """Type arguments (X, Y) for a generic pair G[X] -> H[Y]: again coercible by construction."""
        w = self.draw(st.integers(0, 99))
        if w < 50:  # noqa: PLR2004
            s = self.scalar()
            return s, s
        if w < 62:  # noqa: PLR2004
            return ["bool"], ["int"]
        if w < 80:  # noqa: PLR2004
            u = self.pick(["int", "str", "float", "bytes"])
            t = self.pick([x for x in ["int", "str", "float", "bytes"] if x != u])
            self.groups.append([{"k": "coercer", "src": ["T", [u]], "dst": ["T", [t]], "fn": self.fn_spec(t)}])
            return [u], [t]
        if depth < 2 and len(self.models) < 6:  # noqa: PLR2004
            smi, dmi = self.pair(depth + 1)
            return ["model", smi], ["model", dmi]
        return ["str"], ["str"]

    def tv_pair(self):
        w = self.draw(st.integers(0, 9))
        if w < 5:  # noqa: PLR2004
            return ["tv"], ["tv"]
        if w < 7:  # noqa: PLR2004
            return ["list", ["tv"]], [self.pick(["list", "tuple"]), ["tv"]]
        if w < 9:  # noqa: PLR2004
            return ["opt", ["tv"]], ["opt", ["tv"]]
        return ["dict", ["str"], ["tv"]], ["dict", ["str"], ["tv"]]

    # ---- model pairs
    open: set = set()

    def pair(self, depth, generic=False):  # noqa: C901, PLR0912, PLR0915
        top = depth == 0
        smi = len(self.models)
        self.models.append(None)
        dmi = len(self.models)
        self.models.append(None)
        self.open = self.open | {smi, dmi}
        skind, dkind = self.pick(SRC_KINDS), self.pick(DST_KINDS)
        if generic:   # pydantic generics: docs/reference/integrations.rst lists their resolving as unreliable
            skind, dkind = self.pick(GENERIC_KINDS), self.pick(GENERIC_KINDS)
        used_model_names = {m["name"] for m in self.models if m}
        sname = self.fresh(MODEL_NAMES, used_model_names, "S")
        dname = self.fresh(MODEL_NAMES, used_model_names | {sname}, "D")
        n = self.draw(st.integers(1, 4 if top else 3))
        dnames = self.draw(st.lists(st.sampled_from(FIELD_NAMES), min_size=n, max_size=n, unique=True))
        # private attributes: attrs fills `_x` through the constructor parameter `x` (field id and parameter name differ)
        src_priv_ok = skind in ("dataclass", "attrs", "typeddict")   # kinds that can declare a field `_x`
        if dkind == "attrs" or (skind == "attrs" and dkind in ("dataclass", "typeddict", "plain")):
            dnames = ["_" + g if self.chance(30 if dkind == "attrs" else 15) else g for g in dnames]
        sfields: list[dict] = []
        dfields: list[dict] = []
        snames = set()
        unlinked_seen = False
        unlinked: set = set()

        def add_src(name, t):
            snames.add(name)
            sfields.append({"n": name, "t": t})

        for g in dnames:
            modes = ["same"] * 5 + ["renamed"] * 4 + ["const"] * 2 + ["func"] * 2 + ["unlinked"] * 2
            if self.allow_params:
                modes += ["from_param"] * 3 + (["param_same"] * 4 if top else ["nested_shadow"] * 4 + ["from_param"] * 2)
            if self.neg and not self.neg_done:
                modes += ["neg"] * 6
            no_twin = is_private(g) and not src_priv_ok   # the source kind cannot hold a same-named field
            if no_twin:
                modes = [m for m in modes if m not in ("same", "nested_shadow")]
            if g in snames:
                modes = ["same_existing"]
            mode = self.pick(modes)
            dflt = None  # destination default
            pre, post = [], []   # recipe items that must lose: a dead link before, a shadowed provider after
            if mode == "same_existing":
                st_ = next(f["t"] for f in sfields if f["n"] == g)
                dt = st_ if st_[0] != "model" else ["any"]
                dfields.append({"n": g, "t": dt})
                continue
            if mode == "same":
                s, d = self.tv_pair() if generic and self.chance(60) else \
                    self.tpair(depth, (["PF", smi, g], ["PF", dmi, g]))
                add_src(g, s)
                dfields.append({"n": g, "t": d})
                if self.chance(15):
                    pre.append({"k": "link", "src": ["PF", smi, "no_such_field"], "dst": self.dst_pred(dmi, g)})
                main = []
            elif mode == "nested_shadow":
                s = self.scalar()
                add_src(g, s)
                dfields.append({"n": g, "t": s})
                self.param(g, s if self.chance(70) else self.scalar())
                main = []
            elif mode == "renamed":
                f = self.fresh(FIELD_NAMES, self.taken(snames | set(dnames)), "f")
                if skind == "attrs" and self.chance(30):
                    f = "_" + f
                sp, dp = self.src_pred(smi, f), self.dst_pred(dmi, g)
                if self.chance(25):
                    u, t = self.scalar(), self.scalar()
                    item = {"k": "link", "src": sp, "dst": dp, "co": self.fn_spec(t[0])}
                    add_src(f, u)
                    dfields.append({"n": g, "t": t})
                    if self.chance(50) and u != t:   # a general coercer for the same pair must lose against link(coercer=)
                        self.groups.append([{"k": "coercer", "src": ["T", u], "dst": ["T", t], "fn": self.fn_spec(t[0])}])
                else:
                    s, d = self.tv_pair() if generic and self.chance(60) else \
                        self.tpair(depth, (["PF", smi, f], ["PF", dmi, g]))
                    item = {"k": "link", "src": sp, "dst": dp}
                    add_src(f, s)
                    dfields.append({"n": g, "t": d})
                main = [item]
                if self.chance(20):
                    pre.append({"k": "link", "src": ["PF", smi, "no_such_field"], "dst": self.dst_pred(dmi, g)})
            elif mode == "param_same":
                s, d = self.tpair(2, (["FP", g], ["PF", dmi, g])) if self.chance(85) else (["any"], ["any"])
                p = self.param(g, s)
                if p["t"] != s:
                    d = p["t"]
                dfields.append({"n": g, "t": d})
                if self.chance(50) and not no_twin:   # a same-named source field must lose against the parameter
                    add_src(g, self.scalar() if self.chance(50) else p["t"])
                main = []
            elif mode == "from_param":
                pname = self.fresh(PARAM_NAMES, set(dnames) | set(FIELD_NAMES[:0]), "p")
                s, d = self.tpair(2, (["FP", pname], ["PF", dmi, g]))
                p = self.param(pname, s)
                if p["t"] != s:
                    d = p["t"]
                src = ["FP", pname]
                if self.chance(30):
                    other = self.fresh(PARAM_NAMES, {pname} | set(dnames), "p")
                    q = self.param(other, p["t"])
                    if q["t"] == p["t"]:
                        src = ["OR", [["FP", pname], ["FP", other]] if self.chance(50) else [["FP", other], ["FP", pname]]]
                main = [{"k": "link", "src": src, "dst": self.dst_pred(dmi, g)}]
                dfields.append({"n": g, "t": d})
            elif mode == "const":
                item = {"k": "const", "dst": self.dst_pred(dmi, g)}
                w = self.draw(st.integers(0, 9))
                if w < 7:  # noqa: PLR2004
                    t = ["any"]
                    item["value"] = self.pick(CONST_RISKY if self.probe and self.chance(60) else
                                              CONST_POOL if self.probe else CONST_SAFE)
                elif w < 9:  # noqa: PLR2004
                    t = ["any"]
                    item["factory"] = self.pick(["list", "dict", "tuple", "str", "set", "bytes", f"mk:{next(self.tag)}"])
                else:
                    t = self.scalar()
                    item["value"] = self.pick(VALUES[t[0]])
                if dkind == "pydantic" and t == ["any"] and "value" in item and isinstance(item["value"], dict) \
                        and item["value"].get("$") in ("object", "notimpl"):
                    item["value"] = 5
                main = [item]
                dfields.append({"n": g, "t": t})
            elif mode == "func":
                to = self.pick(["int", "str", "float", "raw"])
                kw = []
                for f in sfields[:]:
                    if f["t"][0] in SCALARS and len(kw) < 2 and self.chance(40):  # noqa: PLR2004
                        kw.append([f["n"], f["t"] if self.chance(70) else None])
                ctxp = []
                if self.allow_params and self.chance(50):
                    for _ in range(self.draw(st.integers(1, 2))):
                        pname = self.fresh(PARAM_NAMES, {n for n, _ in ctxp} | {n for n, _ in kw} | {"m"}, "p")
                        if pname in {n for n, _ in kw}:
                            continue
                        p = self.param(pname, self.scalar())
                        ctxp.append([pname, p["t"] if self.chance(70) else None])
                with_model = bool(ctxp) or not kw or self.chance(75)
                lam = self.chance(20)
                spec = {"name": self.pick(FN_NAMES), "model": with_model, "ctx": ctxp, "kw": kw, "to": to,
                        "tag": next(self.tag), "lam": lam}
                if lam:
                    spec["ctx"] = [[n, None] for n, _ in ctxp]
                    spec["kw"] = [[n, None] for n, _ in kw]
                names = [n for n, _ in spec["ctx"]] + [n for n, _ in spec["kw"]] + (["m"] if with_model else [])
                if len(set(names)) != len(names) or "_ret" in names:
                    spec["ctx"], spec["kw"], spec["model"] = [], [], True
                main = [{"k": "func", "dst": self.dst_pred(dmi, g), "fn": spec}]
                dfields.append({"n": g, "t": [to] if to != "raw" else ["any"]})
            elif mode == "unlinked":
                unlinked_seen = True
                unlinked.add(g)
                t = self.scalar() if self.chance(70) else ["list", self.scalar()]
                dflt = ["v", self.pick(VALUES[t[0]])] if t[0] in VALUES else ["f", "list"]
                dfields.append({"n": g, "t": t, "d": dflt})
                w = self.draw(st.integers(0, 9))
                if self.global_allow and w < 5:  # noqa: PLR2004
                    main = []
                elif w < 6:  # noqa: PLR2004
                    main = [{"k": "allow", "preds": [self.dst_pred(dmi, g)]}]
                elif w < 7:  # noqa: PLR2004
                    main = [{"k": "allow", "preds": [["PF", dmi, "zz_other"], self.dst_pred(dmi, g)]}]
                elif w < 8:  # noqa: PLR2004
                    main = [{"k": "allow", "preds": [self.dst_pred(dmi, g)]}, {"k": "forbid", "preds": []}]
                else:
                    main = [{"k": "allow", "preds": [] if self.chance(70) else [["ANY"]]}]
                    self.global_allow = True
                if g in snames:
                    main = []
            else:  # neg: one documented refusal per case
                self.neg_done = True
                which = self.pick(["missing_required", "forbidden_optional", "forbid_first"]
                                  + ([] if top or not self.allow_params else ["nested_param_only"] * 2)
                                  + ([] if no_twin else ["scalar_mismatch"]))
                main = []
                if which == "missing_required":
                    dfields.append({"n": g, "t": self.scalar()})
                elif which == "forbidden_optional":
                    dfields.append({"n": g, "t": ["int"], "d": ["v", 3]})
                    if self.global_allow:
                        main = [{"k": "forbid", "preds": [["PF", dmi, g]]}]
                elif which == "forbid_first":
                    dfields.append({"n": g, "t": ["int"], "d": ["v", 3]})
                    main = [{"k": "forbid", "preds": [["PF", dmi, g]]}, {"k": "allow", "preds": []}]
                elif which == "nested_param_only":
                    t = self.scalar()
                    p = self.param(g, t)
                    dfields.append({"n": g, "t": p["t"]})
                else:
                    u = self.pick(["int", "str", "float"])
                    t = self.pick([x for x in ["int", "str", "float", "bytes"] if x != u])
                    add_src(g, [u])
                    dfields.append({"n": g, "t": [t]})
            # a provider that comes later for the same destination must lose
            if main and main[0]["k"] in ("link", "const", "func") and self.chance(25):
                post.append({"k": "const", "dst": main[0]["dst"] if self.chance(50) else self.dst_pred(dmi, g),
                             "value": self.pick([0, "shadowed", None])})
            if pre or main or post:
                self.groups.append(pre + main + post)
            # destination defaults on *linked* fields (the value must still be passed)
            # (more often after an unlinked optional field: the arguments behind a skipped one must go by keyword)
            if dflt is None and mode not in ("neg",) and self.chance((85 if dkind == "attrs" else 60) if unlinked_seen else 25):
                t = dfields[-1]["t"]
                if t[0] in VALUES:
                    dfields[-1]["d"] = ["v", self.pick(VALUES[t[0]])]
                elif t[0] in ("any", "opt"):
                    dfields[-1]["d"] = ["v", None]
                elif t[0] == "list":
                    dfields[-1]["d"] = ["f", "list"]

        # extra source fields (ignored by the converter)
        for _ in range(self.draw(st.integers(0, 2))):
            f = self.fresh(FIELD_NAMES, self.taken(snames | set(dnames)), "u")
            if skind == "attrs" and self.chance(25):
                f = "_" + f
            add_src(f, self.scalar() if self.chance(70) else ["list", self.scalar()])
        # decoy: a source field spelled like the constructor *parameter* of a private destination field (`x` for `_x`);
        # fields are linked by id, so it is just one more ignored source field
        for g in dnames:
            if is_private(g) and skind != "attrs" and g[1:] not in snames | set(dnames) and self.chance(25):
                add_src(g[1:], self.scalar())
        if not sfields:
            add_src(self.fresh(FIELD_NAMES, self.taken(dnames), "u"), ["int"])
        sfields = self.draw(st.permutations(sfields))
        # source NotRequired keys
        if skind == "typeddict":
            for f in sfields:
                if self.chance(25) and (self.probe or (smi, f["n"]) not in self.coerced_fields()):
                    f["d"] = ["v", None]
        if dkind == "typeddict" and not self.probe:
            for f in dfields:
                if (dmi, f["n"]) in self.coerced_fields():
                    f.pop("d", None)
        dfields = self.order_dst(dkind, dfields, unlinked)
        others = sorted(snames | set(dnames) | {p["name"] for p in self.params})
        self.models[smi] = {"name": sname, "kind": skind, "fields": sfields, **self.alias_params(skind, sfields, others)}
        self.models[dmi] = {"name": dname, "kind": dkind, "fields": dfields, **self.alias_params(dkind, dfields, others, unlinked)}
        if generic:
            self.models[smi]["generic"] = self.models[dmi]["generic"] = True
        self.open = self.open - {smi, dmi}
        self.pairs.append((smi, dmi))
        return smi, dmi

    def alias_params(self, kind, fields, others, unlinked=()) -> dict:
        """Explicit aliases: attrs ``attrs.field(alias=)``, pydantic ``Field(alias= / validation_alias=)``.  The field
        id stays the attribute name, only the constructor parameter is renamed; parameter names stay unique per model.
        -> model-level options (pydantic ``populate_by_name``)."""
        if kind not in ("attrs", "pydantic") or not fields:
            return {}
        ms = {"kind": kind}
        names = [param_name(ms, f) for f in fields]
        behind_skipped = False
        for i, f in enumerate(fields):
            behind_skipped = behind_skipped or f["n"] in unlinked
            if not self.chance(50 if behind_skipped and kind == "attrs" else 25):
                continue
            pool = [a for a in ALIAS_NAMES + others + (["_y", "_alias"] if kind == "attrs" else [])
                    if a not in names and (kind == "attrs" or not a.startswith("_"))]
            if not pool:
                continue
            f["al"] = names[i] = self.pick(pool)
            if kind == "pydantic":
                f["alk"] = self.pick(["alias", "alias", "alias", "validation_alias", "choices"])
        # two fields filled through each other's name: a call spelled with field ids would swap the values silently
        plain = [f for f in fields if param_name(ms, f) == f["n"] and not is_private(f["n"])]
        if len(plain) >= 2 and self.chance(12):   # noqa: PLR2004
            a, b = self.draw(st.permutations(plain))[:2]
            a["al"], b["al"] = b["n"], a["n"]
        ids = {f["n"] for f in fields}
        if kind == "pydantic" and any(f.get("al") for f in fields) and not any(f.get("al") in ids for f in fields) \
                and self.chance(12):
            return {"pbn": True}   # populate_by_name: both spellings are accepted (unambiguous: no alias is a field id)
        return {}

    def order_dst(self, kind, fields, unlinked=()):
        """Make the field order / parameter kinds legal for the model kind."""
        if kind in ("typeddict", "pydantic"):
            return fields
        if unlinked and self.chance(60):   # skipped optional fields first: every argument behind them goes by keyword
            fields = [f for f in fields if f["n"] in unlinked] + [f for f in fields if f["n"] not in unlinked]
        if kind in ("dataclass", "attrs"):
            for f in fields:
                if self.chance(20):
                    f["kw"] = True
            pos = ([f for f in fields if not f.get("kw") and f.get("d") is None]
                   + [f for f in fields if not f.get("kw") and f.get("d") is not None])
            if self.chance(50):
                # a keyword-only field may be declared anywhere (typically: inherited from a base class): the order of the FIELDS
                # then differs from the order of the constructor's PARAMETERS
                it = iter(pos)
                return [f if f.get("kw") else next(it) for f in fields]
            return pos + [f for f in fields if f.get("kw")]
        if kind == "namedtuple":
            return [f for f in fields if f.get("d") is None] + [f for f in fields if f.get("d") is not None]
        # plain __init__: positional-only (never defaulted: adaptix documents nothing about them), positional, kw-only
        ko = [f for f in fields if self.chance(30)]
        rest = [f for f in fields if f not in ko]
        req = [f for f in rest if f.get("d") is None]
        opt = [f for f in rest if f.get("d") is not None]
        npo = self.draw(st.integers(0, len(req)))
        for i, f in enumerate(req):
            f["pk"] = "po" if i < npo else "pk"
        for f in opt:
            f["pk"] = "pk"
        for f in ko:
            f["pk"] = "ko"
        return req + opt + ko

    def recipe(self):
        """Interleave the groups at random, keeping the order inside each group."""
        items = [(gi, it) for gi, grp in enumerate(self.groups) for it in grp]
        if not items:
            return []
        order = self.draw(st.permutations(range(len(items))))
        slots = [items[i][0] for i in order]            # group id per output slot
        queues = {gi: list(grp) for gi, grp in enumerate(self.groups)}
        return [queues[gi].pop(0) for gi in slots]


@st.composite
def st_case(draw):  # noqa: C901, PLR0912, PLR0915
    probe = draw(st.integers(0, 24)) == 0
    neg = draw(st.integers(0, 11)) == 0
    api_kind = draw(st.sampled_from(["get", "get", "impl", "impl", "impl", "convert"]))
    g = Gen(draw, probe, neg)
    g.allow_params = api_kind == "impl"
    smi, dmi = g.pair(0)
    if api_kind == "convert" and g.models[smi]["kind"] == "typeddict":
        api_kind = "get"   # convert() infers the source type from the object; a TypedDict instance is a plain dict
    recipe = g.recipe()
    models = g.models
    api: dict = {"kind": api_kind, "via": draw(st.sampled_from(["module", "module", "retort"]))}
    if api["via"] == "retort":
        i = draw(st.integers(0, len(recipe)))
        j = draw(st.integers(i, len(recipe)))
        api["split"] = [i, j]
    else:
        api["split"] = [len(recipe), len(recipe)]
    case = {"models": models, "src": smi, "dst": dmi, "recipe": recipe, "api": api,
            "value": draw(st_value(["model", smi], models, absent_ok=draw(st.integers(0, 5)) == 0)),
            "args": [], "call": []}
    if api_kind == "get":
        names = [None, None, "convert", "my_conv", "data", "ctx", "coercer", "src", "_update_wrapper"]
        api["name"] = draw(st.sampled_from(names))
    elif api_kind == "impl":
        # extra unused parameter now and then
        if g.chance(15):
            g.param(g.fresh(PARAM_NAMES, {p["name"] for p in g.params} | {f["n"] for f in models[dmi]["fields"]}, "p"),
                    g.scalar())
        params = draw(st.permutations(g.params)) if g.params else []
        stub_names = STUB_NAMES
        pnames = {p["name"] for p in params}
        # parameter kinds are non-decreasing (po <= pk <= ko); among positional ones a default forces defaults after it
        level = draw(st.sampled_from([0, 1, 1, 1, 1, 2]))
        first = {"name": draw(st.sampled_from([n for n in FIRST_NAMES if n not in pnames])),
                 "kind": ["po", "pk", "ko"][level]}
        out = []
        need_default = False
        for p in params:
            level = max(level, draw(st.sampled_from([0, 1, 1, 1, 2])))
            d = None
            if need_default and level < 2 or draw(st.integers(0, 3)) == 0 or (probe and p["t"] == ["any"]):  # noqa: PLR2004
                d = default_for(draw, p["t"], probe)
            if d is None and need_default and level < 2:  # noqa: PLR2004
                level = 2   # no default in the pool for this type: the parameter becomes keyword-only
            if d is not None and level < 2:  # noqa: PLR2004
                need_default = True
            out.append({"name": p["name"], "t": p["t"], "kind": ["po", "pk", "ko"][level], "d": d})
        # the first parameter has no default: positional parameters with defaults may follow, that is legal
        api["stub"] = {"name": draw(st.sampled_from(stub_names)), "first": first, "params": out,
                       "body": draw(st.sampled_from(["ellipsis", "ellipsis", "pass", "doc"])),
                       "doc": draw(st.sampled_from(["Converts.", "  Multi\n    line ", "é"]))}
        api["paren"] = draw(st.booleans())
        # call plan
        call = []
        positional_ok = True
        for p in [first, *out]:
            opts = []
            if p["kind"] in ("po", "pk") and positional_ok:
                opts += ["pos", "pos"]
            if p["kind"] in ("pk", "ko"):
                opts.append("kw")
            if p.get("d") is not None:
                opts.append("omit")
            how = draw(st.sampled_from(opts))
            if how != "pos":
                positional_ok = False
            call.append(how)
        case["call"] = call
        case["badcall"] = draw(st.sampled_from([None, None, "unknown_kw", "extra_positional", "twice", "drop", "po_by_kw"]))
        case["args"] = [draw(st_value(p["t"] or ["any"], models)) for p in out]
    return case


# =================================================================================== fixed cases (docs + probes)
def _m(name, kind, fields):
    return {"name": name, "kind": kind, "fields": [{"n": n, "t": t, **({"d": d} if d else {})} for n, t, d in fields]}


def fixed_cases():  # noqa: PLR0915
    S = _m("Book", "dataclass", [("title", ["str"], None), ("price", ["int"], None), ("author", ["str"], None)])
    D = _m("BookDTO", "dataclass", [("title", ["str"], None), ("price", ["int"], None), ("writer", ["str"], None),
                                    ("page_count", ["int"], None)])
    val = {"$": "obj", "c": "M0", "f": {"title": "t", "price": 1, "author": "a"}}
    base = {"models": [S, D], "src": 0, "dst": 1, "value": val, "args": [7], "call": ["pos", "kw"]}

    def impl(name, params, **kw):
        return {"kind": "impl", "via": "module", "split": [9, 9], "paren": True,
                "stub": {"name": name, "first": {"name": "book", "kind": "pk"}, "params": params, "body": "ellipsis",
                         "doc": None}, **kw}
    link = {"k": "link", "src": ["PF", 0, "author"], "dst": ["PF", 1, "writer"]}
    # tutorial: downcasting + fields linking
    yield {**base, "recipe": [link],
           "api": impl("convert_book_to_dto", [{"name": "page_count", "t": ["int"], "kind": "pk", "d": None}])}
    # from_param with a differently named parameter
    yield {**base, "recipe": [link, {"k": "link", "src": ["FP", "pages_len"], "dst": ["PF", 1, "page_count"]}],
           "api": impl("convert_book_to_dto", [{"name": "pages_len", "t": ["int"], "kind": "pk", "d": None}])}
    # probes of the recorded findings (evidence for the KNOWN-FINDING lines on every run)
    for d in ({"$": "enum", "c": "Kind", "n": "B"}, {"$": "dec", "s": "1"}, {"$": "float", "s": "inf"}):
        t = {"enum": ["enum"], "dec": ["dec"], "float": ["float"]}[d["$"]]
        D2 = _m("BookDTO", "dataclass", [("title", ["str"], None), ("page_count", t, None)])
        yield {"models": [S, D2], "src": 0, "dst": 1, "value": val, "args": [d], "call": ["pos", "omit"], "recipe": [],
               "api": impl("convert_book_to_dto", [{"name": "page_count", "t": t, "kind": "pk", "d": [d]}])}
    D3 = _m("BookDTO", "dataclass", [("title", ["str"], None), ("price", ["int"], None)])
    yield {"models": [S, D3], "src": 0, "dst": 1, "value": val, "args": [], "call": ["pos"], "recipe": [],
           "api": impl("coercer", [])}
    yield {"models": [S, D3], "src": 0, "dst": 1, "value": val, "args": [], "call": [], "recipe": [],
           "api": {"kind": "get", "via": "module", "split": [0, 0], "name": "coercer"}}
    # a type-predicate coercer before a field-predicate coercer, source key declared NotRequired
    S5 = _m("Book", "typeddict", [("title", ["str"], None), ("price", ["int"], ["v", None])])
    D5 = _m("BookDTO", "dataclass", [("title", ["str"], None), ("price", ["str"], None)])
    yield {"models": [S5, D5], "src": 0, "dst": 1, "args": [], "call": [],
           "value": {"$": "obj", "c": "M0", "f": {"title": "t", "price": 1}},
           "recipe": [{"k": "coercer", "src": ["T", ["int"]], "dst": ["T", ["str"]], "fn": {"to": "str", "tag": 1}},
                      {"k": "coercer", "src": ["PF", 0, "price"], "dst": ["PF", 1, "price"], "fn": {"to": "str", "tag": 2}}],
           "api": {"kind": "get", "via": "module", "split": [2, 2], "name": None}}
    D4 = _m("BookDTO", "dataclass", [("title", ["str"], None), ("tags", ["any"], None)])
    yield {"models": [S, D4], "src": 0, "dst": 1, "value": val, "args": [None], "call": ["pos", "omit"], "recipe": [],
           "api": impl("convert_book_to_dto", [{"name": "tags", "t": ["any"], "kind": "pk", "d": [{"$": "t", "v": [1]}]}])}
    for c in ({"$": "t", "v": [1]}, [{"$": "t", "v": ["a"]}], "line 1\nline 2"):
        yield {"models": [S, D4], "src": 0, "dst": 1, "value": val, "args": [], "call": [],
               "recipe": [{"k": "const", "dst": ["PF", 1, "tags"], "value": c}],
               "api": {"kind": "get", "via": "module", "split": [1, 1], "name": None}}

    # constructor parameters spelled unlike the field ids (linking goes by field id, the call by parameter name)
    get = {"kind": "get", "via": "module", "split": [0, 0], "name": None}
    Sn = _m("Book", "dataclass", [("title", ["str"], None), ("price", ["int"], None), ("note", ["str"], None)])
    Dp = _m("BookModel", "pydantic", [("title", ["str"], None), ("price", ["int"], None), ("note", ["str"], ["v", "<no note>"])])
    Dp["fields"][2]["al"] = "remark"                       # note: str = Field(default="<no note>", alias="remark")
    yield {"models": [Sn, Dp], "src": 0, "dst": 1, "args": [], "call": [], "recipe": [], "api": get,
           "value": {"$": "obj", "c": "M0", "f": {"title": "Dune", "price": 10, "note": "signed copy"}}}
    Sa = _m("PrivSrc", "attrs", [("title", ["str"], None), ("_price", ["int"], None)])
    pval = {"$": "obj", "c": "M0", "f": {"title": "Dune", "price": 10}}         # attrs: `_price` is passed as `price`
    Da = _m("PrivDst", "attrs", [("title", ["str"], None), ("_price", ["int"], None)])
    Da["fields"][1]["kw"] = True                           # keyword-only private attribute
    yield {"models": [Sa, Da], "src": 0, "dst": 1, "args": [], "call": [], "recipe": [], "api": get, "value": pval}
    Db = _m("PrivDst2", "attrs", [("rating", ["int"], ["v", 0]), ("_price", ["int"], ["v", 0])])
    yield {"models": [Sa, Db], "src": 0, "dst": 1, "args": [], "call": [], "api": {**get, "split": [1, 1]}, "value": pval,
           "recipe": [{"k": "allow", "preds": [["S", "rating"]]}]}     # private attribute behind a skipped optional
    Dc = _m("Swapped", "attrs", [("title", ["str"], None), ("price", ["any"], None)])
    Dc["fields"][0].update(al="price", kw=True)            # two keyword-only attributes filled through each other's name
    Dc["fields"][1].update(al="title", kw=True)
    yield {"models": [Sn, Dc], "src": 0, "dst": 1, "args": [], "call": [], "recipe": [], "api": get,
           "value": {"$": "obj", "c": "M0", "f": {"title": "Dune", "price": 10, "note": "signed copy"}}}


# =================================================================================== exploration
def explore(ctx: runner.Ctx):
    if ctx.shard == 0:
        for case in fixed_cases():
            check_case(ctx, case)
    ctx.given(st_case(), lambda case: check_case(ctx, case), ctx.budget(6000, 200000))


RULE = ("case = (model specs, src, dst, recipe, entry point + stub signature, call plan, values), generated "
        "constructively (field modes: same name / renamed+link / same-named parameter / from_param / link_constant / "
        "link_function / unlinked optional / documented refusal) and judged by an independent reference of the "
        "documented linking + coercion rules.  Non-trivial = the reference gives a verdict (ok / documented refusal) and "
        "the case has >= 1 explicit linking provider or >= 1 extra parameter or a nested model; distinct by the whole case.")

if __name__ == "__main__":
    raise SystemExit(runner.main(
        PROP, explore=explore, check_case=check_case, strategy=st_case(), rule=RULE,
        assumptions=[
            "not asserted (counted as unspecified): a source predicate matching both a field and a parameter or several "
            "fields; the same model class on both sides; a single type into a union; unions with None / Optional of a "
            "union (C14 findings); a linked NotRequired key absent from a TypedDict source; identity of constants",
            "generic models, recursive models, SQLAlchemy models and abstract collection hints are not generated here "
            "(C16 / C14 / C17 cover them)",
            "recorded open findings are avoided by construction except in probe cases (~4 % + fixed cases)",
        ],
    ))
