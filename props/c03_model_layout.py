"""C03 -- generated model loaders/dumpers honour the configured outer layout exactly.

Generated: model shape (dataclass / attrs / NamedTuple / TypedDict / plain class with **kwargs; 1-6 fields that are
required / defaulted / factory-defaulted / NotRequired; strict int, str, bool, Dict[str, Any] and at most one nested
model) x a stack of 1-4 ``name_mapping`` providers drawn from the full parameter grammar (pred, skip, only, map in
all its forms, as_list, trim_trailing_underscore, name_style, omit_default, extra_in, extra_out) x strict_coercion
x ALL THREE debug modes x inputs that are built by walking the *reference* layout (every mapped key present /
absent / ill-typed, every container node right / wrong kind, unknown keys present / absent at every dict node,
lists exact / too short / too long) x objects to dump (values equal / unequal to defaults, NotRequired absent).

Oracle: ``RefLayout`` below -- an independent executable statement of docs/loading-and-dumping/extended-usage.rst
("Name mapping" ... "Advanced mapping").  It shares no code with adaptix, is organised by documentation rule and has
no debug-mode triplication.  Creation, load result (fields, defaults, extras delivered to kwargs / target fields /
saturator), load error classification (ALL: exact multiset of (absolute trail, kind, key set / length); FIRST: the
single error is one of them; DISABLE: same without trail) and the dumped datum are compared.
"""
from __future__ import annotations

import itertools
import json
import re
from typing import Any, Dict

from vkit import env, runner
from vkit.errors import describe, exc_site, leaves

env.import_adaptix()

from hypothesis import strategies as st  # noqa: E402

from adaptix import (  # noqa: E402
    DebugTrail,
    ExtraForbid,
    ExtraKwargs,
    ExtraSkip,
    NameStyle,
    P,
    ProviderNotFoundError,
    Retort,
    name_mapping,
)
from adaptix import load_error as le  # noqa: E402
from props.c18_enum_flag import ref_style  # noqa: E402
from props import probes03  # noqa: E402

PROP = "C03"
DEBUG = [DebugTrail.DISABLE, DebugTrail.FIRST, DebugTrail.ALL]
DEBUG_NAMES = ["DISABLE", "FIRST", "ALL"]

SCALARS = {"int": int, "str": str, "bool": bool}
ABSENT = "$absent"  # marker inside obj specs: NotRequired key that is not present

# =====================================================================================================================
# 1. Model classes from pure-data specs (no adaptix involved)
# =====================================================================================================================
# model spec:  {"kind": dataclass|attrs|namedtuple|typeddict|initkw, "kw_only": bool,
#               "fields": [{"n": name, "t": int|str|bool|dict|inner, "p": req|dv|df|nr, "d": default (json)}],
#               "inner": {"fields": [{"n", "t", "p": req|dv, "d"}]} | None}
_uid = itertools.count()


class Built:
    def __init__(self, ms):
        self.ms = ms
        self.outer = None
        self.inner = None


def _const_factory(value_maker):
    def factory():
        return value_maker()
    return factory


def py_value(f, v, built: Built):
    """json value of a field -> python value"""
    if f["t"] == "inner":
        return built.inner(**v)
    if f["t"] == "dict":
        return dict(v)
    return v


def _factory_for(f, built: Built):
    if f["t"] == "dict" and f["d"] == {}:
        return dict
    if f["t"] == "str" and f["d"] == "":
        return str
    return _const_factory(lambda: py_value(f, f["d"], built))


def build_models(ms) -> Built:  # noqa: C901, PLR0912, PLR0915
    import dataclasses  # noqa: PLC0415
    import typing  # noqa: PLC0415

    import attrs  # noqa: PLC0415

    n = next(_uid)
    built = Built(ms)
    ns = {"__name__": f"c03dyn{n}", "dataclass": dataclasses.dataclass, "field": dataclasses.field, "attrs": attrs,
          "NamedTuple": typing.NamedTuple, "TypedDict": typing.TypedDict, "NotRequired": typing.NotRequired,
          "Any": Any, "Dict": Dict}
    if ms.get("inner"):
        lines = ["@dataclass(frozen=True)", f"class Inner{n}:"]
        for i, f in enumerate(ms["inner"]["fields"]):
            ns[f"IT{i}"] = SCALARS[f["t"]]
            if f["p"] == "req":
                lines.append(f"    {f['n']}: IT{i}")
            else:
                ns[f"ID{i}"] = f["d"]
                lines.append(f"    {f['n']}: IT{i} = ID{i}")
        exec(compile("\n".join(lines) + "\n", f"<c03 inner {n}>", "exec", dont_inherit=True), ns)  # noqa: S102
        built.inner = ns[f"Inner{n}"]
    fields = ms["fields"]
    for i, f in enumerate(fields):
        ns[f"T{i}"] = (SCALARS.get(f["t"]) or (Dict[str, Any] if f["t"] == "dict" else built.inner))
        if f["p"] == "dv":
            ns[f"D{i}"] = py_value(f, f["d"], built)
        elif f["p"] == "df":
            ns[f"D{i}"] = _factory_for(f, built)
    kind = ms["kind"]
    cname = f"M{n}"
    lines = []
    if kind == "dataclass":
        lines += [f"@dataclass(kw_only={bool(ms.get('kw_only'))})", f"class {cname}:"]
        for i, f in enumerate(fields):
            lines.append({"req": f"    {f['n']}: T{i}", "dv": f"    {f['n']}: T{i} = D{i}",
                          "df": f"    {f['n']}: T{i} = field(default_factory=D{i})"}[f["p"]])
    elif kind == "attrs":
        lines += [f"@attrs.define(kw_only={bool(ms.get('kw_only'))})", f"class {cname}:"]
        for i, f in enumerate(fields):
            lines.append({"req": f"    {f['n']}: T{i}", "dv": f"    {f['n']}: T{i} = D{i}",
                          "df": f"    {f['n']}: T{i} = attrs.Factory(D{i})"}[f["p"]])
    elif kind == "namedtuple":
        lines.append(f"class {cname}(NamedTuple):")
        for i, f in enumerate(fields):
            lines.append({"req": f"    {f['n']}: T{i}", "dv": f"    {f['n']}: T{i} = D{i}"}[f["p"]])
    elif kind == "typeddict":
        lines.append(f"class {cname}(TypedDict):")
        for i, f in enumerate(fields):
            lines.append({"req": f"    {f['n']}: T{i}", "nr": f"    {f['n']}: NotRequired[T{i}]"}[f["p"]])
    elif kind == "initkw":
        lines.append(f"class {cname}:")
        params = ", ".join({"req": f"{f['n']}: T{i}", "dv": f"{f['n']}: T{i} = D{i}"}[f["p"]]
                           for i, f in enumerate(fields))
        lines.append(f"    def __init__(self, {params}{', ' if params else ''}**kwargs):")
        for f in fields:
            lines.append(f"        self.{f['n']} = {f['n']}")
        lines.append("        self.kwargs = kwargs")
    else:
        raise ValueError(kind)
    if not fields and kind != "initkw":
        lines.append("    pass")
    exec(compile("\n".join(lines) + "\n", f"<c03 model {n}>", "exec", dont_inherit=True), ns)  # noqa: S102
    built.outer = ns[cname]
    return built


def make_object(built: Built, obj):
    """obj spec {field: json value | ABSENT} -> instance of the outer class"""
    ms = built.ms
    kw = {}
    obj = json.loads(json.dumps(obj))  # fresh objects: a value equal to a default must not be identical to it
    for f in ms["fields"]:
        v = obj[f["n"]]
        if v == ABSENT and f["p"] == "nr":
            continue
        kw[f["n"]] = py_value(f, v, built)
    if ms["kind"] == "typeddict":
        return kw
    return built.outer(**kw)


def canon_object(built: Built, o, problems: list):
    """instance of the outer class -> {"fields": {name: json}, "absent": [...], "kwargs": {...}|None}"""
    ms = built.ms
    out = {"fields": {}, "absent": [], "kwargs": None}
    if ms["kind"] == "typeddict":
        if type(o) is not dict:
            problems.append(f"result type {type(o).__name__}, expected dict")
            return out
        extra_keys = set(o) - {f["n"] for f in ms["fields"]}
        if extra_keys:
            problems.append(f"result has keys that are no fields: {sorted(extra_keys)}")
    elif type(o) is not built.outer:
        problems.append(f"result type {type(o).__name__}, expected {built.outer.__name__}")
        return out
    for f in ms["fields"]:
        if ms["kind"] == "typeddict":
            if f["n"] not in o:
                out["absent"].append(f["n"])
                continue
            v = o[f["n"]]
        else:
            v = getattr(o, f["n"])
        if f["t"] == "inner":
            if type(v) is not built.inner:
                out["fields"][f["n"]] = {"$wrong_type": type(v).__name__}
            else:
                out["fields"][f["n"]] = {"$inner": {g["n"]: getattr(v, g["n"]) for g in ms["inner"]["fields"]}}
        else:
            out["fields"][f["n"]] = v
    if ms["kind"] == "initkw":
        out["kwargs"] = dict(o.kwargs)
    return out


def same_json(a, b) -> bool:
    """Equality with exact types (True is not 1, a tuple is not a list); dict order ignored."""
    if type(a) is not type(b):
        return False
    if type(a) is dict:
        return a.keys() == b.keys() and all(same_json(a[k], b[k]) for k in a)
    if type(a) in (list, tuple):
        return len(a) == len(b) and all(same_json(x, y) for x, y in zip(a, b))
    return a == b


# =====================================================================================================================
# 2. The reference layout model (written from docs/loading-and-dumping/extended-usage.rst)
# =====================================================================================================================
class Unspecified(Exception):
    """The documentation does not determine the behaviour of this configuration / input."""


class Invalid(Exception):
    """No layout exists for this configuration.  ``documented``: the docs say creation is impossible."""

    def __init__(self, why, documented=False):
        super().__init__(why)
        self.why = why
        self.documented = documented


PARAMS = ("skip", "only", "as_list", "trim", "style", "omit_default", "extra_in", "extra_out")
# "By default ..." values of every parameter (docs: ExtraSkip is the default policy both ways, omit_default is
# disabled by default, the retort trims a trailing underscore automatically, fields keep their names)
DEFAULTS = {"skip": [], "only": [["any"]], "as_list": False, "trim": True, "style": None, "omit_default": False,
            "extra_in": ["skip"], "extra_out": ["skip"]}

MAP_FUNCS = {
    # "function returning mapping result" (docs: Advanced mapping); the adaptix side wraps them as f(shape, field)
    "upper": lambda name: ["k", name.upper()],
    "suffix": lambda name: ["k", name + "_x"],
    "group": lambda name: ["p", [["k", "fg"], ["k", name]]],
    "ell": lambda name: ["p", [["k", "fe"], ["e"]]],
    "none": lambda name: ["none"],
}


def as_pred_list(preds):
    """a parameter "takes predicate or iterable of predicates" -> list of predicates"""
    if preds and isinstance(preds[0], str):
        return [preds]
    return list(preds)


def pred_matches(pred, f, all_names) -> bool:
    """Predicate system restricted to the forms generated here: a class matches the same type only; a string is a
    field id or a regex matched against the field id."""
    tag = pred[0]
    if tag == "any":
        return True
    if tag == "name":
        return f["n"] == pred[1]
    if tag == "type":
        if f["p"] == "nr":
            # the field is declared NotRequired[T]; "if you pass a class, the provider will be applied to all same
            # types" does not say whether the qualifier is looked through (adaptix: it is for loader(int, ...),
            # it is not for skip / only / map / omit_default predicates) -- predicate semantics belong to C10
            raise Unspecified("type predicate against a NotRequired-qualified field")
        return f["t"] == pred[1]
    if tag == "re":
        full = re.fullmatch(pred[1], f["n"]) is not None
        if not full and re.search(pred[1], f["n"]) is not None:
            # docs: "applied to all fields with id matched by the regex" -- anchoring is not stated
            raise Unspecified("regex predicate matches only a part of a field id")
        return full
    raise ValueError(pred)


def any_pred(preds, f, names) -> bool:
    return any(pred_matches(p, f, names) for p in as_pred_list(preds))


def provider_applies(prov, target, ms) -> bool:
    """First argument of name_mapping: "a predicate, which selects affected classes. If it is omitted, rules will
    be applied to all models"; a string selects the model placed at the field with that id (chaining example)."""
    pred = prov.get("pred")
    if pred is None:
        return True
    if pred in ("outer", "inner"):
        return pred == target
    if pred[0] == "field":
        holder = [f["n"] for f in ms["fields"] if f["t"] == "inner"]
        return target == "inner" and pred[1] in holder
    raise ValueError(pred)


def map_entries(mapspec):
    """map "can take data in two forms": a mapping, or an iterable of pairs / mappings"""
    if mapspec[0] == "dict":
        return [mapspec]
    return list(mapspec[1])


def resolve_params(recipe, target, ms):
    """Chaining: "Result name_mapping is computed by merging all parameters of matched name_mapping.  The first
    provider override parameters of next providers."  "The merging of map is different ... A new map does not
    replace others. The new iterable is concatenated to the previous." """
    params = {}
    entries = []
    for prov in recipe:
        if not provider_applies(prov, target, ms):
            continue
        for k in PARAMS:
            if k in prov and k not in params:
                params[k] = prov[k]
        if "map" in prov:
            entries.extend(map_entries(prov["map"]))
    for k in PARAMS:
        params.setdefault(k, DEFAULTS[k])
    params["map"] = entries
    return params


def definition_order(fields, kind):
    names = [f["n"] for f in fields]
    # observed and modelled, not derived from the docs: adaptix orders TypedDict fields by NAME (deliberate sort in
    # the TypedDict introspection), so "order of field definition" is the sorted order there
    return sorted(names) if kind == "typeddict" else names


def generated_key(params, order, f):
    """"Ellipsis ... replaced with the key after builtin conversions by trim_trailing_underscore, name_style and
    as_list";  as_list: "Position at the list is determined by order of field definition"."""
    if params["as_list"]:
        return order.index(f["n"])
    name = f["n"]
    if params["trim"] and name.endswith("_"):
        name = name[:-1]
    if params["style"] is not None:
        if name.endswith("_"):
            raise Unspecified("name_style applied to a name with a trailing underscore")
        name = ref_style(name, NameStyle[params["style"]])
    return name


def lookup_map(entries, f, names):
    """"Only the first element matched by its predicate is used to determine the mapping result."  Returns the raw
    mapping result or None when no element matches."""
    for ent in entries:
        if ent[0] == "dict":
            if f["n"] in ent[1]:
                return ent[1][f["n"]]
        elif ent[0] == "pair":
            if pred_matches(ent[1], f, names):
                return ent[2]
        elif ent[0] == "func":
            if pred_matches(ent[1], f, names):
                return MAP_FUNCS[ent[2]](f["n"])
        else:
            raise ValueError(ent)
    return None


def resolve_result(res, key_thunk):
    """mapping result: str | int | Ellipsis | iterable of them | None"""
    tag = res[0]
    if tag == "none":
        return None
    if tag in ("k", "i"):
        return (res[1],)
    if tag == "e":
        return (key_thunk(),)
    if tag == "p":
        return tuple(key_thunk() if el[0] == "e" else el[1] for el in res[1])
    raise ValueError(res)


def extra_targets(policy):
    if policy[0] == "field":
        return [policy[1]]
    if policy[0] == "fields":
        return list(policy[1])
    return []


def field_paths(fields, kind, params, direction):
    """field name -> path tuple | None (not presented).  Stage 1 "Determining which fields are presented" (skip has
    higher priority than only), stage 2 "Mutating names of presented fields" (map > trim / name_style; a map result
    of None skips the field "despite the match by only")."""
    names = [f["n"] for f in fields]
    order = definition_order(fields, kind)
    targets = extra_targets(params["extra_in" if direction == "in" else "extra_out"])
    out = {}
    for f in fields:
        if f["n"] in targets:
            continue  # the field receives / provides the unknown data instead of having a place of its own
        if any_pred(params["skip"], f, names) or not any_pred(params["only"], f, names):
            out[f["n"]] = None
            continue
        res = lookup_map(params["map"], f, names)
        if res is None:
            out[f["n"]] = (generated_key(params, order, f),)
        else:
            out[f["n"]] = resolve_result(res, lambda f=f: generated_key(params, order, f))
    return out


def build_tree(paths, optional, as_list):  # noqa: C901, PLR0912
    """paths -> tree of ("dict", {key: node}) | ("list", [node | ("gap",)]) | ("field", name)."""
    present = {n: p for n, p in paths.items() if p is not None}
    if not present:
        return ("list", []) if as_list else ("dict", {})
    seen = {}
    for n, p in present.items():
        if len(p) == 0:
            raise Invalid("empty_path")
        if any(type(k) is int and k < 0 for k in p):
            raise Invalid("negative_index")
        if p in seen:
            raise Invalid("duplicate_path")
        seen[p] = n
    for p in present.values():
        for q in present.values():
            if len(p) < len(q) and q[:len(p)] == p:
                raise Invalid("prefix_path")
    root = {}
    for n, p in present.items():
        cur = root
        for i, k in enumerate(p):
            last = i == len(p) - 1
            want = int if type(k) is int else str
            if cur.setdefault("$kt", want) is not want:
                raise Invalid("mixed_key_types")
            ch = cur.setdefault("ch", {})
            if last:
                if want is int and n in optional:
                    raise Invalid("optional_at_list")
                ch[k] = ("field", n)
            else:
                cur = ch.setdefault(k, {})

    def freeze(node):
        if isinstance(node, tuple):
            return node
        if node["$kt"] is str:
            return ("dict", {k: freeze(v) for k, v in node["ch"].items()})
        size = max(node["ch"]) + 1
        return ("list", [freeze(node["ch"][i]) if i in node["ch"] else ("gap",) for i in range(size)])
    return freeze(root)


def tree_has(node, what, root=True) -> bool:
    if node[0] == "dict":
        return (what == "nested_dict" and not root) or any(tree_has(c, what, False) for c in node[1].values())
    if node[0] == "list":
        return what == "list" or (what == "gap" and any(c[0] == "gap" for c in node[1])) \
            or any(tree_has(c, what, False) for c in node[1])
    return False


class RefLayout:
    """Everything the documentation fixes about one model under one recipe, for one direction."""

    def __init__(self, ms, recipe, target, direction, strict):  # noqa: C901, PLR0912
        self.ms = ms
        self.target = target
        self.direction = direction
        self.strict = strict
        self.fields = ms["fields"] if target == "outer" else ms["inner"]["fields"]
        self.kind = ms["kind"] if target == "outer" else "dataclass"
        self.by_name = {f["n"]: f for f in self.fields}
        self.params = resolve_params(recipe, target, ms)
        p = self.params
        ein, eout = p["extra_in"], p["extra_out"]
        self.policy = {"skip": "skip", "forbid": "forbid"}.get(ein[0], "collect")
        self.extra_in, self.extra_out = ein, eout
        names = [f["n"] for f in self.fields]
        if direction == "in":
            self.optional = {f["n"] for f in self.fields if f["p"] != "req"}
            for t in extra_targets(ein):
                if t not in self.by_name:
                    raise Invalid("extra_target_is_no_field")
                if self.by_name[t]["t"] != "dict":
                    raise Unspecified("extra_in target field is not a mapping")
            if ein[0] == "kwargs" and self.kind != "initkw":
                raise Unspecified("ExtraKwargs for a constructor without **kwargs")
            if target == "inner" and self.policy == "collect":
                raise Unspecified("collecting extra_in on the nested model (not generated on purpose)")
        else:
            self.optional = {f["n"] for f in self.fields if f["p"] == "nr"}
            for t in extra_targets(eout):
                if t not in self.by_name:
                    raise Invalid("extra_target_is_no_field")
                if self.by_name[t]["t"] != "dict":
                    raise Unspecified("extra_out target field is not a mapping")
            if target == "inner" and eout[0] != "skip":
                raise Unspecified("extra_out on the nested model (not generated on purpose)")
        self.paths = field_paths(self.fields, self.kind, p, direction)
        self.tree = build_tree(self.paths, self.optional, p["as_list"])
        if direction == "in":
            skipped_required = [n for n, path in self.paths.items() if path is None and n not in self.optional]
            if skipped_required:
                # "Excluding the required field makes it impossible to create a loader, but the dumper will work"
                raise Invalid("required_field_skipped", documented=True)
            if self.policy == "collect" and tree_has(self.tree, "list"):
                # "Only ExtraSkip and ExtraForbid is could be used with mapping to list."
                raise Invalid("collect_with_list")
        elif eout[0] != "skip" and self.tree[0] == "list":
            raise Invalid("extra_out_with_list")
        self.omit = set()
        if direction == "out":
            od = p["omit_default"]
            for f in self.fields:
                if f["p"] in ("dv", "df") and self.paths.get(f["n"]) is not None:
                    if (od is True) or (od not in (True, False) and any_pred(od, f, names)):
                        self.omit.add(f["n"])
        self.inner = None
        if target == "outer" and any(f["t"] == "inner" for f in self.fields):
            self.inner = RefLayout(ms, recipe, "inner", direction, strict)

    # ------------------------------------------------------------------------------------------------ loading
    def load(self, datum):
        """-> (values {field: json}, errors [(trail, kind, detail)], extras mapping | None)"""
        errors = []
        values = {}
        extras = self._walk(self.tree, datum, (), errors, values)
        for f in self.fields:
            n = f["n"]
            if n in values or n in extra_targets(self.extra_in):
                continue
            if n in self.optional:
                values[n] = ABSENT if f["p"] == "nr" else f["d"] if f["t"] != "inner" else {"$inner": dict(f["d"])}
        if self.policy != "collect":
            extras = None
        elif extras is None:
            extras = {}
        return values, errors, extras

    def _leaf(self, f, v, trail, errors, values):
        t = f["t"]
        if t in SCALARS:
            if type(v) is SCALARS[t]:
                values[f["n"]] = v
            elif not self.strict:
                raise Unspecified("lax coercion of an ill-typed scalar")
            else:
                errors.append((trail, "type", None))
        elif t == "dict":
            if isinstance(v, dict):
                values[f["n"]] = dict(v)
            elif not self.strict:
                raise Unspecified("lax coercion of an ill-typed mapping")
            else:
                errors.append((trail, "type", None))
        else:
            sub_values, sub_errors, _ = self.inner.load(v)
            errors.extend((trail + tr, k, d) for tr, k, d in sub_errors)
            if not sub_errors:
                values[f["n"]] = {"$inner": sub_values}

    def _walk(self, node, d, trail, errors, values):  # noqa: C901, PLR0912
        if node[0] == "dict":
            if not isinstance(d, dict):
                errors.append((trail, "type", None))
                return None
            missing = set()
            ext = {}
            for k, ch in node[1].items():
                if k not in d:
                    if not (ch[0] == "field" and ch[1] in self.optional):
                        missing.add(k)  # container nodes are required (observed: dumped even when empty)
                    continue
                if ch[0] == "field":
                    self._leaf(self.by_name[ch[1]], d[k], (*trail, k), errors, values)
                else:
                    sub = self._walk(ch, d[k], (*trail, k), errors, values)
                    if sub:
                        ext[k] = sub  # unknown data found below a flattened container stays below its key
            if missing:
                errors.append((trail, "missing_fields", frozenset(missing)))
            unknown = set(d) - set(node[1])
            if unknown and self.policy == "forbid":
                errors.append((trail, "extra_fields", frozenset(unknown)))
            for k in unknown:
                ext[k] = d[k]
            return ext
        if node[0] == "list":
            if not isinstance(d, list):
                if isinstance(d, str) and not self.strict:
                    raise Unspecified("str given for a list node without strict_coercion")
                errors.append((trail, "type", None))
                return None
            for i, ch in enumerate(node[1]):
                if i >= len(d) or ch[0] == "gap":
                    continue
                if ch[0] == "field":
                    self._leaf(self.by_name[ch[1]], d[i], (*trail, i), errors, values)
                else:
                    self._walk(ch, d[i], (*trail, i), errors, values)
            if len(d) < len(node[1]):
                errors.append((trail, "missing_items", len(node[1])))
            elif len(d) > len(node[1]) and self.policy == "forbid":
                errors.append((trail, "extra_items", len(node[1])))
            return None
        raise ValueError(node)

    # ------------------------------------------------------------------------------------------------ dumping
    def dump(self, obj, extract=None):
        """obj {field: json | ABSENT} -> datum"""
        out = self._dump_node(self.tree, obj)
        merged = []
        for t in extra_targets(self.extra_out):
            if obj[t] != ABSENT:
                merged.append(obj[t])
        if self.extra_out[0] == "extractor":
            merged.append(extract or {})
        for m in merged:
            for k, v in m.items():
                if k in out:
                    # "Output mapping keys have not collide with keys of dumped model. Otherwise the result is
                    # not guaranteed." / "Priority of output mapping is not guaranteed."
                    raise Unspecified("extra_out key collides with a dumped key")
                out[k] = v
        return out

    def _dump_leaf(self, f, v):
        if f["t"] == "inner":
            return self.inner.dump(v)
        if f["t"] == "dict":
            return dict(v)
        return v

    def _dump_node(self, node, obj):
        if node[0] == "dict":
            out = {}
            for k, ch in node[1].items():
                if ch[0] == "field":
                    f = self.by_name[ch[1]]
                    v = obj[f["n"]]
                    if v == ABSENT and f["p"] == "nr":
                        continue
                    # "Values that are equal to default, will be stripped from the resulting dict."
                    if f["n"] in self.omit and same_json(v, f["d"]):
                        continue
                    out[k] = self._dump_leaf(f, v)
                else:
                    out[k] = self._dump_node(ch, obj)
            return out
        items = []
        for ch in node[1]:
            if ch[0] == "gap":
                items.append(None)  # "list layouts fill gaps with None placeholders"
            elif ch[0] == "field":
                items.append(self._dump_leaf(self.by_name[ch[1]], obj[ch[1]]))
            else:
                items.append(self._dump_node(ch, obj))
        return items


def make_layout(ms, recipe, direction, strict):
    """-> ("ok", RefLayout) | ("invalid", Invalid) | ("unspecified", reason)"""
    try:
        return "ok", RefLayout(ms, recipe, "outer", direction, strict)
    except Invalid as e:
        return "invalid", e
    except Unspecified as e:
        return "unspecified", str(e)


# =====================================================================================================================
# 3. The adaptix side: recipe from the same pure data
# =====================================================================================================================
class Recorder:
    def __init__(self):
        self.saturated = []

    def saturator(self, model, extra):
        self.saturated.append((model, extra))


def build_pred(p, built: Built):
    tag = p[0]
    if tag == "any":
        return P.ANY
    if tag in ("name", "re"):
        return p[1]
    if tag == "type":
        return SCALARS[p[1]] if p[1] in SCALARS else {"inner": built.inner}[p[1]]
    raise ValueError(p)


def build_preds(preds, built):
    if preds and isinstance(preds[0], str):
        return build_pred(preds, built)
    return [build_pred(p, built) for p in preds]


def build_result(res):
    tag = res[0]
    if tag == "none":
        return None
    if tag in ("k", "i"):
        return res[1]
    if tag == "e":
        return ...
    if tag == "p":
        seq = [... if el[0] == "e" else el[1] for el in res[1]]
        return tuple(seq) if len(res) < 3 or res[2] == "tuple" else seq
    raise ValueError(res)


def _wrap_func(fname):
    def func(shape, fld):
        return build_result(MAP_FUNCS[fname](fld.id))
    return func


def build_map(mapspec, built):
    def entry(ent):
        if ent[0] == "dict":
            return {k: build_result(v) for k, v in ent[1].items()}
        if ent[0] == "pair":
            return (build_pred(ent[1], built), build_result(ent[2]))
        if ent[0] == "func":
            return (build_pred(ent[1], built), _wrap_func(ent[2]))
        raise ValueError(ent)
    if mapspec[0] == "dict":
        return entry(mapspec)
    return [entry(e) for e in mapspec[1]]


def build_recipe(recipe, built: Built, rec: Recorder, extract):
    provs = []
    for prov in recipe:
        kw = {}
        args = []
        pred = prov.get("pred")
        if pred == "outer":
            args.append(built.outer)
        elif pred == "inner":
            args.append(built.inner)
        elif pred is not None:
            args.append(pred[1])
        if "skip" in prov:
            kw["skip"] = build_preds(prov["skip"], built)
        if "only" in prov:
            kw["only"] = build_preds(prov["only"], built)
        if "map" in prov:
            kw["map"] = build_map(prov["map"], built)
        if "as_list" in prov:
            kw["as_list"] = prov["as_list"]
        if "trim" in prov:
            kw["trim_trailing_underscore"] = prov["trim"]
        if "style" in prov:
            kw["name_style"] = None if prov["style"] is None else NameStyle[prov["style"]]
        if "omit_default" in prov:
            od = prov["omit_default"]
            kw["omit_default"] = od if od in (True, False) else build_preds(od, built)
        if "extra_in" in prov:
            e = prov["extra_in"]
            kw["extra_in"] = {"skip": ExtraSkip(), "forbid": ExtraForbid(), "kwargs": ExtraKwargs(),
                              "saturator": rec.saturator}.get(e[0]) or (e[1] if e[0] == "field" else list(e[1]))
        if "extra_out" in prov:
            e = prov["extra_out"]
            if e[0] == "skip":
                kw["extra_out"] = ExtraSkip()
            elif e[0] == "extractor":
                kw["extra_out"] = lambda obj, _m=extract: dict(_m)
            else:
                kw["extra_out"] = e[1] if e[0] == "field" else list(e[1])
        provs.append(name_mapping(*args, **kw))
    return provs


def classify(exc):
    """exception raised by a loader -> [(absolute trail, kind, detail)] ; foreign leaves get kind 'foreign:<type>'"""
    out = []
    for trail, leaf in leaves(exc):
        if isinstance(leaf, le.ExtraFieldsLoadError):
            out.append((trail, "extra_fields", frozenset(leaf.fields)))
        elif isinstance(leaf, le.NoRequiredFieldsLoadError):
            out.append((trail, "missing_fields", frozenset(leaf.fields)))
        elif isinstance(leaf, le.NoRequiredItemsLoadError):
            out.append((trail, "missing_items", leaf.expected_len))
        elif isinstance(leaf, le.ExtraItemsLoadError):
            out.append((trail, "extra_items", leaf.expected_len))
        elif isinstance(leaf, le.TypeLoadError):
            out.append((trail, "type", None))
        elif isinstance(leaf, le.LoadError):
            out.append((trail, f"other:{type(leaf).__name__}", None))
        else:
            out.append((trail, f"foreign:{type(leaf).__name__}", None))
    return out


def show_errs(errs):
    return sorted((list(map(str, t)), k, sorted(d) if isinstance(d, frozenset) else d) for t, k, d in errs)


# =====================================================================================================================
# 4. The oracle
# =====================================================================================================================
def recipe_features(ms, recipe, lay_in, lay_out):  # noqa: C901, PLR0912
    feats = set()
    nondefault = set()
    for prov in recipe:
        for k in PARAMS + ("map",):
            if k in prov and prov[k] != DEFAULTS.get(k, None):
                nondefault.add(k)
        if "map" in prov:
            for ent in map_entries(prov["map"]):
                feats.add({"dict": "map_dict", "pair": "map_pair", "func": "map_func"}[ent[0]])
                results = list(ent[1].values()) if ent[0] == "dict" else [ent[2]] if ent[0] == "pair" else []
                for r in results:
                    if r[0] == "none":
                        feats.add("map_none")
                    if r[0] == "e" or (r[0] == "p" and any(el[0] == "e" for el in r[1])):
                        feats.add("ellipsis")
        if prov.get("pred") is not None and prov["pred"] not in ("outer", "inner"):
            feats.add("pred_by_field")
        if prov.get("pred") is None:
            feats.add("pred_omitted")
    for k in nondefault:
        feats.add(f"p:{k}")
    complex_path = False
    for lay in (lay_in, lay_out):
        if lay is None:
            continue
        if tree_has(lay.tree, "nested_dict"):
            feats.add("nested_path")
            complex_path = True
        if tree_has(lay.tree, "list"):
            feats.add("list_node")
            complex_path = True
        if tree_has(lay.tree, "gap"):
            feats.add("list_gap")
        if any(p is None for p in lay.paths.values()):
            feats.add("field_not_presented")
        if lay.inner is not None and (lay.inner.tree[0] == "list" or lay.inner.params != resolve_params([], "inner", ms)):
            feats.add("inner_configured")
    return feats, (len(nondefault) >= 2 or complex_path)


def skeleton_only_difference(expected, actual, tree) -> bool:
    """True when ``actual`` equals ``expected`` after removing mappings that sit at container keys of the layout
    and hold nothing but (recursively) empty container mappings."""
    if not isinstance(actual, dict) or not isinstance(expected, dict):
        return False

    def strip(a, node):
        if not isinstance(a, dict) or node[0] != "dict":
            return a
        out = {}
        for k, v in a.items():
            ch = node[1].get(k)
            if ch is not None and ch[0] == "dict" and isinstance(v, dict):
                sv = strip(v, ch)
                if sv == {}:
                    continue
                out[k] = sv
            else:
                out[k] = v
        return out
    return not same_json(expected, actual) and same_json(expected, strip(actual, tree))


def check_case(ctx: runner.Ctx, case):  # noqa: C901, PLR0912, PLR0915
    if case.get("probe_kind") == "omit_equal":
        return probes03.check_omit_equal(ctx, case)
    if case.get("probe_kind") == "inherit":
        return probes03.check_inherit(ctx, case)
    ms, recipe, strict = case["model"], case["recipe"], case["strict"]
    extract = case.get("extract") or {}
    if case.get("excluded_known"):
        ctx.count("excluded_known", case["excluded_known"])
    built = build_models(ms)

    st_in, lay_in = make_layout(ms, recipe, "in", strict)
    st_out, lay_out = make_layout(ms, recipe, "out", strict) if ms["kind"] != "initkw" else ("skip", None)
    feats, recipe_nt = recipe_features(ms, recipe, lay_in if st_in == "ok" else None,
                                       lay_out if st_out == "ok" else None)
    base_labels = [f"kind:{ms['kind']}", f"stack:{len(recipe)}", f"strict:{strict}", *[f"feat:{x}" for x in sorted(feats)]]
    family = "+".join(sorted(x for x in feats if x in ("nested_path", "list_node"))) or "flat"

    def viol(kind, discr, detail):
        ctx.violation(kind, discr, case, detail)

    for mode in range(3):
        rec = Recorder()
        retort = Retort(recipe=build_recipe(recipe, built, rec, extract), strict_coercion=strict,
                        debug_trail=DEBUG[mode])
        mlabel = f"mode:{DEBUG_NAMES[mode]}"

        # ------------------------------------------------------------------------------------------- loader
        loader = None
        try:
            loader = retort.get_loader(built.outer)
        except ProviderNotFoundError as e:
            if st_in == "ok":
                viol("loader_creation_refused", (family, f"in:{lay_in.policy}"), describe(e))
            elif st_in == "invalid":
                ctx.count(f"invalid_config_refused:{lay_in.why}")
            else:
                ctx.count("unspecified_config:loader_refused")
        except Exception as e:  # noqa: BLE001
            if st_in == "ok" or (st_in == "invalid" and lay_in.documented):
                viol("loader_creation_crashed", (type(e).__name__, exc_site(e)), describe(e))
            else:
                ctx.count(f"unspecified_config:loader_creation_{type(e).__name__}")
        else:
            ctx.count("programs_compiled")
            if st_in == "invalid":
                if lay_in.documented:
                    viol("loader_created_for_invalid_config", (lay_in.why,), "docs: excluding the required field "
                         "makes it impossible to create a loader")
                else:
                    ctx.count(f"unspecified:invalid_config_accepted:{lay_in.why}")
                loader = None
            elif st_in == "unspecified":
                ctx.count("unspecified_config:loader")
                loader = None
        if st_in != "ok":
            ctx.case([ms, recipe, strict, mode, "L-config"], False,
                     labels=[*base_labels, mlabel, "dir:load", f"cfg:{st_in}"])
        if loader is not None:
            for datum in case["data"]:
                check_load(ctx, case, built, lay_in, loader, rec, mode, datum, base_labels + [mlabel], recipe_nt,
                           family, viol)

        # ------------------------------------------------------------------------------------------- dumper
        if st_out == "skip":
            continue
        dumper = None
        try:
            dumper = retort.get_dumper(built.outer)
        except ProviderNotFoundError as e:
            if st_out == "ok":
                viol("dumper_creation_refused", (family, f"out:{lay_out.extra_out[0]}"), describe(e))
            elif st_out == "invalid":
                ctx.count(f"invalid_config_refused:{lay_out.why}")
            else:
                ctx.count("unspecified_config:dumper_refused")
        except Exception as e:  # noqa: BLE001
            if st_out == "ok":
                viol("dumper_creation_crashed", (type(e).__name__, exc_site(e)), describe(e))
            else:
                ctx.count(f"unspecified_config:dumper_creation_{type(e).__name__}")
        else:
            ctx.count("programs_compiled")
            if st_out == "invalid":
                ctx.count(f"unspecified:invalid_config_accepted:{lay_out.why}")
                dumper = None
            elif st_out == "unspecified":
                ctx.count("unspecified_config:dumper")
                dumper = None
        if st_out != "ok":
            ctx.case([ms, recipe, strict, mode, "D-config"], False,
                     labels=[*base_labels, mlabel, "dir:dump", f"cfg:{st_out}"])
        if dumper is not None:
            for obj in case["objs"]:
                check_dump(ctx, case, built, lay_out, dumper, mode, obj, extract, base_labels + [mlabel], recipe_nt,
                           family, viol)


def check_load(ctx, case, built, lay, loader, rec, mode, datum, labels, recipe_nt, family, viol):  # noqa: C901, PLR0912, PLR0913, PLR0915
    ms = built.ms
    key = [ms, case["recipe"], case["strict"], mode, "L", datum]
    labels = [*labels, "dir:load", f"in:{lay.extra_in[0]}"]
    try:
        values, ref_errors, ref_extras = lay.load(datum)
    except Unspecified as e:
        ctx.count(f"unspecified_input:{e}")
        ctx.case(key, False, labels=[*labels, "load:unspecified"])
        return
    if lay.extra_in[0] == "kwargs" and ref_extras and set(ref_extras) & {f["n"] for f in ms["fields"]}:
        # "If an unknown field collides with the original field name, TypeError will be raised"
        ctx.count("unspecified_input:kwargs_collide_with_parameter")
        ctx.case(key, False, labels=[*labels, "load:unspecified"])
        return
    has_optional = any(lay.paths.get(n) is not None for n in lay.optional)
    input_nt = bool(ref_errors) or has_optional or bool(ref_extras)
    labels.append("load:reject" if ref_errors else "load:accept")
    labels.extend(sorted({f"err:{k}" for _, k, _ in ref_errors}))
    if len(ref_errors) >= 2:
        labels.append("err:multiple")
    if ref_extras:
        labels.append("input:unknown_keys_collected")
    ctx.case(key, recipe_nt and input_nt,
             sample={"model": ms, "recipe": case["recipe"], "strict": case["strict"], "mode": DEBUG_NAMES[mode],
                     "datum": datum, "expected_errors": show_errs(ref_errors)},
             labels=labels)
    del rec.saturated[:]
    try:
        result = loader(datum)
    except Exception as e:  # noqa: BLE001
        got = classify(e)
        foreign = [g for g in got if g[1].startswith("foreign:")]
        if foreign or not isinstance(e, le.LoadError):
            container_keys = {k for k, ch in lay.tree[1].items() if ch[0] == "dict"} if lay.tree[0] == "dict" else set()
            if (isinstance(e, TypeError) and lay.extra_in[0] == "kwargs" and not ref_errors
                    and container_keys & set(lay.by_name) and "multiple values" in str(e)):
                # same root cause as the container skeleton: the key of a flattened container (a KNOWN key) is
                # passed as **kwargs and collides with the parameter of the same name
                viol("load_extras_mismatch", ("container_skeleton", "kwargs_parameter_collision"),
                     f"datum={datum!r}: {describe(e)}\nno unknown key equals a parameter name; unknown data is "
                     f"{ref_extras!r}")
                return
            viol("load_non_loaderror", (type(e).__name__, exc_site(e)), f"datum={datum!r}: {describe(e)}")
            return
        if not ref_errors:
            viol("load_rejected_valid_input", (family, f"in:{lay.policy}", "+".join(sorted({g[1] for g in got}))),
                 f"mode={DEBUG_NAMES[mode]} datum={datum!r}\nraised={show_errs(got)}")
            return
        if mode == 2:
            ok = sorted(show_errs(got)) == sorted(show_errs(ref_errors))
        elif mode == 1:
            ok = len(got) >= 1 and all(g in ref_errors for g in got)
        else:
            pool = {(k, d) for _, k, d in ref_errors}
            ok = len(got) >= 1 and all((k, d) in pool for _, k, d in got)  # trails in DISABLE mode are C05's subject
        if not ok:
            missing = {k for _, k, _ in ref_errors} - {k for _, k, _ in got}
            surplus = {k for _, k, _ in got} - {k for _, k, _ in ref_errors}
            what = ("missing:" + "+".join(sorted(missing)) if missing else "") + \
                   ("surplus:" + "+".join(sorted(surplus)) if surplus else "") or "detail_or_trail"
            viol("load_wrong_errors", (DEBUG_NAMES[mode], what, family),
                 f"datum={datum!r}\nexpected={show_errs(ref_errors)}\nraised={show_errs(got)}")
        return
    if ref_errors:
        viol("load_accepted_invalid_input", (family, f"in:{lay.policy}", "+".join(sorted({k for _, k, _ in ref_errors}))),
             f"mode={DEBUG_NAMES[mode]} datum={datum!r}\nexpected errors={show_errs(ref_errors)}\nresult={result!r}")
        return
    # ---- success on both sides: compare the created object and where the unknown data went
    problems = []
    got = canon_object(built, result, problems)
    exp_fields, exp_absent = {}, []
    for f in ms["fields"]:
        n = f["n"]
        if n in extra_targets(lay.extra_in):
            exp_fields[n] = ref_extras
        elif values[n] == ABSENT and f["p"] == "nr":
            exp_absent.append(n)
        else:
            exp_fields[n] = values[n]
    if problems:
        viol("load_wrong_result", ("type", family), f"datum={datum!r}: {problems}")
        return
    targets = extra_targets(lay.extra_in)
    for n in sorted(set(exp_fields) | set(got["fields"])):
        if n in exp_fields and n in got["fields"] and same_json(exp_fields[n], got["fields"][n]):
            continue
        if n in targets and n in got["fields"] and skeleton_only_difference(exp_fields[n], got["fields"][n], lay.tree):
            viol("load_extras_mismatch", ("container_skeleton", "target_field"),
                 f"datum={datum!r}\nfield {n!r} received {got['fields'][n]!r}, unknown data is {exp_fields[n]!r}")
        elif n in targets:
            viol("load_extras_mismatch", ("other", "target_field", family),
                 f"datum={datum!r}\nfield {n!r} received {got['fields'].get(n)!r}, unknown data is {exp_fields[n]!r}")
        else:
            viol("load_wrong_result", ("field_value", family, lay.by_name[n]["t"]),
                 f"mode={DEBUG_NAMES[mode]} datum={datum!r}\nfield {n!r}: expected {exp_fields.get(n, '<absent>')!r} "
                 f"got {got['fields'].get(n, '<absent>')!r}\npaths={lay.paths}")
    if sorted(exp_absent) != sorted(got["absent"]):
        viol("load_wrong_result", ("not_required_presence", family),
             f"datum={datum!r}: absent keys expected {sorted(exp_absent)} got {sorted(got['absent'])}")
    if lay.extra_in[0] == "kwargs":
        if not same_json(ref_extras, got["kwargs"]):
            sk = skeleton_only_difference(ref_extras, got["kwargs"], lay.tree)
            viol("load_extras_mismatch", ("container_skeleton" if sk else "other", "kwargs") + (() if sk else (family,)),
                 f"datum={datum!r}\nkwargs received {got['kwargs']!r}, unknown data is {ref_extras!r}")
    elif got["kwargs"]:
        viol("load_extras_mismatch", ("other", "kwargs_without_policy", family),
             f"datum={datum!r}\nkwargs received {got['kwargs']!r} under policy {lay.extra_in}")
    if lay.extra_in[0] == "saturator":
        if len(rec.saturated) != 1 or rec.saturated[0][0] is not result:
            viol("load_extras_mismatch", ("other", "saturator_calls", family),
                 f"datum={datum!r}: saturator called {len(rec.saturated)} times / not with the created model")
        else:
            delivered = dict(rec.saturated[0][1])
            if not same_json(ref_extras, delivered):
                sk = skeleton_only_difference(ref_extras, delivered, lay.tree)
                viol("load_extras_mismatch", ("container_skeleton" if sk else "other", "saturator") + (() if sk else (family,)),
                     f"datum={datum!r}\nsaturator received {delivered!r}, unknown data is {ref_extras!r}")
    elif rec.saturated:
        viol("load_extras_mismatch", ("other", "saturator_without_policy", family), f"datum={datum!r}")


def check_dump(ctx, case, built, lay, dumper, mode, obj, extract, labels, recipe_nt, family, viol):  # noqa: C901, PLR0913
    ms = built.ms
    key = [ms, case["recipe"], case["strict"], mode, "D", obj]
    labels = [*labels, "dir:dump", f"out:{lay.extra_out[0]}"]
    try:
        expected = lay.dump(obj, extract)
    except Unspecified as e:
        ctx.count(f"unspecified_input:{e}")
        ctx.case(key, False, labels=[*labels, "dump:unspecified"])
        return
    omitted = [n for n in lay.omit if same_json(obj[n], lay.by_name[n]["d"])
               and not isinstance(lay.paths[n][-1], int)]
    absent = [n for n in lay.optional if obj[n] == ABSENT]
    if lay.omit:
        labels.append("dump:omit_default_applies")
    if omitted:
        labels.append("dump:value_equals_default")
    if absent:
        labels.append("dump:not_required_absent")
    input_nt = bool(lay.omit) or bool(lay.optional) or lay.extra_out[0] != "skip" or \
        any(f["p"] != "req" for f in ms["fields"])
    ctx.case(key, recipe_nt and input_nt,
             sample={"model": ms, "recipe": case["recipe"], "mode": DEBUG_NAMES[mode], "obj": obj,
                     "expected_dump": expected},
             labels=labels)
    instance = make_object(built, obj)
    try:
        got = dumper(instance)
    except Exception as e:  # noqa: BLE001
        viol("dump_crashed", (type(e).__name__, exc_site(e)), f"obj={obj!r}: {describe(e)}")
        return
    if same_json(expected, got):
        return
    # classify the difference
    what = "other"
    kept = [n for n in omitted if lay.by_name[n]["t"] == "inner"]
    if kept:
        # would the datum be right if the nested-model fields equal to their default had been kept?
        saved = set(lay.omit)
        lay.omit = saved - set(kept)
        try:
            if same_json(lay.dump(obj, extract), got):
                what = "omit_default_nested_model_kept"
        finally:
            lay.omit = saved
    if what == "other" and lay.omit:
        saved = set(lay.omit)
        lay.omit = set()
        try:
            if same_json(lay.dump(obj, extract), got):
                what = "omit_default_ignored"
        finally:
            lay.omit = saved
    discr = (what,) if what == "omit_default_nested_model_kept" else (what, family, f"out:{lay.extra_out[0]}")
    viol("dump_mismatch", discr,
         f"mode={DEBUG_NAMES[mode]} obj={obj!r}\nexpected={json.dumps(expected, sort_keys=True, default=repr)}\n"
         f"got     ={json.dumps(got, sort_keys=True, default=repr)}\npaths={lay.paths} omit={sorted(lay.omit)}")


# =====================================================================================================================
# 5. Generators
# =====================================================================================================================
NAME_POOL = ["a", "b", "c", "id", "kind", "user_id", "first_name", "is_ok", "from_", "class_", "x_y_z", "val"]
DICT_NAMES = ["extra", "rest"]
INNER_NAMES = ["a", "b", "id", "inner_val", "from_", "kind"]
FLAT_KEYS = ["K0", "K1", "K2", "K3", "K4", "K5", "k-6", "K 7", "é8", "9", "", "a", "id"]
GROUPS = ["g1", "g2", "G", "a"]
STYLES = [s.name for s in NameStyle]
INT_VALUES = [0, 1, -1, 7, 2 ** 40]
STR_VALUES = ["", "x", "None", "é", "1"]


def st_scalar(t):
    return {"int": st.sampled_from(INT_VALUES), "str": st.sampled_from(STR_VALUES), "bool": st.booleans()}[t]


@st.composite
def st_model(draw):  # noqa: C901, PLR0912
    kind = draw(st.sampled_from(["dataclass", "dataclass", "attrs", "namedtuple", "typeddict", "typeddict", "initkw"]))
    n = draw(st.integers(0, 4)) if draw(st.integers(0, 9)) == 0 else draw(st.integers(1, 4))
    names = draw(st.lists(st.sampled_from(NAME_POOL), min_size=n, max_size=n, unique=True))
    has_inner = draw(st.integers(0, 2)) == 0
    ndict = draw(st.sampled_from([0, 0, 1, 1, 2, 2]))
    inner = None
    if has_inner:
        k = draw(st.integers(1, 3))
        inames = draw(st.lists(st.sampled_from(INNER_NAMES), min_size=k, max_size=k, unique=True))
        ifields = []
        for nm in inames:
            t = draw(st.sampled_from(["int", "str", "bool"]))
            p = draw(st.sampled_from(["req", "req", "dv"]))
            ifields.append({"n": nm, "t": t, "p": p, "d": draw(st_scalar(t)) if p == "dv" else None})
        ifields.sort(key=lambda f: f["p"] != "req")
        inner = {"fields": ifields}
    presences = {"dataclass": ["req", "req", "dv", "df"], "attrs": ["req", "req", "dv", "df"],
                 "namedtuple": ["req", "req", "dv"], "typeddict": ["req", "req", "nr"],
                 "initkw": ["req", "req", "dv"]}[kind]
    if draw(st.integers(0, 3)) == 0:
        presences = ["req"]  # all-required shapes are what list layouts need
    fields = []
    for nm in names:
        t = draw(st.sampled_from(["int", "int", "str", "bool"]))
        p = draw(st.sampled_from(presences))
        fields.append({"n": nm, "t": t, "p": p, "d": draw(st_scalar(t)) if p in ("dv", "df") else None})
    if has_inner:
        p = draw(st.sampled_from(presences))
        d = None
        if p in ("dv", "df"):
            d = {f["n"]: draw(st_scalar(f["t"])) if draw(st.booleans()) or f["p"] == "req" else f["d"]
                 for f in inner["fields"]}
        fields.insert(draw(st.integers(0, len(fields))), {"n": "inner_f", "t": "inner", "p": p, "d": d})
    for nm in DICT_NAMES[:ndict]:
        choices = {"dataclass": ["req", "df"], "attrs": ["req", "df"], "namedtuple": ["req"],
                   "typeddict": ["req", "nr"], "initkw": ["req"]}[kind]
        p = draw(st.sampled_from(choices))
        fields.insert(draw(st.integers(0, len(fields))), {"n": nm, "t": "dict", "p": p, "d": {} if p == "df" else None})
    kw_only = kind in ("dataclass", "attrs") and draw(st.booleans())
    if not kw_only and kind != "typeddict":
        fields.sort(key=lambda f: f["p"] != "req")  # python: parameters without a default come first
    return {"kind": kind, "kw_only": kw_only, "fields": fields, "inner": inner}


def st_pred(fields, allow_inner_type=True):
    names = [f["n"] for f in fields] or ["a"]
    types = sorted({f["t"] for f in fields if f["t"] in SCALARS or (f["t"] == "inner" and allow_inner_type)}) or ["int"]
    if any(f["p"] == "nr" for f in fields):
        types = []  # type predicates against NotRequired[T] fields are an unspecified zone (see pred_matches)
    return st.one_of(
        st.sampled_from(names).map(lambda n: ["name", n]),
        st.sampled_from(names).map(lambda n: ["name", n]),
        st.lists(st.sampled_from(names), min_size=2, max_size=2, unique=True).map(lambda ns: ["re", "|".join(ns)])
        if len(names) >= 2 else st.just(["name", names[0]]),
        st.sampled_from(types).map(lambda t: ["type", t]) if types else st.just(["any"]),
        st.just(["any"]),
    )


@st.composite
def st_preds(draw, fields, prefer=None):
    """a predicate or an iterable of predicates"""
    if prefer and draw(st.integers(0, 3)) != 0:
        base = st.sampled_from(prefer).map(lambda n: ["name", n])
    elif prefer is not None and draw(st.integers(0, 5)) != 0:
        base = st_pred(fields).filter(lambda p: p[0] != "any")
    else:
        base = st_pred(fields)
    if draw(st.booleans()):
        return draw(base)
    return draw(st.lists(base, min_size=0 if draw(st.integers(0, 9)) == 9 else 1, max_size=3))


@st.composite
def st_result(draw, family, alloc):  # noqa: C901, PLR0911
    """a mapping result; ``alloc`` hands out fresh keys / indices so that most layouts are valid"""
    r = draw(st.integers(0, 59))
    if r == 59:
        return ["none"]
    if r in (1, 2) and family in ("flat", "nested"):
        return ["e"]
    form = draw(st.sampled_from(["tuple", "list"]))
    if family == "flat":
        return ["k", alloc.key(draw)]
    if family == "list":
        return ["i", alloc.index(draw)]
    if family == "nested":
        depth = draw(st.sampled_from([1, 1, 2]))
        groups = [["k", draw(st.sampled_from(GROUPS[:3]))] for _ in range(depth)]
        last = draw(st.sampled_from([["e"], ["e"], ["k", None]]))
        if last[0] == "k":
            last = ["k", alloc.key(draw)]
        if draw(st.integers(0, 7)) == 0:
            return ["p", [["e"], *groups[:1], ["k", "leaf"]], form]
        return ["p", [*groups, last], form]
    # mixed: lists inside dicts and dicts inside lists
    if alloc.mixed_form == 0:
        return ["p", [["k", draw(st.sampled_from(["L1", "L1", "L2"]))], ["i", alloc.index(draw)]], form]
    return ["p", [["i", draw(st.integers(0, 1))], ["k", alloc.key(draw)]], form]


class Alloc:
    def __init__(self):
        self.keys = list(FLAT_KEYS)
        self.next_index = 0
        self.mixed_form = 0

    def key(self, draw):
        if draw(st.integers(0, 24)) == 24 or not self.keys:
            return draw(st.sampled_from(FLAT_KEYS))  # may collide: exercises the invalid-layout path
        return self.keys.pop(draw(st.integers(0, min(3, len(self.keys) - 1))))

    def index(self, draw):
        r = draw(st.integers(0, 11))
        if r == 11:
            return draw(st.integers(0, 3))  # may collide
        if r == 10:
            self.next_index += 1  # leave a gap
        i = self.next_index
        self.next_index += 1
        return i


@st.composite
def st_map(draw, fields, family, alloc, cover=False):
    names = [f["n"] for f in fields]
    if not names:
        return ["dict", {}]

    def some_dict():
        chosen = draw(st.lists(st.sampled_from(names), min_size=1, max_size=len(names), unique=True))
        return ["dict", {n: draw(st_result(family, alloc)) for n in chosen}]
    if cover:
        # every field gets a place of the same kind (needed for layouts whose root is a list)
        return ["dict", {n: draw(st_result(family, alloc)) for n in draw(st.permutations(names))}]
    if draw(st.integers(0, 2)) != 0:
        return some_dict()
    entries = []
    for _ in range(draw(st.integers(1, 3))):
        r = draw(st.integers(0, 5))
        if r <= 1:
            entries.append(some_dict())
        elif r <= 4:
            pred = draw(st_pred(fields))
            if pred[0] != "name" and draw(st.integers(0, 9)) != 0:
                # a predicate that can match several fields needs a result that differs per field
                if family == "nested":
                    res = ["p", [["k", draw(st.sampled_from(GROUPS[:3]))], ["e"]], draw(st.sampled_from(["tuple", "list"]))]
                elif family == "flat":
                    res = ["e"]
                else:
                    pred = ["name", draw(st.sampled_from(names))]
                    res = draw(st_result(family, alloc))
            else:
                res = draw(st_result(family, alloc))
            entries.append(["pair", pred, res])
        else:
            entries.append(["func", draw(st_pred(fields)),
                            draw(st.sampled_from(["upper", "upper", "suffix", "suffix", "group", "group", "ell", "ell", "none"]))])
    return ["list", entries]


@st.composite
def st_recipe(draw, ms, probe):  # noqa: C901, PLR0912, PLR0915
    fields = ms["fields"]
    names = [f["n"] for f in fields]
    optional_in = [f["n"] for f in fields if f["p"] != "req"]
    required_in = [f["n"] for f in fields if f["p"] == "req"]
    dict_fields = [f["n"] for f in fields if f["t"] == "dict"]
    has_inner = ms["inner"] is not None
    family = draw(st.sampled_from(["flat", "flat", "nested", "nested", "list", "list", "mixed"]))
    if probe == "skeleton":
        family = "nested"
    alloc = Alloc()
    alloc.mixed_form = draw(st.integers(0, 1))
    list_root = family == "list" or (family == "mixed" and alloc.mixed_form == 1)
    # list layouts: "as_list" (positions by definition order), a map that gives every field an index, or both
    list_variant = draw(st.sampled_from(["as_list", "as_list", "full_map", "full_map", "both"]))
    provs = []
    nprov = draw(st.sampled_from([1, 1, 2, 2, 3]))
    for pi in range(nprov):
        prov = {}
        collecting = False
        if list_root:
            if pi == 0:
                if family == "list" and list_variant in ("as_list", "both"):
                    prov["as_list"] = True
                if family == "mixed" or list_variant == "full_map":
                    prov["map"] = draw(st_map(fields, family, alloc, cover=True))
                elif list_variant == "both" and len(names) >= 2:
                    # the documented way to override the order: swap two positions
                    i, j = sorted(draw(st.lists(st.integers(0, len(names) - 1), min_size=2, max_size=2, unique=True)))
                    order = definition_order(fields, ms["kind"])
                    prov["map"] = ["dict", {order[i]: ["i", j], order[j]: ["i", i]}]
                if optional_in and draw(st.integers(0, 4)) != 0:
                    # optional fields cannot live in a list: leave them out (skip, or a map result of None)
                    if draw(st.booleans()) or "map" not in prov or prov["map"][0] != "dict":
                        prov["skip"] = [["name", n] for n in optional_in]
                    else:
                        for n in optional_in:
                            prov["map"][1][n] = ["none"]
            elif draw(st.integers(0, 3)) == 0:
                prov["map"] = draw(st_map(fields, family, alloc))
            if draw(st.integers(0, 19)) == 0:
                prov["as_list"] = draw(st.booleans())
        else:
            if draw(st.integers(0, 9)) < 6 or probe == "skeleton":
                prov["map"] = draw(st_map(fields, family, alloc))
            if draw(st.integers(0, 29)) == 0:
                prov["as_list"] = draw(st.booleans())
        if draw(st.integers(0, 3)) == 0:
            prov["style"] = draw(st.sampled_from([*STYLES, None]))
        if draw(st.integers(0, 5)) == 0:
            prov["trim"] = draw(st.booleans())
        if "skip" not in prov and draw(st.integers(0, 4 if optional_in else 23)) == 4:
            prov["skip"] = draw(st_preds(fields, prefer=optional_in))
        if draw(st.integers(0, 7)) == 7:
            if draw(st.integers(0, 7)) != 7 and names:
                keep = required_in + draw(st.lists(st.sampled_from(names), max_size=2))
                prov["only"] = [["name", n] for n in dict.fromkeys(keep)]
            else:
                prov["only"] = draw(st_preds(fields))
        if draw(st.integers(0, 2)) == 0 or probe == "omit":
            prov["omit_default"] = True if probe == "omit" else draw(st.one_of(st.just(True), st.just(True), st.just(False),
                                                                               st_preds(fields, prefer=optional_in)))
        if draw(st.integers(0, 1)) == 0 or probe == "skeleton":
            opts = [["skip"], ["forbid"], ["forbid"]]
            if not list_root:
                opts.append(["saturator"])
                if ms["kind"] == "initkw":
                    opts += [["kwargs"]] * 10
                if dict_fields:
                    opts += [["field", dict_fields[0]], ["field", dict_fields[-1]]]
                    if len(dict_fields) > 1:
                        opts += [["fields", dict_fields], ["fields", dict_fields[::-1]]] * 2
            if probe == "skeleton":
                opts = [o for o in opts if o[0] not in ("skip", "forbid")]
            elif draw(st.integers(0, 24)) == 0:
                opts = [["saturator"]]  # also with list layouts (documented as unsupported)
            prov["extra_in"] = draw(st.sampled_from(opts))
            collecting = prov["extra_in"][0] not in ("skip", "forbid")
        if ms["kind"] != "initkw" and draw(st.integers(0, 2)) == 0:
            opts = [["skip"]]
            if not list_root or draw(st.integers(0, 9)) == 0:
                opts.append(["extractor"])
                if dict_fields:
                    opts += [["field", dict_fields[0]], ["field", dict_fields[-1]]]
                    if len(dict_fields) > 1:
                        opts += [["fields", dict_fields]] * 4
            prov["extra_out"] = draw(st.sampled_from(opts))
            collecting = collecting or prov["extra_out"][0] != "skip"
        if has_inner and collecting:
            prov["pred"] = "outer"  # collecting policies are not generated for the nested model
        else:
            pred = draw(st.sampled_from([None, "outer", "outer"]))
            if pred is not None:
                prov["pred"] = pred
        provs.append(prov)
    if has_inner and draw(st.booleans()):
        ifields = ms["inner"]["fields"]
        ialloc = Alloc()
        prov = {"pred": draw(st.sampled_from(["inner", ["field", "inner_f"]]))}
        ifam = draw(st.sampled_from(["flat", "flat", "nested", "list"]))
        if ifam == "list":
            if draw(st.booleans()) and all(f["p"] == "req" for f in ifields):
                prov["as_list"] = True
            else:
                prov["map"] = draw(st_map(ifields, ifam, ialloc, cover=True))
                opt = [f["n"] for f in ifields if f["p"] != "req"]
                if opt:
                    prov["skip"] = [["name", n] for n in opt]
        elif draw(st.booleans()):
            prov["map"] = draw(st_map(ifields, ifam, ialloc))
        if draw(st.integers(0, 2)) == 0:
            prov["style"] = draw(st.sampled_from(STYLES))
        if draw(st.integers(0, 2)) == 0:
            prov["extra_in"] = ["forbid"]
        if draw(st.integers(0, 3)) == 0:
            prov["omit_default"] = True
        provs.insert(draw(st.integers(0, len(provs))), prov)
    return provs


KNOWN_IDS = {"skeleton": "C03-extra-container-skeleton", "omit": "C03-omit-default-compares-dumped-value"}


def exclusions_active() -> frozenset:
    """The generator avoids the class affected by a finding only while its entry is ``open``; once an entry is flipped
    to ``fixed`` (or removed) the whole domain is generated again, so a regression is an ordinary VIOLATION.
    VERIF_C03_NO_EXCLUDE=1 (or a comma list of skeleton,omit) switches the avoidance off by hand, e.g. to validate a
    candidate fix with VERIF_REPO=<scratch copy>."""
    import os  # noqa: PLC0415
    off = os.environ.get("VERIF_C03_NO_EXCLUDE", "")
    forced_off = set(KNOWN_IDS) if off == "1" else {x.strip() for x in off.split(",") if x.strip()}
    open_ids = {e.get("id") for e in runner.load_known(PROP) if e.get("status") == "open"}
    return frozenset(k for k, i in KNOWN_IDS.items() if i in open_ids and k not in forced_off)


def known_classes(ms, recipe, strict):
    """Which open findings this (model, recipe) would run into: used to steer the generator away / towards them."""
    out = set()
    s_in, lay_in = make_layout(ms, recipe, "in", strict)
    if s_in == "ok" and lay_in.policy == "collect" and tree_has(lay_in.tree, "nested_dict"):
        out.add("skeleton")
    if ms["kind"] != "initkw":
        s_out, lay_out = make_layout(ms, recipe, "out", strict)
        if s_out == "ok" and any(lay_out.by_name[n]["t"] == "inner" and not isinstance(lay_out.paths[n][-1], int)
                                 for n in lay_out.omit):
            out.add("omit")
    return out


def gen_value(draw, f, ms, near_default=True):
    if f["p"] in ("dv", "df") and near_default and draw(st.booleans()):
        return f["d"] if f["t"] != "dict" else dict(f["d"])
    if f["t"] in SCALARS:
        return draw(st_scalar(f["t"]))
    if f["t"] == "dict":
        pool = ["xa", "xb", "xc"] if f["n"] == "extra" else ["ya", "yb", "xc"]
        keys = draw(st.lists(st.sampled_from(pool), max_size=2, unique=True))
        return {k: draw(st.sampled_from([1, "v", None, [1], {"n": 1}])) for k in keys}
    return {g["n"]: gen_value(draw, g, ms) for g in ms["inner"]["fields"]}


ILL = {"int": ["s", None, [1], 1.5], "str": [5, None, {}], "bool": ["s", None, []], "dict": [5, None, "s", []],
       "inner": [5, None, "s"]}


def gen_datum(draw, lay: RefLayout, intensity):  # noqa: C901, PLR0912
    """Walk the reference layout and build an input: every key present / absent / ill-typed, every container right /
    wrong kind, unknown keys present / absent, lists exact / short / long."""
    ms = lay.ms
    fault = (lambda n: False) if intensity == 0 else (lambda n: draw(st.integers(0, n if intensity == 1 else n // 3)) == 0)
    names_pool = ["zz", "u_1", "extra", "Extra"] + [f["n"] for f in lay.fields]
    for f in lay.fields:
        for style in ("CAMEL", "UPPER_SNAKE"):
            if not f["n"].endswith("_"):
                names_pool.append(ref_style(f["n"], NameStyle[style]))
        names_pool.append(f["n"].rstrip("_"))
    if lay.extra_in[0] == "kwargs":
        names_pool = [n for n in names_pool if n not in lay.by_name]

    def leaf(f):
        if lay.strict and fault(12):
            return draw(st.sampled_from(ILL[f["t"]]))
        if f["t"] == "inner":
            return gen_datum(draw, lay.inner, intensity)
        if f["t"] == "dict":
            return gen_value(draw, f, ms, near_default=False)
        return draw(st_scalar(f["t"]))

    def node(nd):
        if nd[0] == "dict":
            if fault(14):
                return draw(st.sampled_from([[], 5, None, "s", [1, 2]]))
            out = {}
            for k, ch in nd[1].items():
                if ch[0] == "field":
                    f = lay.by_name[ch[1]]
                    if ch[1] in lay.optional:
                        if draw(st.integers(0, 9)) < 4:
                            continue
                    elif fault(12):
                        continue
                    out[k] = leaf(f)
                else:
                    if fault(14):
                        continue
                    out[k] = node(ch)
            if draw(st.integers(0, 2)) == 0:
                for name in draw(st.lists(st.sampled_from(names_pool), min_size=1, max_size=2, unique=True)):
                    if name not in nd[1]:
                        out[name] = draw(st.sampled_from([1, 1, "v", None, {"n": 1}, [1]]))
            return out
        if nd[0] == "list":
            if fault(14):
                return draw(st.sampled_from([{}, 5, None, "s", {"0": 1}] if lay.strict else [{}, 5, None, {"0": 1}]))
            items = []
            for ch in nd[1]:
                if ch[0] == "gap":
                    items.append(draw(st.sampled_from([None, None, None, 0, "x"])))
                elif ch[0] == "field":
                    items.append(leaf(lay.by_name[ch[1]]))
                else:
                    items.append(node(ch))
            r = draw(st.integers(0, 9)) if intensity else 9
            if r == 0 and items:
                del items[len(items) - draw(st.integers(1, len(items))):]
            elif r in (1, 2) or (intensity == 0 and draw(st.integers(0, 5)) == 0):
                items.extend(draw(st.lists(st.sampled_from([None, 1, "x"]), min_size=1, max_size=2)))
            return items
        raise ValueError(nd)
    return node(lay.tree)


def fallback_datum(draw, ms):
    """input for configurations without a reference layout (only creation is looked at)"""
    return {f["n"]: 1 for f in ms["fields"]}


@st.composite
def st_case(draw, probe=None, exclude=frozenset(KNOWN_IDS)):  # noqa: C901
    if probe == "omit":
        # make sure there is a defaulted nested-model field
        ms = draw(st_model().filter(lambda m: any(f["t"] == "inner" and f["p"] in ("dv", "df") for f in m["fields"])))
    elif probe == "skeleton":
        ms = draw(st_model().filter(lambda m: m["fields"]))
    else:
        ms = draw(st_model())
    strict = draw(st.integers(0, 4)) != 0
    recipe = draw(st_recipe(ms, probe))
    excluded = 0
    if probe is None and exclude:
        known = known_classes(ms, recipe, strict) & exclude
        if "skeleton" in known:
            # open finding C03-extra-container-skeleton: collecting policies over nested paths are replaced
            for prov in recipe:
                if prov.get("extra_in", ["skip"])[0] not in ("skip", "forbid"):
                    prov["extra_in"] = ["forbid"]
            excluded += 1
        if "omit" in known:
            # open finding C03-omit-default-compares-dumped-value: keep omit_default away from nested-model fields
            for prov in recipe:
                if "omit_default" in prov and prov["omit_default"] is not False:
                    prov["omit_default"] = [["type", "int"], ["type", "str"], ["type", "bool"],
                                            *[["name", f["n"]] for f in ms["fields"] if f["t"] == "dict"]]
            excluded += 1
            if "omit" in known_classes(ms, recipe, strict):
                for prov in recipe:
                    prov.pop("omit_default", None)
    s_in, lay_in = make_layout(ms, recipe, "in", strict)
    data = []
    if s_in == "ok":
        for _ in range(draw(st.integers(2, 4))):
            data.append(gen_datum(draw, lay_in, draw(st.sampled_from([0, 1, 1, 2]))))
    else:
        data.append(fallback_datum(draw, ms))
    objs = []
    if ms["kind"] != "initkw":
        for _ in range(draw(st.integers(1, 3))):
            obj = {}
            for f in ms["fields"]:
                if f["p"] == "nr" and draw(st.integers(0, 2)) == 0:
                    obj[f["n"]] = ABSENT
                else:
                    obj[f["n"]] = gen_value(draw, f, ms)
            objs.append(obj)
    extract = {k: 1 for k in draw(st.lists(st.sampled_from(["ex_1", "ex_2"]), max_size=2, unique=True))}
    case = {"model": ms, "recipe": recipe, "strict": strict, "data": data, "objs": objs, "extract": extract}
    if excluded:
        case["excluded_known"] = excluded
    return case


# =====================================================================================================================
# 6. Exploration
# =====================================================================================================================
DOC_EXAMPLES = [
    # extended-usage.rst examples re-expressed in the case grammar (smoke test of reference and harness)
    {"model": {"kind": "dataclass", "kw_only": False, "inner": None,
               "fields": [{"n": "a", "t": "str", "p": "req", "d": None}, {"n": "b", "t": "int", "p": "req", "d": None},
                          {"n": "c", "t": "str", "p": "req", "d": None}]},
     "recipe": [{"pred": "outer", "map": ["list", [["pair", ["name", "c"], ["p", [["e"], ["k", "name"]], "tuple"]],
                                                   ["pair", ["re", "a|b"], ["p", [["k", "book"], ["e"]], "tuple"]]]]}],
     "strict": True, "data": [{"book": {"a": "F", "b": 100}, "c": {"name": "R"}}, {"book": {"a": "F"}, "c": {}}],
     "objs": [{"a": "F", "b": 100, "c": "R"}], "extract": {}},
    {"model": {"kind": "dataclass", "kw_only": False, "inner": None,
               "fields": [{"n": "user_id", "t": "int", "p": "req", "d": None},
                          {"n": "kind", "t": "str", "p": "req", "d": None},
                          {"n": "val", "t": "int", "p": "req", "d": None}]},
     "recipe": [{"pred": "outer", "map": ["dict", {"user_id": ["i", 1], "kind": ["i", 0]}], "as_list": True}],
     "strict": True, "data": [["click", 23, 5], ["click", 23], ["click", 23, 5, 6]],
     "objs": [{"user_id": 23, "kind": "click", "val": 5}], "extract": {}},
    {"model": {"kind": "dataclass", "kw_only": False, "inner": None,
               "fields": [{"n": "first_name", "t": "str", "p": "req", "d": None},
                          {"n": "from_", "t": "int", "p": "dv", "d": 0},
                          {"n": "extra", "t": "dict", "p": "df", "d": {}}]},
     "recipe": [{"pred": "outer", "style": "UPPER_SNAKE"}, {"pred": "outer", "style": "CAMEL", "omit_default": True},
                {"extra_in": ["field", "extra"], "extra_out": ["field", "extra"]}],
     "strict": True, "data": [{"FIRST_NAME": "R", "FROM": 3, "UNKNOWN_FIELD": 1995}, {"FIRST_NAME": "R", "firstName": 1}],
     "objs": [{"first_name": "R", "from_": 0, "extra": {"xa": 1}}, {"first_name": "R", "from_": 2, "extra": {}}],
     "extract": {}},
]


def explore(ctx: runner.Ctx):
    if ctx.shard == 0:
        for case in DOC_EXAMPLES:
            check_case(ctx, case)
    # two exhaustive side tables (props/probes03.py): omit_default by EQUALITY for defaults without a literal form; a name_mapping
    # bound to an ancestor laid out alike in children and grandchildren
    side = [*probes03.omit_equal_cases(), *probes03.inherit_cases()]
    for i, c in enumerate(side):
        if i % ctx.nshards == ctx.shard:
            runner.guarded(ctx, lambda k: check_case(ctx, k), c)
    ctx.mark_exhaustive(f"side tables: {len(side)} (omit_default equality, inherited name_mapping) cases")
    total = ctx.budget(3200, 120000)
    probes = max(2, total // 40)
    active = exclusions_active()
    ctx.note(f"generator exclusions active for open findings: {sorted(active) or 'none'}")
    ctx.given(st_case(exclude=active), lambda case: check_case(ctx, case), total - 2 * probes)
    # the two finding classes keep a small aimed share whether or not they are excluded from the main budget
    ctx.given(st_case(probe="skeleton"), lambda case: check_case(ctx, case), probes, seed_offset=1)
    ctx.given(st_case(probe="omit"), lambda case: check_case(ctx, case), probes, seed_offset=2)


RULE = ("case = (model shape, stack of name_mapping providers, strict_coercion, 2-4 inputs built from the reference "
        "layout, 1-3 objects); every case is evaluated under all three debug modes; one evaluation = one (program, "
        "mode, input) comparison with the reference layout model.  Non-trivial = the recipe has >= 2 non-default "
        "parameters or a nested path / list index, and the input exercises an error path, an optional / defaulted "
        "field or unknown keys.  Distinct by (model, recipe, strict, mode, direction, input).")

if __name__ == "__main__":
    raise SystemExit(runner.main(
        PROP, explore=explore, check_case=check_case,
        strategy=st.one_of(st_case(exclude=exclusions_active()), st_case(probe="skeleton"), st_case(probe="omit")),
        rule=RULE,
        assumptions=[
            "field types are strict int / str / bool / Dict[str, Any] and one nested frozen dataclass: the subject "
            "is the layout, not the leaf loaders (C02)",
            "not asserted (counted as unspecified): configurations without a well-defined layout other than a skipped "
            "required field (duplicate paths, prefix paths, mixed key types, optional field at a list index, "
            "collecting policy or extra_out with a list layout) when adaptix accepts them; extra_out keys colliding "
            "with dumped keys; ExtraKwargs colliding with a parameter or used without **kwargs; regexes matching "
            "a part of a field id; name_style on a name that keeps its trailing underscore; lax coercion of "
            "ill-typed leaves; chain=None / Chain.LAST; name_mapping predicates aimed at a base class",
            "modelled as observed (consistent between loader and dumper, not stated by the docs): TypedDict fields "
            "are ordered by name in list layouts; containers of nested paths are always dumped and required on load; "
            "as_list positions count every field of the model (skipped ones leave a None gap)",
        ],
    ))
