"""C01 -- round trip: load(dump(x, T), T) == x for every supported type and configuration (+ JSON leg).

Generated: (type spec T, canonical value x of T, strict_coercion, debug_trail, admissible name_mapping recipe
for the models inside T).  Oracle: inverse -- dump must succeed, load of the dumped datum must succeed and be
``deep_eq`` (exact types, NaN == NaN, Decimal by digits, models field-wise) to x; when the dumped datum is
JSON-representable with string keys the same after json.dumps/json.loads; the same through
AdaptixJSON.process_bind_param / process_result_value.
"""
from __future__ import annotations

import json

from vkit import env, runner
from vkit.errors import describe, exc_site, leaves

env.import_adaptix()

from hypothesis import strategies as st  # noqa: E402

import adaptix  # noqa: E402
from adaptix import DebugTrail, NameStyle, Retort, name_mapping  # noqa: E402
from vkit import codec, tspec  # noqa: E402

PROP = "C01"
DEBUG = [DebugTrail.DISABLE, DebugTrail.FIRST, DebugTrail.ALL]

GEN = tspec.TypeGen(max_depth=3)
GEN_DEEP = tspec.TypeGen(max_depth=4)


# ------------------------------------------------------------------------------------ recipes
def model_specs(spec):
    return [s[1] for s in tspec.walk(spec) if s[0] == "model"]


@st.composite
def st_recipe(draw, spec):
    """Admissible name_mapping settings for the models inside the type (never drops a required field;
    symmetric for load and dump)."""
    out = []
    union_case_models = {tspec.strip(c)[1]["name"] for s in tspec.walk(spec) if s[0] == "union" for c in s[1]
                         if tspec.strip(c)[0] == "model"}
    for ms in model_specs(spec):
        if draw(st.integers(0, 1)) != 0:
            continue
        names = [f["n"] for f in ms["fields"]]
        r = {"model": ms["name"]}
        has_defaults = any(f.get("d") for f in ms["fields"])
        choice = draw(st.sampled_from(["style", "map", "as_list", "omit_default", "mixed", "nested"] +
                                      (["omit_default"] * 4 if has_defaults else [])))
        if choice in ("style", "mixed"):
            r["name_style"] = draw(st.sampled_from([s.name for s in NameStyle]))
        if choice in ("map", "mixed") and names:
            k = draw(st.integers(1, len(names)))
            ren = {}
            for i, n in enumerate(draw(st.lists(st.sampled_from(names), min_size=k, max_size=k, unique=True))):
                ren[n] = draw(st.sampled_from([f"k{i}", f"K-{i}", f"{n}!", f" {i}", f"é{i}"]))
            r["map"] = ren
        if choice == "nested" and names:
            ren = {}
            for i, n in enumerate(names):
                if draw(st.booleans()):
                    ren[n] = draw(st.sampled_from([["outer", "..."], ["o", f"p{i}", "..."], ["lst", i], ["...", "in"]]))
            # list index paths need every index below the max filled or the field required; keep them only
            # for required fields (optional fields cannot live in a list, documented)
            req = {f["n"] for f in ms["fields"] if f.get("d") is None}
            ren = {n: p for n, p in ren.items() if not isinstance(p[1] if len(p) > 1 else None, int) or n in req}
            r["map"] = ren
        # a list layout would make a model that is a union case overlap with iterable cases (undefined, docs)
        if choice == "as_list" and all(f.get("d") is None for f in ms["fields"]) and names \
                and ms["name"] not in union_case_models:
            r["as_list"] = True
        if choice in ("omit_default", "mixed") and ms["kind"] != "typeddict":
            r["omit_default"] = True
        if draw(st.integers(0, 3)) == 0:
            r["trim"] = False
        out.append(r)
    return out


def build_recipe(recipe, e: codec.Env):
    provs = []
    for r in recipe:
        kw = {}
        if "name_style" in r:
            kw["name_style"] = NameStyle[r["name_style"]]
        if "map" in r:
            kw["map"] = {n: (tuple(... if x == "..." else x for x in p) if isinstance(p, list) else p)
                         for n, p in r["map"].items()}
        if r.get("as_list"):
            kw["as_list"] = True
        if r.get("omit_default"):
            kw["omit_default"] = True
        if "trim" in r:
            kw["trim_trailing_underscore"] = r["trim"]
        provs.append(name_mapping(e.classes[r["model"]], **kw))
    return provs


def recipe_admissible(recipe, spec) -> bool:
    """name_style needs snake-case field ids (all ours are); mapped keys must not collide inside one model."""
    by_name = {ms["name"]: ms for ms in model_specs(spec)}
    for r in recipe:
        ms = by_name[r["model"]]
        keys = []
        for f in ms["fields"]:
            n = f["n"]
            if "map" in r and n in r["map"]:
                p = r["map"][n]
                gen = _gen_key(n, r)
                keys.append(tuple(gen if x == "..." else x for x in p) if isinstance(p, list) else (p,))
            else:
                keys.append((_gen_key(n, r),))
        if len(set(keys)) != len(keys):
            return False
        for a in keys:
            for b in keys:
                if a is not b and len(a) < len(b) and b[:len(a)] == a:
                    return False
        # one node must not mix str and int keys
        heads = {}
        for k in keys:
            for i in range(len(k)):
                heads.setdefault(k[:i], set()).add(type(k[i]))
        if any(len(v) > 1 for v in heads.values()):
            return False
    return True


def _gen_key(n, r):
    from props.c18_enum_flag import ref_style  # noqa: PLC0415
    if r.get("trim", True) and n.endswith("_") and not n.endswith("__"):
        n = n[:-1]
    if "name_style" in r:
        n = ref_style(n, NameStyle[r["name_style"]])
    return n


# ------------------------------------------------------------------------------------ case strategy
@st.composite
def st_case(draw, gen=GEN):
    t = draw(gen.strategy())
    v = draw(tspec.st_value(t))
    strict = True if not tspec.lax_safe(t) else draw(st.booleans())
    if not strict and not lax_roundtrippable(t):
        strict = True
    recipe = draw(st_recipe(t)) if tspec.contains(t, "model") else []
    if not recipe_admissible(recipe, t):
        recipe = []
    return {"t": t, "v": v, "strict": strict, "debug": draw(st.integers(0, 2)), "recipe": recipe}


def lax_roundtrippable(t) -> bool:
    """With strict_coercion=False the lax loaders call the constructor: bool("False") is True, str(1) is '1' ...
    The round trip is still guaranteed because dump produces the canonical representation; the only generated
    types whose *dumped form* is re-interpreted differently by a lax constructor are none."""
    return True


def json_compatible(d) -> bool:
    if d is None or isinstance(d, (bool, str)) or type(d) in (int, float):
        return True
    if type(d) in (list, tuple):
        return all(json_compatible(x) for x in d)
    if type(d) is dict:
        return all(type(k) is str and json_compatible(v) for k, v in d.items())
    return False


def first_diff(spec, a, b, e):  # noqa: C901, PLR0911, PLR0912
    """Type tag at the first position where a and b differ (for bucketing)."""
    s = tspec.strip(spec)
    tag = s[0]
    if type(a) is not type(b):
        return tag
    try:
        if tag in ("list", "vtuple", "deque") and len(a) == len(b):
            for x, y in zip(a, b):
                if not tspec.deep_eq(x, y):
                    return first_diff(s[1], x, y, e)
        if tag == "abc" and len(a) == len(b) and isinstance(a, (list, tuple)):
            for x, y in zip(a, b):
                if not tspec.deep_eq(x, y):
                    return first_diff(s[2], x, y, e)
        if tag == "tuple" and len(a) == len(b):
            for t, x, y in zip(s[1], a, b):
                if not tspec.deep_eq(x, y):
                    return first_diff(t, x, y, e)
        if tag in ("dict", "mapping", "mutablemapping", "defaultdict") and len(a) == len(b):
            for k in a:
                if k in b and not tspec.deep_eq(a[k], b[k]):
                    return first_diff(s[2], a[k], b[k], e)
            return f"{tag}-keys:{tspec.strip(s[1])[0]}"
        if tag == "optional" and a is not None:
            return first_diff(s[1], a, b, e)
        if tag == "union":
            return first_diff(tspec.union_case_for_value(s, a, e), a, b, e)
        if tag in ("model", "ref"):
            ms = s[1] if tag == "model" else e.specs[s[1]]
            for f in ms["fields"]:
                if ms["kind"] == "typeddict":
                    if (f["n"] in a) != (f["n"] in b):
                        return "typeddict-key-presence"
                    if f["n"] not in a:
                        continue
                    x, y = a[f["n"]], b[f["n"]]
                else:
                    x, y = getattr(a, f["n"]), getattr(b, f["n"])
                if not tspec.deep_eq(x, y):
                    return first_diff(f["t"], x, y, e)
    except Exception:  # noqa: BLE001  (bucketing helper only)
        return tag
    return tag


# ------------------------------------------------------------------------------------ oracle
def check_case(ctx: runner.Ctx, case):  # noqa: C901, PLR0912, PLR0915
    t, strict, dbg = case["t"], case["strict"], case["debug"]
    hint, e = tspec.build_type(t)
    x = codec.build(case["v"], e)
    recipe = case.get("recipe") or []
    retort = Retort(recipe=build_recipe(recipe, e), strict_coercion=strict, debug_trail=DEBUG[dbg])
    d_t = tspec.depth(t)
    has_model = tspec.contains(t, "model")
    nontrivial = (d_t >= 2 or has_model) and case["v"] not in (None, [], {}, 0, "", False)
    labels = [f"depth:{min(d_t, 5)}", f"strict:{strict}", f"debug:{dbg}", f"top:{t[0]}"]
    if has_model:
        labels.append("has_model")
        for s in tspec.walk(t):
            if s[0] == "model":
                labels.append(f"kind:{s[1]['kind']}")
    if tspec.contains(t, "ref"):
        labels.append("recursive_model")
    if recipe:
        labels.append("recipe")
        for r in recipe:
            labels.extend(f"recipe:{k}" for k in r if k != "model")
    if tspec.contains(t, "union"):
        labels.append("has_union")
    ctx.case([t, case["v"], strict, dbg, recipe], nontrivial,
             sample={"type": tspec.text(t), "value": case["v"], "strict": strict, "debug": dbg, "recipe": recipe},
             labels=labels)

    def viol(kind, discr, detail):
        ctx.violation(kind, discr, case, f"type={tspec.text(t)} strict={strict} debug={dbg} recipe={recipe}: {detail}")

    if any(r.get("omit_default") for r in recipe) and _omit_default_lookalike(t, x, recipe, e):
        # the value of an omitted field == its default but is of another type (False vs 0): omit_default is defined
        # by equality (C03), so the information is dropped by the user's configuration, not by adaptix
        ctx.count("skipped_omit_default_lookalike")
        return
    use_module_level = strict and dbg == 2 and not recipe
    try:
        d = adaptix.dump(x, hint) if use_module_level else retort.dump(x, hint)
    except Exception as ex:  # noqa: BLE001
        viol("dump_failed", (_leaf_name(ex), exc_site(ex)), f"value={x!r}: {describe(ex)}")
        return
    legs = [("direct", d)]
    if json_compatible(d):
        ctx.label("json_leg")
        try:
            legs.append(("json", json.loads(json.dumps(d))))
        except Exception as ex:  # noqa: BLE001
            raise env.HarnessError(f"json leg failed on compatible datum {d!r}: {ex!r}") from ex
    for leg, datum in legs:
        try:
            y = adaptix.load(datum, hint) if use_module_level else retort.load(datum, hint)
        except Exception as ex:  # noqa: BLE001
            viol("load_failed", (leg, _leaf_name(ex), exc_site(ex)), f"value={x!r} dumped={datum!r}: {describe(ex)}")
            continue
        if not tspec.deep_eq(x, y):
            viol("roundtrip_differs", (leg, first_diff(t, x, y, e)), f"value={x!r} dumped={datum!r} loaded={y!r}")
    # AdaptixJSON leg (SQLAlchemy integration): bind -> result
    if ctx.evaluations % 4 == 0 and x is not None:
        ctx.label("adaptix_json_leg")
        from adaptix.integrations.sqlalchemy import AdaptixJSON  # noqa: PLC0415
        try:
            col = AdaptixJSON(retort, hint)
            bound = col.process_bind_param(x, None)
            back = col.process_result_value(bound, None)
        except Exception as ex:  # noqa: BLE001
            viol("adaptixjson_failed", (_leaf_name(ex), exc_site(ex)), f"value={x!r}: {describe(ex)}")
        else:
            if not tspec.deep_eq(x, back) and not (bound is None):
                viol("adaptixjson_differs", (first_diff(t, x, back, e),), f"value={x!r} bound={bound!r} back={back!r}")


def _omit_default_lookalike(t, x, recipe, e) -> bool:
    omit = {r["model"] for r in recipe if r.get("omit_default")}
    found = []

    def visit(spec, val):  # noqa: C901
        s = tspec.strip(spec)
        tag = s[0]
        if val is None:
            return
        if tag in ("list", "vtuple", "deque", "set", "frozenset"):
            for v in val:
                visit(s[1], v)
        elif tag == "abc":
            for v in val:
                visit(s[2], v)
        elif tag == "tuple":
            for ts, v in zip(s[1], val):
                visit(ts, v)
        elif tag in ("dict", "mapping", "mutablemapping", "defaultdict"):
            for v in val.values():
                visit(s[2], v)
        elif tag == "optional":
            visit(s[1], val)
        elif tag == "union":
            visit(tspec.union_case_for_value(s, val, e), val)
        elif tag in ("model", "ref"):
            ms = s[1] if tag == "model" else e.specs[s[1]]
            for f in ms["fields"]:
                if ms["kind"] == "typeddict":
                    if f["n"] not in val:
                        continue
                    fv = val[f["n"]]
                else:
                    fv = getattr(val, f["n"])
                d = f.get("d")
                if ms["name"] in omit and d is not None and d[0] == "v":
                    dv = codec.build(d[1], e)
                    try:
                        eq = bool(fv == dv)
                    except Exception:  # noqa: BLE001
                        eq = False
                    if eq and not tspec.deep_eq(fv, dv):
                        found.append(f["n"])
                visit(f["t"], fv)

    visit(t, x)
    return bool(found)


def _leaf_name(ex):
    try:
        ls = list(leaves(ex))
    except Exception:  # noqa: BLE001
        return type(ex).__name__
    if ls:
        return type(ls[0][1]).__name__
    return type(ex).__name__


def explore(ctx: runner.Ctx):
    n = ctx.budget(16000, 300000)
    ctx.given(st_case(GEN), lambda c: check_case(ctx, c), int(n * 0.8))
    ctx.given(st_case(GEN_DEEP), lambda c: check_case(ctx, c), max(1, int(n * 0.2)), seed_offset=1)


RULE = ("cases = generated (type spec depth<=4, canonical value, strict_coercion, debug_trail, admissible name_mapping "
        "recipe); non-trivial = (type depth >= 2 or contains a model) and the value is not an empty/default value; "
        "distinct by (type spec, value spec, options, recipe).")

if __name__ == "__main__":
    raise SystemExit(runner.main(
        PROP, explore=explore, check_case=check_case, strategy=st_case(), rule=RULE,
        assumptions=[
            "unions are generated with provably non-overlapping cases (docs: overlapping -> undefined) and only "
            "with cases the documented union dumper supports (classes and Literal)",
            "timedelta values stay within the range where total_seconds() is exact to the microsecond (docs)",
            "re.Pattern values carry no flags (dumper extracts the original string only)",
        ],
    ))
