"""C15 -- type normalisation is a canonical form (metamorphic).

Generated: a type spec and
  (i)  a sequence of meaning-preserving rewrites: reorder / nest / duplicate union members, Union <-> |,
       Optional[X] <-> Union[X, None] <-> X | None, typing aliases <-> builtin generics, bare generic <-> explicit
       implicit parameters, split / merge Literal members across a union, Literal[None] <-> None;
  (ii) one meaning-changing edit: another leaf class, Literal[0] <-> Literal[False] (1 <-> True), drop / add a union
       member, another type argument, another tuple length.
Oracle: (i) normalize_type(a) == normalize_type(b), equal hashes, both orders (cold / warm LRU); loaders and dumpers of
a and b agree on a probe battery; create_loc_stack_checker(a) and (b) agree on stacks carrying either spelling;
(ii) normal forms differ; always: idempotence normalize_type(n.source) == n; bare generics expose the documented
implicit parameters (Any / bound / union of constraints).

Look-alike Literal members (one family, every position above): two legal Literal members that compare equal and hash
equal but belong to different classes denote different types -- bool / int, int / member of IntEnum, IntFlag or
``class E(int, Enum)``, str / member of StrEnum or ``class E(str, Enum)``, bytes / member of ``class E(bytes, Enum)``,
members of two different mixin enums, members of twin classes (and, not equal but alike, a plain Enum member / its
value).  They are generated as an edit (one member replaced by a look-alike), as a type family (literals that hold
several look-alikes at once, bare / split over a union / next to classes / in containers, so that the union
de-duplication and the merged-vs-split rewrites meet them) and as an exhaustive pair table; the same oracles decide
them, plus the converter: ``get_converter`` links a field of type a to a field of type b as is iff a and b are one type.
"""
from __future__ import annotations

import copy
import dataclasses
import enum
import itertools
import typing
import zlib
from typing import Any

from vkit import env, runner
from vkit.errors import describe, valid_load_error

env.import_adaptix()

from hypothesis import strategies as st  # noqa: E402

from adaptix import ProviderNotFoundError, Retort, create_loc_stack_checker  # noqa: E402
from adaptix._internal.provider.loc_stack_filtering import LocStack  # noqa: E402
from adaptix._internal.provider.location import TypeHintLoc  # noqa: E402
from adaptix._internal.type_tools import normalize_type  # noqa: E402
from adaptix.conversion import get_converter  # noqa: E402
from vkit import codec, soup, tspec  # noqa: E402

PROP = "C15"
GEN = tspec.TypeGen(max_depth=3, models=False, wrappers=False, enums=True, disjoint_unions=False, dumpable_unions=False)


# ------------------------------------------------------------------------------------ rewrites on specs
def nodes(spec, path=()):
    yield path, spec
    tag = spec[0]
    if tag in ("list", "set", "frozenset", "vtuple", "deque", "optional"):
        yield from nodes(spec[1], (*path, 1))
    elif tag == "abc":
        yield from nodes(spec[2], (*path, 2))
    elif tag in ("tuple", "union"):
        for i, c in enumerate(spec[1]):
            yield from nodes(c, (*path, 1, i))
    elif tag in ("dict", "defaultdict", "mapping", "mutablemapping"):
        yield from nodes(spec[1], (*path, 1))
        yield from nodes(spec[2], (*path, 2))


def set_node(spec, path, new):
    if not path:
        return new
    spec = copy.deepcopy(spec)
    cur = spec
    for p in path[:-1]:
        cur = cur[p]
    cur[path[-1]] = new
    return spec


SP_SLOT = {"list": 2, "set": 2, "frozenset": 2, "vtuple": 2, "tuple": 2, "dict": 3, "abc": 3}


def preserving_options(s):  # noqa: C901, PLR0912
    """All single meaning-preserving rewrites applicable at node ``s`` (list of new node specs)."""
    tag = s[0]
    out = []
    if tag in SP_SLOT:
        slot = SP_SLOT[tag]
        cur = s[slot] if len(s) > slot else "typing"
        if cur in ("typing", "builtin"):
            new = list(s) + [None] * (slot + 1 - len(s))
            new[slot] = "builtin" if cur == "typing" else "typing"
            out.append(("alias_spelling", new))
    # bare generic <-> explicit implicit parameters (Any)
    if tag in ("list", "set", "frozenset", "vtuple", "deque") and s[1] == ["any"] and s[-1] not in ("bare_typing", "bare_builtin"):
        out.append(("bare_generic", [tag, ["any"], "bare_typing"]))
        out.append(("bare_generic", [tag, ["any"], "bare_builtin"]))
    if tag == "abc" and s[2] == ["any"] and s[-1] not in ("bare_typing", "bare_builtin"):
        out.append(("bare_generic", ["abc", s[1], ["any"], "bare_typing"]))
    if tag in ("dict", "mapping", "mutablemapping", "defaultdict") and s[1] == ["any"] and s[2] == ["any"] \
            and s[-1] not in ("bare_typing", "bare_builtin"):
        out.append(("bare_generic", [tag, ["any"], ["any"], "bare_typing"]))
    if s[-1] in ("bare_typing", "bare_builtin"):
        explicit = [x for x in s[:-1]] + (["typing"] if tag in SP_SLOT else [])
        out.append(("bare_generic_explicit", explicit))
    if tag == "optional":
        inner = s[1]
        for sp in ("optional", "typing", "bar"):
            if sp != (s[2] if len(s) > 2 else "optional"):
                out.append(("optional_spelling", ["optional", inner, sp]))
        out.append(("optional_as_union", ["union", [inner, ["none"]], "typing"]))
        out.append(("optional_as_union_none_first", ["union", [["none"], inner], "typing"]))
        if inner[0] == "literal":
            out.append(("literal_none_merged", ["literal", [*inner[1], None]]))
    if tag == "union":
        cases = s[1]
        sp = s[2] if len(s) > 2 else "typing"
        out.append(("union_spelling", ["union", cases, "bar" if sp == "typing" else "typing"]))
        out.append(("union_reversed", ["union", list(reversed(cases)), sp]))
        out.append(("union_rotated", ["union", cases[1:] + cases[:1], sp]))
        out.append(("union_duplicated", ["union", [*cases, cases[0]], "typing"]))
        if len(cases) >= 3:
            out.append(("union_nested", ["union", [cases[0], ["union", cases[1:], "typing"]], "typing"]))
            out.append(("union_nested_left", ["union", [["union", cases[:2], "typing"], *cases[2:]], "typing"]))
        lits = [c for c in cases if c[0] == "literal"]
        if len(lits) >= 2:
            merged = ["literal", [v for c in lits for v in c[1]]]
            rest = [c for c in cases if c[0] != "literal"]
            out.append(("literals_merged", ["union", [*rest, merged], "typing"] if rest else merged))
    if tag == "literal" and len(s[1]) >= 2:
        out.append(("literal_split", ["union", [["literal", [v]] for v in s[1]], "typing"]))
        out.append(("literal_reordered", ["literal", list(reversed(s[1]))]))
        out.append(("literal_split_2", ["union", [["literal", s[1][:1]], ["literal", s[1][1:]]], "typing"]))
    if tag == "none":
        out.append(("none_as_literal", ["literal", [None]]))
    if tag == "literal" and s[1] == [None]:
        out.append(("literal_none_as_none", ["none"]))
    return out


LOOKALIKE = {0: False, 1: True}
LEAF_SWAP = {"int": "str", "str": "bytes", "bool": "int", "float": "int", "none": "bool", "decimal": "fraction",
             "bytes": "bytearray", "date": "datetime", "datetime": "date", "uuid": "str", "any": "object", "object": "any",
             "fraction": "decimal", "complex": "float", "time": "date", "timedelta": "float", "bytearray": "bytes"}


# ------------------------------------------------------------------------------------ look-alike Literal members
# Legal Literal members are None, bool, int, str, bytes and enum members.  Two members that are ``==`` (and hash equal) but of
# different classes are different types; the enum bases below are all the ways an enum member can be equal to a plain value or to
# a member of another enum.  ("Enum" / "Flag" members are equal to nothing else; they are in the family as alike-but-unequal.)
INT_MIXINS, STR_MIXINS, BYTES_MIXINS = ("IntEnum", "int_Enum", "IntFlag"), ("StrEnum", "str_Enum"), ("bytes_Enum",)
EXTRA_ENUM_BASES = {"int_Enum": (int, enum.Enum), "bytes_Enum": (bytes, enum.Enum)}   # the bases tspec does not know
_lk_uid = itertools.count()


def _is_bytes(v):
    return isinstance(v, dict) and v.get("$") == "bytes"


def _is_member(v):
    return isinstance(v, dict) and v.get("$") == "enum" and "spec" in v


def _pow2(v):
    return type(v) is int and v > 0 and v & (v - 1) == 0


def lk_member(base, value, suffix=""):
    """Member ``A`` of a two-member enum of kind ``base`` whose value is ``value`` (the name is a function of base and value)."""
    if type(value) is int:
        other = 64 if value != 64 else 32
    elif isinstance(value, str):
        other = value + "_"
    else:
        other = {"$": "bytes", "h": value["h"] + "00"}
    name = f"Lk{base}_{zlib.crc32(repr(value).encode()) & 0xfffff:05x}{suffix}"
    return {"$": "enum", "c": name, "n": "A", "spec": {"name": name, "base": base, "members": [["A", value], ["B", other]]}}


def member_value(v):
    return next(x for n, x in v["spec"]["members"] if n == v["n"])


def lk_kind(v):
    if _is_member(v):
        return v["spec"]["base"]
    return "bytes" if _is_bytes(v) else type(v).__name__


def lookalikes_of(v):  # noqa: C901
    """Every other legal Literal member that is alike ``v`` (equal value, another class)."""
    out = []
    if type(v) is bool:
        out += [int(v), *[lk_member(b, int(v)) for b in INT_MIXINS if b != "IntFlag" or v]]
    elif type(v) is int:
        out += [bool(v)] if v in (0, 1) else []
        out += [lk_member(b, v) for b in INT_MIXINS if b != "IntFlag" or _pow2(v)]
        out.append(lk_member("Enum", v))
    elif isinstance(v, str):
        out += [lk_member(b, v) for b in STR_MIXINS]
        out.append(lk_member("Enum", v))
    elif _is_bytes(v):
        out += [lk_member(b, v) for b in BYTES_MIXINS]
    elif _is_member(v):
        es, val = v["spec"], member_value(v)
        plain_ok = type(val) in (int, str) or _is_bytes(val)
        if plain_ok:
            out.append(val)
            if val in (0, 1) and type(val) is int:
                out.append(bool(val))
        if not es["name"].endswith("_twin"):
            twin = copy.deepcopy(es)
            twin["name"] = es["name"] + "_twin"
            out.append({"$": "enum", "c": twin["name"], "n": v["n"], "spec": twin})   # same names, same values, another class
        group = next((g for g in (INT_MIXINS, STR_MIXINS, BYTES_MIXINS) if es["base"] in g), ())
        if plain_ok:
            out += [lk_member(b, val) for b in group if b != es["base"] and (b != "IntFlag" or _pow2(val))]
    return out


def literal_member_keys(spec):
    """Multiset of the typed Literal members written anywhere in ``spec``."""
    import collections  # noqa: PLC0415
    return collections.Counter(_lit_key(v) for _, node in nodes(spec) if node[0] == "literal" for v in node[1])


def _lit_key(v):
    return repr(sorted((k, repr(x)) for k, x in v.items() if k != "spec")) if isinstance(v, dict) else (type(v).__name__, repr(v))


def changing_options(s):  # noqa: C901
    tag = s[0]
    out = []
    if tag in LEAF_SWAP:
        out.append(("leaf_class", [LEAF_SWAP[tag]]))
    if tag == "literal":
        present = {_lit_key(x) for x in s[1]}
        for i, v in enumerate(s[1]):
            if v is None:
                continue
            for w in lookalikes_of(v):
                if {type(v), type(w)} == {int, bool}:
                    continue   # the two edits below
                if _lit_key(w) not in present:
                    out.append((f"lookalike_{lk_kind(v)}_to_{lk_kind(w)}" + ("_twin" if _is_member(w) and w["c"].endswith("_twin") else ""),
                                ["literal", [*s[1][:i], w, *s[1][i + 1:]]]))
        for i, v in enumerate(s[1]):
            if type(v) is int and v in LOOKALIKE and LOOKALIKE[v] not in [x for x in s[1] if type(x) is bool]:
                out.append(("literal_int_to_bool", ["literal", [*s[1][:i], LOOKALIKE[v], *s[1][i + 1:]]]))
            if type(v) is bool and int(v) not in [x for x in s[1] if type(x) is int]:
                out.append(("literal_bool_to_int", ["literal", [*s[1][:i], int(v), *s[1][i + 1:]]]))
        out.append(("literal_member_added", ["literal", [*s[1], "__another__"]]))
        if len(s[1]) >= 2:
            out.append(("literal_member_dropped", ["literal", s[1][1:]]))
    if tag == "union":
        cases = s[1]
        sp = s[2] if len(s) > 2 else "typing"
        if len(cases) >= 3:
            out.append(("union_member_dropped", ["union", cases[1:], sp]))
        present = {c[0] for c in cases}
        extra = next(x for x in ("complex", "timedelta", "uuid", "pattern") if x not in present)
        out.append(("union_member_added", ["union", [*cases, [extra]], sp]))
    if tag == "tuple":
        out.append(("tuple_length", ["tuple", [*s[1], ["int"]], *s[2:]]))
        if s[1]:
            out.append(("tuple_length", ["tuple", s[1][1:], *s[2:]]))
    if tag == "optional":
        out.append(("optional_dropped", s[1]))
    if tag in ("list", "set", "frozenset", "vtuple", "deque") and s[-1] not in ("bare_typing", "bare_builtin"):
        other = {"list": "vtuple", "vtuple": "list", "set": "frozenset", "frozenset": "set", "deque": "list"}[tag]
        out.append(("container_class", [other, s[1], "typing"]))
    return out


LEAVES = [["int"], ["str"], ["date"], ["bool"], ["float"], ["none"], ["bytes"], ["decimal"], ["literal", [1]], ["literal", ["1"]],
          ["literal", [True]], ["uuid"]]


@st.composite
def st_deep_twins(draw):
    """A union whose members share the origin and the origins of their direct arguments and differ only deeper
    (list[list[date]] | list[list[str]]): canonical member order must not depend on the order written."""
    def wrap(leaf, shape):
        if shape == "ll":
            return ["list", ["list", leaf, "typing"], "typing"]
        if shape == "dl":
            return ["dict", ["str"], ["list", leaf, "typing"], "typing"]
        if shape == "vl":
            return ["vtuple", ["list", leaf, "typing"], "typing"]
        if shape == "lll":
            return ["list", ["list", ["list", leaf, "typing"], "typing"], "typing"]
        if shape == "lo":
            return ["list", ["optional", ["list", leaf, "typing"], "optional"], "typing"]
        return ["set", ["frozenset", leaf, "typing"], "typing"]
    shape = draw(st.sampled_from(["ll", "dl", "vl", "lll", "lo", "sf"]))
    k = draw(st.integers(2, 3))
    leaves = draw(st.lists(st.sampled_from(LEAVES), min_size=k, max_size=k, unique_by=repr))
    members = [wrap(lf, shape) for lf in leaves]
    if draw(st.booleans()):
        members.append(draw(st.sampled_from([["int"], ["none"], ["str"]])))
    t = ["union", members, "typing"]
    if draw(st.booleans()):
        t = ["list", t, "typing"]
    return t


LK_SHAPES = ["bare", "bare", "split_union", "split_union", "two_literals", "two_literals", "union_with_class", "list", "dict_value",
             "tuple", "optional"]


@st.composite
def st_lookalike_type(draw):  # noqa: C901
    """A type around a Literal whose members are look-alikes of ONE value (1, True, IntEnum.A == 1, IntFlag.A == 1 ...), merged in
    one Literal or split over the members of a union."""
    kind = draw(st.sampled_from(["int", "int", "str", "bytes"]))
    if kind == "int":
        v = draw(st.sampled_from([0, 1, 1, 2, -1, 4]))
    elif kind == "str":
        v = draw(st.sampled_from(["a", "", "1", "fast"]))
    else:
        v = {"$": "bytes", "h": draw(st.sampled_from(["", "61"]))}
    pool = [v, *lookalikes_of(v)]
    pool += [w for m in pool[1:] if _is_member(m) and m["spec"]["base"] != "Enum" for w in lookalikes_of(m)
             if _is_member(w) and w["c"].endswith("_twin")]
    k = draw(st.integers(1, min(4, len(pool))))
    members = draw(st.lists(st.sampled_from(pool), min_size=k, max_size=k, unique_by=_lit_key))
    extras = draw(st.sampled_from([[], [], [7], ["zz"], [None], [7, "zz", 8, 9]]))
    shape = draw(st.sampled_from(LK_SHAPES))
    lit = ["literal", members + extras]
    if shape == "split_union" and len(lit[1]) >= 2:
        cases = [["literal", [m]] for m in lit[1]]
        if draw(st.booleans()):
            cases.append(draw(st.sampled_from(cases)))   # written twice: one case after de-duplication
        t = ["union", cases, "typing"]
    elif shape == "two_literals" and len(lit[1]) >= 2:
        cut = draw(st.integers(1, len(lit[1]) - 1))
        cases = [["literal", lit[1][:cut]], ["literal", lit[1][cut:]]]
        if draw(st.booleans()):
            cases.insert(draw(st.integers(0, 2)), draw(st.sampled_from([["int"], ["str"], ["none"], ["bool"]])))
        t = ["union", cases, draw(st.sampled_from(["typing", "bar"]))]
    elif shape == "union_with_class":
        t = ["union", [lit, draw(st.sampled_from([["int"], ["str"], ["none"], ["bool"], ["bytes"]]))], "typing"]
    elif shape == "list":
        t = ["list", lit, "typing"]
    elif shape == "dict_value":
        t = ["dict", ["str"], lit, "typing"]
    elif shape == "tuple":
        t = ["tuple", [["int"], lit], "typing"]
    elif shape == "optional":
        t = ["optional", lit, "optional"]
    else:
        t = lit
    if draw(st.integers(0, 3)) == 0:
        t = ["list", t, "builtin"]
    return t


def datum_options(spec):
    """Data a type of the look-alike family is loaded from (the plain values of the literal members, wrapped alike)."""
    tag = spec[0]
    if tag == "literal":
        out = []
        for v in spec[1]:
            d = member_value(v) if _is_member(v) else v
            if not any(_lit_key(d) == _lit_key(x) for x in out):
                out.append(d)
        return out
    if tag == "list":
        return [[d] for d in datum_options(spec[1])]
    if tag == "dict":
        return [{"$": "d", "v": [["k", d]]} for d in datum_options(spec[2])]
    if tag == "tuple":
        return [[3, d] for d in datum_options(spec[1][1])]
    if tag == "optional":
        return [None, *datum_options(spec[1])]
    if tag == "union":
        return [d for c in spec[1] for d in datum_options(c)]
    return [{"int": 5, "str": "s", "none": None, "bool": False, "bytes": "YQ=="}[tag]]


@st.composite
def st_case(draw):
    family = draw(st.sampled_from(["deep_twins", "lookalike", "grammar", "grammar", "grammar"]))
    t = draw(st_deep_twins()) if family == "deep_twins" else draw(st_lookalike_type()) if family == "lookalike" \
        else draw(GEN.strategy())
    mode = draw(st.sampled_from(["preserve", "preserve", "change"]))
    steps = []
    cur = t
    if mode == "preserve":
        k = draw(st.integers(1, 4))
        for _ in range(k):
            opts = [(p, name, new) for p, s in nodes(cur) for name, new in preserving_options(s)]
            if not opts:
                break
            p, name, new = draw(st.sampled_from(opts))
            cur = set_node(cur, p, new)
            steps.append([name, len(p)])
    else:
        opts = [(p, name, new) for p, s in nodes(cur) for name, new in changing_options(s)]
        if not opts:
            return {"mode": "none", "a": t, "b": t, "steps": []}
        alike = [o for o in opts if o[1].startswith("lookalike_")]
        if alike and family == "lookalike" and draw(st.integers(0, 3)) != 0:
            opts = alike   # the other edits of a literal are well represented by the grammar family
        p, name, new = draw(st.sampled_from(opts))
        cur = set_node(cur, p, new)
        steps.append([name, len(p)])
    if family == "lookalike":
        # (the reference dump of soup.st_near_valid builds the type through tspec, which does not know every enum base used here)
        opts = datum_options(t)
        probes = [draw(st.sampled_from(opts)) for _ in range(3)] + [draw(soup.st_soup(4)) for _ in range(2)] + [0, 1, True, "a", [1]]
    elif unions_reference_dumpable(t):
        probes = [draw(soup.st_near_valid(t, max_mut=1))[0] for _ in range(2)] + [draw(soup.st_soup(4))]
    else:
        # overlapping / non-class union cases: the reference dump cannot pick a case; such types still matter here because
        # the union loader tries the cases in NORMAL-FORM order, so equivalent spellings must agree on arbitrary data too
        probes = [draw(soup.st_soup(6)) for _ in range(3)] + [[], [[]], [["2020-01-02"]], [[1]], {"$": "d", "v": [["a", [1]]]}]
    values = [draw(tspec.st_value(t)) for _ in range(2)]
    return {"mode": mode, "a": t, "b": cur, "steps": steps, "probes": probes, "values": values,
            "order": draw(st.booleans()), "family": family}


def denote(spec):  # noqa: C901, PLR0911, PLR0912
    """The harness's own notion of "denotes the same type": spellings ignored, unions flattened into sets, literal members
    merged type-aware, Optional / Literal[None] folded.  Independent of adaptix; used to decide whether an edit really
    changed the meaning (the generator may produce duplicate union members) and to self-check the rewrite catalogue."""
    tag = spec[0]
    if tag in ("list", "set", "frozenset", "vtuple", "deque"):
        return (tag, denote(spec[1]))
    if tag == "abc":
        return ("abc", spec[1], denote(spec[2]))
    if tag == "tuple":
        return ("tuple", tuple(denote(x) for x in spec[1]))
    if tag in ("dict", "defaultdict", "mapping", "mutablemapping"):
        return (tag, denote(spec[1]), denote(spec[2]))
    if tag == "enum":
        return ("enum", spec[1]["name"])
    if tag in ("optional", "union", "literal", "none"):
        members, lits = set(), set()

        def add(s2):
            t2 = s2[0]
            if t2 == "optional":
                add(s2[1])
                members.add(("none",))
            elif t2 == "union":
                for c in s2[1]:
                    add(c)
            elif t2 == "literal":
                for v in s2[1]:
                    if v is None:
                        members.add(("none",))
                    elif isinstance(v, dict):
                        lits.add(("$", repr(sorted((k, repr(x)) for k, x in v.items() if k != "spec"))))
                    else:
                        lits.add((type(v).__name__, repr(v)))
            elif t2 == "none":
                members.add(("none",))
            else:
                members.add(denote(s2))
        add(spec)
        if lits:
            members.add(("literal", frozenset(lits)))
        if len(members) == 1:
            return next(iter(members))
        return ("union", frozenset(members))
    return (tag, *[x for x in spec[1:] if isinstance(x, str) and tag in ("ip", "path")])


def unions_reference_dumpable(t) -> bool:
    for s in tspec.walk(t):
        if s[0] == "union":
            seen = set()
            for c in s[1]:
                if not tspec.union_case_dumpable(c):
                    return False
                sh = tspec.shapes(c, True)
                if seen & sh:
                    return False
                seen |= sh
    return True


def build_hint(spec, shared_env):
    """Both spellings are built in ONE environment so that equally named enum specs denote the same class."""
    for _, node in nodes(spec):
        if node[0] == "literal":
            for v in node[1]:
                if _is_member(v) and v["spec"]["base"] in EXTRA_ENUM_BASES and v["spec"]["name"] not in shared_env.classes:
                    es = v["spec"]   # an enum base tspec cannot build: the class is made here, tspec finds it by name
                    bases = EXTRA_ENUM_BASES[es["base"]]
                    cname = f"{es['name']}_x{next(_lk_uid)}"
                    ns = enum.EnumMeta.__prepare__(cname, bases)
                    for n, val in es["members"]:
                        ns[n] = codec.build(val, shared_env)
                    shared_env.classes[es["name"]] = enum.EnumMeta(cname, bases, ns)
                    shared_env.specs[es["name"]] = es
    try:
        return tspec.build_type(spec, shared_env)
    except TypeError:
        return None


def outcome(fn, arg):
    try:
        return ("ok", tspec.canon(fn(arg)))
    except RecursionError:
        return ("skip",)
    except BaseException as ex:  # noqa: BLE001
        if valid_load_error(ex):
            return ("load_error",)
        return ("exc", type(ex).__name__)


def raw_outcome(fn, arg):
    try:
        return ("ok", fn(arg))
    except BaseException as ex:  # noqa: BLE001
        return ("exc", type(ex).__name__)


def check_case(ctx: runner.Ctx, case):  # noqa: C901, PLR0912, PLR0915
    if case.get("mode") == "alias":
        return check_alias(ctx, case)
    if case.get("mode") == "implicit":
        return check_implicit(ctx, case)
    if case.get("mode") == "same_name":
        return check_same_name(ctx, case)
    a_spec, b_spec = case["a"], case["b"]
    shared = codec.Env()
    ha, hb = build_hint(a_spec, shared), build_hint(b_spec, shared)
    if ha is None or hb is None:
        ctx.count("spelling_not_constructible_in_python")
        return None
    (hint_a, ea), (hint_b, eb) = ha, hb
    steps = case["steps"]
    first, second = (hint_a, hint_b) if case.get("order", True) else (hint_b, hint_a)
    try:
        n1, n2 = normalize_type(first), normalize_type(second)
    except Exception as ex:  # noqa: BLE001
        ctx.violation("normalize_crashed", (type(ex).__name__, "+".join(s[0] for s in steps)), case,
                      f"a={hint_a!r} b={hint_b!r}: {describe(ex)}")
        return None
    na, nb = (n1, n2) if case.get("order", True) else (n2, n1)
    deep = sum(1 for s in steps if s[1] >= 1)
    nontrivial = (case["mode"] == "preserve" and len(steps) >= 2 and deep >= 1) or (case["mode"] == "change" and deep >= 1)
    ctx.case([case["mode"], a_spec, b_spec], nontrivial,
             sample={"mode": case["mode"], "a": repr(hint_a)[:200], "b": repr(hint_b)[:200], "steps": steps},
             labels=[f"mode:{case['mode']}", *[f"step:{s[0]}" for s in steps], f"nsteps:{len(steps)}",
                     f"family:{case.get('family', 'table')}"])
    head = f"mode={case['mode']} steps={steps} a={hint_a!r} b={hint_b!r}"
    # idempotence
    for n in (na, nb):
        try:
            again = normalize_type(n.source)
        except Exception as ex:  # noqa: BLE001
            ctx.violation("renormalize_crashed", (type(ex).__name__,), case, f"{head}: normalize_type(n.source) -> {describe(ex)}")
            continue
        if again != n or hash(again) != hash(n):
            ctx.violation("not_idempotent", (steps[0][0] if steps else "none",), case, f"{head}: {n!r} -> {again!r}")
    if case["mode"] == "none":
        return None
    same_meaning = denote(a_spec) == denote(b_spec)
    if case["mode"] == "preserve" and not same_meaning:
        raise env.HarnessError(f"rewrite catalogue bug: {steps} changed the meaning of {a_spec} -> {b_spec}")
    if case["mode"] == "change" and same_meaning:
        ctx.count("edit_did_not_change_the_meaning")   # e.g. a duplicate union member was dropped
        return None
    if case["mode"] == "change":
        if na == nb:
            ctx.violation("different_types_collapse", (steps[0][0],), case, f"{head}: both normalise to {na!r}")
            return None
        # a parametrised hint / Literal used as a predicate matches "the same type and nothing else": the two different types
        # must not match each other's locations (Literal[0, 1] vs Literal[False, True], List[int] vs List[str] ...)
        if typing.get_origin(hint_a) is not None and typing.get_origin(hint_b) is not None:   # (Tuple[()] has an origin, no args)
            try:
                ca, cb = create_loc_stack_checker(hint_a), create_loc_stack_checker(hint_b)
                med = _DirectMediator()
                cross = (ca.check_loc_stack(med, LocStack(TypeHintLoc(type=hint_b))),
                         cb.check_loc_stack(med, LocStack(TypeHintLoc(type=hint_a))))
            except Exception:  # noqa: BLE001  (not every hint is a valid predicate)
                ctx.count("hint_not_usable_as_predicate")
                return None
            ctx.count("predicate_cross_probes")
            if any(cross):
                ctx.violation("different_types_match_as_predicates", (steps[0][0],), case,
                              f"{head}: pred(a) on a location typed b -> {cross[0]}, pred(b) on a location typed a -> {cross[1]}")
        if steps[0][0].startswith(("lookalike_", "literal_int_to_bool", "literal_bool_to_int", "literal_bool_int_table")):
            # one Literal member became an equal value of another class: neither type is the other, a subclass of it or Any, so no
            # documented rule lets the converter pass a as b (or b as a) -- unless one is a sub-union of the other, which needs the
            # old member to be written elsewhere in a too or the new one to be there already (Union[List[Literal[True]],
            # List[Literal[1]]] -> Union[List[Literal[1]]]): ruled out by construction, counted
            ka, kb = literal_member_keys(a_spec), literal_member_keys(b_spec)
            if sum((ka - kb).values()) != 1 or sum((kb - ka).values()) != 1 or any(kb[k] > 1 for k in kb - ka) \
                    or any(ka[k] > 1 for k in ka - kb):
                ctx.count("converter_cross_probe_skipped_possible_sub_union")
                return None
            for x, y, way in ((hint_a, hint_b, "a->b"), (hint_b, hint_a, "b->a")):
                ctx.count("converter_cross_probes")
                if converter_links(x, y):
                    ctx.violation("different_types_are_one_type_for_the_converter", (steps[0][0],), case,
                                  f"{head}: get_converter links a field of type {x!r} to a field of type {y!r} ({way})")
        return None
    # ---- meaning preserving
    if na != nb:
        ctx.violation("equivalent_hints_normalise_differently", ("+".join(sorted({s[0] for s in steps})),), case,
                      f"{head}: {na!r} != {nb!r}")
        return None
    if hash(na) != hash(nb):
        ctx.violation("equal_norms_hash_differently", ("+".join(sorted({s[0] for s in steps})),), case, f"{head}")
    # loaders / dumpers / predicates equivalence
    for strict in (True, False):
        retort = Retort(strict_coercion=strict)
        try:
            la, lb = retort.get_loader(hint_a), retort.get_loader(hint_b)
        except ProviderNotFoundError:
            ctx.count("loader_not_creatable")
            break
        for p in case["probes"]:
            oa, ob = outcome(la, codec.build(p, ea)), outcome(lb, codec.build(p, ea))
            if "skip" in (oa[0], ob[0]) or _one_shot(p):
                continue
            ctx.count("loader_probes")
            if oa != ob:
                ctx.violation("equivalent_hints_load_differently", ("+".join(sorted({s[0] for s in steps})), f"strict:{strict}"),
                              case, f"{head} probe={p!r}: a -> {oa!r}; b -> {ob!r}")
    retort = Retort()
    try:
        da, db = retort.get_dumper(hint_a), retort.get_dumper(hint_b)
    except ProviderNotFoundError:
        ctx.count("dumper_not_creatable")
    else:
        for v in case["values"]:
            ra, rb = raw_outcome(da, codec.build(v, ea)), raw_outcome(db, codec.build(v, ea))
            ctx.count("dumper_probes")
            # the element order of a dumped set is not significant (and not reproducible: hash(nan) is address based)
            same = ra[0] == rb[0] and (ra[0] != "ok" or tspec.dumped_eq(a_spec, ra[1], rb[1], ea))
            oa, ob = ra, rb
            if not same:
                ctx.violation("equivalent_hints_dump_differently", ("+".join(sorted({s[0] for s in steps})),), case,
                              f"{head} value={v!r}: a -> {oa!r}; b -> {ob!r}")
    # converter: "source type and destination type are the same" -> coercible
    ctx.count("converter_probes")
    if not converter_links(hint_a, hint_b):
        ctx.violation("equivalent_hints_are_two_types_for_the_converter", ("+".join(sorted({s[0] for s in steps})),), case,
                      f"{head}: get_converter finds no coercer from a field of type a to a field of type b (ProviderNotFoundError)")
    # predicates: a hint used as predicate matches locations carrying either spelling
    try:
        ca, cb = create_loc_stack_checker(hint_a), create_loc_stack_checker(hint_b)
    except Exception:  # noqa: BLE001  (not every hint is a valid predicate: unions, None ...)
        ctx.count("hint_not_usable_as_predicate")
        return None
    med = _DirectMediator()
    for carried in (hint_a, hint_b):
        stack = LocStack(TypeHintLoc(type=carried))
        try:
            ra, rb = ca.check_loc_stack(med, stack), cb.check_loc_stack(med, stack)
        except Exception as ex:  # noqa: BLE001
            ctx.violation("predicate_crashed", (type(ex).__name__,), case, f"{head}: {describe(ex)}")
            continue
        ctx.count("predicate_probes")
        if ra != rb or not ra:
            ctx.violation("equivalent_hints_match_differently", ("+".join(sorted({s[0] for s in steps})),), case,
                          f"{head}: stack carrying {carried!r}: pred(a)={ra} pred(b)={rb}")
    return None


def converter_links(hint_a, hint_b) -> bool:
    """Does ``get_converter`` find a coercer from a field of type a to a field of type b?  Documented (conversion tutorial, "Type
    coercion"): it does when "source type and destination type are the same"; apart from dst Any / subclass / union subset /
    element-wise coercion of compounds (which the callers rule out) "there are no implicit coercions".  The converter is not
    run: compounds of one type are rebuilt element-wise, not passed as is, so nothing is stated about the result's identity."""
    n = next(_lk_uid)
    src = dataclasses.make_dataclass(f"C15Src{n}", [("f", hint_a)])
    dst = dataclasses.make_dataclass(f"C15Dst{n}", [("f", hint_b)])
    try:
        get_converter(src, dst)
    except ProviderNotFoundError:
        return False
    return True


class _DirectMediator:
    """Predicates built from plain type hints never ask the mediator for anything."""

    def provide(self, request):  # pragma: no cover
        raise AssertionError("unexpected mediator use")


def _one_shot(p):
    if isinstance(p, dict):
        if p.get("$") == "gen":
            return True
        return any(_one_shot(x) for x in p.values())
    if isinstance(p, list):
        return any(_one_shot(x) for x in p)
    return False


# ------------------------------------------------------------------------------------ implicit parameters of bare generics
T_any = typing.TypeVar("T_any")
T_bound = typing.TypeVar("T_bound", bound=int)
T_constr = typing.TypeVar("T_constr", int, str)


class GAny(typing.Generic[T_any]):
    pass


class GBound(typing.Generic[T_bound]):
    pass


class GConstr(typing.Generic[T_constr]):
    pass


class GTwo(typing.Generic[T_any, T_bound]):
    pass


def _generic_with(name, **tv_kwargs):
    tv = typing.TypeVar(f"T_{name}", **tv_kwargs)
    import types  # noqa: PLC0415
    return types.new_class(name, (typing.Generic[tv],), {})


# bounds / constraints that are themselves bare generics, parametrised generics, unions or None
GBoundList = _generic_with("GBoundList", bound=list)
GBoundDict = _generic_with("GBoundDict", bound=dict)
GBoundTuple = _generic_with("GBoundTuple", bound=tuple)
GBoundMapping = _generic_with("GBoundMapping", bound=typing.Mapping)
GBoundTypingList = _generic_with("GBoundTypingList", bound=typing.List)
GBoundListInt = _generic_with("GBoundListInt", bound=typing.List[int])
GBoundUser = _generic_with("GBoundUser", bound=GAny)
GBoundOpt = _generic_with("GBoundOpt", bound=typing.Optional[int])
GBoundNone = _generic_with("GBoundNone", bound=type(None))
T_c2 = typing.TypeVar("T_c2", list, typing.Dict[str, int])


class GConstrGeneric(typing.Generic[T_c2]):
    pass


IMPLICIT = {
    "GBoundList": (GBoundList, (list,)), "GBoundDict": (GBoundDict, (dict,)), "GBoundTuple": (GBoundTuple, (tuple,)),
    "GBoundMapping": (GBoundMapping, (typing.Mapping,)), "GBoundTypingList": (GBoundTypingList, (typing.List,)),
    "GBoundListInt": (GBoundListInt, (typing.List[int],)), "GBoundUser": (GBoundUser, (GAny,)),
    "GBoundOpt": (GBoundOpt, (typing.Optional[int],)), "GBoundNone": (GBoundNone, (type(None),)),
    "GConstrGeneric": (GConstrGeneric, (typing.Union[list, typing.Dict[str, int]],)),
    "list": (list, (Any,)), "typing.List": (typing.List, (Any,)), "dict": (dict, (Any, Any)), "set": (set, (Any,)),
    "frozenset": (frozenset, (Any,)), "typing.Dict": (typing.Dict, (Any, Any)), "Mapping": (typing.Mapping, (Any, Any)),
    "Sequence": (typing.Sequence, (Any,)), "Iterable": (typing.Iterable, (Any,)), "deque": (typing.Deque, (Any,)),
    "GAny": (GAny, (Any,)), "GBound": (GBound, (int,)), "GConstr": (GConstr, (typing.Union[int, str],)),
    "GTwo": (GTwo, (Any, int)), "type": (type, (Any,)), "typing.Type": (typing.Type, (Any,)),
}


def check_implicit(ctx: runner.Ctx, case):
    bare, params = IMPLICIT[case["name"]]
    ctx.case(["implicit", case["name"]], True, sample={"mode": "implicit", "bare": case["name"], "expected_params": repr(params)},
             labels=["mode:implicit"])
    nb = normalize_type(bare)
    ne = normalize_type(bare[params if len(params) > 1 else params[0]])
    if nb != ne or hash(nb) != hash(ne):
        ctx.violation("bare_generic_implicit_params", (case["name"],), case,
                      f"normalize_type({bare!r}) = {nb!r} but with documented implicit parameters {params!r}: {ne!r}")
    exp_args = tuple(normalize_type(p) for p in params)
    if tuple(nb.args) != exp_args:
        ctx.violation("bare_generic_args", (case["name"],), case, f"normalize_type({bare!r}).args = {nb.args!r}, expected {exp_args!r}")
    # the implicit parameter spelled in its own explicit form is the same type too (list == List[Any] ...), the normal form is
    # idempotent, and a predicate written with the explicit spelling matches a location typed with the bare class
    for p_spelled in ([typing.List[Any]] if params == (list,) else [typing.Dict[Any, Any]] if params == (dict,) else
                      [typing.Tuple[Any, ...]] if params == (tuple,) else [GAny[Any]] if params == (GAny,) else []):
        nx = normalize_type(bare[p_spelled])
        if nx != nb or hash(nx) != hash(nb):
            ctx.violation("bare_generic_implicit_params", (case["name"], "explicit_inner"), case,
                          f"normalize_type({bare!r}) = {nb!r} but normalize_type({bare[p_spelled]!r}) = {nx!r}")
    if normalize_type(nb.source) != nb or any(normalize_type(a.source) != a for a in nb.args if hasattr(a, "source")):
        ctx.violation("normal_form_not_idempotent", (case["name"],), case, f"normalize_type({bare!r}) = {nb!r}")
    explicit = bare[params if len(params) > 1 else params[0]]
    for pred, loc_tp in ((explicit, bare), (bare, explicit)):
        try:
            ok = create_loc_stack_checker(pred).check_loc_stack(None, LocStack(TypeHintLoc(type=loc_tp)))  # type: ignore[arg-type]
        except Exception as ex:  # noqa: BLE001
            ok = describe(ex)
        if ok is not True:
            ctx.violation("bare_generic_predicate", (case["name"],), case,
                          f"predicate {pred!r} on a location of type {loc_tp!r}: {ok!r} (the two spell one type)")


TUPLE_LENGTH_PAIRS = [(["tuple", [], "typing"], ["tuple", [["int"]], "typing"]), (["tuple", [], "builtin"], ["tuple", [["int"], ["str"]], "builtin"]),
                      (["tuple", [], "typing"], ["vtuple", ["int"], "typing"]), (["tuple", [["int"]], "typing"], ["tuple", [["int"], ["int"]], "typing"])]
LITERAL_LOOKALIKE_PAIRS = [([0, 1], [False, True]), ([0], [False]), ([1], [True]), ([0, 1, "x"], [False, True, "x"]),
                           ([1, 2, 3, 4, 5], [True, 2, 3, 4, 5]), ([0, "a", "b", "c", "d"], [False, "a", "b", "c", "d"])]


def _wrapped(lit, wrap):
    if wrap == "list":
        return ["list", lit, "typing"]
    if wrap == "dict_value":
        return ["dict", ["str"], lit, "typing"]
    if wrap == "tuple":
        return ["tuple", [["int"], lit], "typing"]
    return lit


def lookalike_clusters():
    """Per value, every legal Literal member alike it: the plain value, bool, members of every mixin enum kind, of a twin class of
    each, of a plain Enum."""
    for v in (0, 1, 2, "a", {"$": "bytes", "h": "61"}):
        pool = [v, *lookalikes_of(v)]
        pool += [w for m in pool[1:] if _is_member(m) and m["spec"]["base"] in (*INT_MIXINS, *STR_MIXINS, *BYTES_MIXINS)
                 for w in lookalikes_of(m) if _is_member(w) and w["c"].endswith("_twin")]
        yield v, pool


def lookalike_cases():
    """Exhaustive side table.  (1) different types: Literals that differ in one member by a look-alike (every unordered pair of
    every cluster), bare and one level down, alone and next to other members; (2) one type: the two look-alikes in ONE Literal
    against the same Literal split over a union (also with a case written twice) -- de-duplication must keep both."""
    for va, vb in LITERAL_LOOKALIKE_PAIRS:
        for wrap in ("bare", "list", "dict_value", "tuple"):
            yield {"mode": "change", "a": _wrapped(["literal", va], wrap), "b": _wrapped(["literal", vb], wrap),
                   "steps": [["literal_bool_int_table", 0 if wrap == "bare" else 1]], "probes": [], "values": [], "order": False}
    for v, pool in lookalike_clusters():
        for (i, x), (j, y) in itertools.combinations(enumerate(pool), 2):
            name = f"lookalike_{lk_kind(x)}_to_{lk_kind(y)}" + ("_twin" if _is_member(y) and y["c"].endswith("_twin") else "")
            for ctx_members in ([], ["zz", 7, 8, 9]):
                for wrap in ("bare", "list", "dict_value", "tuple"):
                    if ctx_members and wrap in ("dict_value", "tuple"):
                        continue
                    yield {"mode": "change", "a": _wrapped(["literal", [x, *ctx_members]], wrap),
                           "b": _wrapped(["literal", [y, *ctx_members]], wrap), "steps": [[name, 0 if wrap == "bare" else 1]],
                           "probes": [], "values": [], "order": (i + j) % 2 == 0, "family": "lookalike_table"}
            data = datum_options(["literal", [x, y]])
            strip_spec = [{k: w for k, w in m.items() if k != "spec"} if isinstance(m, dict) else m for m in (x, y)]
            for form, b in (("literal_split", ["union", [["literal", [x]], ["literal", [y]]], "typing"]),
                            ("literal_split+union_duplicated", ["union", [["literal", [y]], ["literal", [x]], ["literal", [y]]], "typing"]),
                            ("literals_merged", ["union", [["literal", [y, "zz"]], ["int"], ["literal", [x]]], "bar"])):
                a = ["literal", [x, y]] if form != "literals_merged" else ["union", [["int"], ["literal", [y, "zz", x]]], "typing"]
                for wrap in ("bare", "list"):
                    yield {"mode": "preserve", "a": _wrapped(a, wrap), "b": _wrapped(b, wrap),
                           "steps": [[f, 0 if wrap == "bare" else 1] for f in form.split("+")],
                           "probes": [d if wrap == "bare" else [d] for d in data], "family": "lookalike_table",
                           "values": [m if wrap == "bare" else [m] for m in strip_spec], "order": (i + j) % 2 == 1}
    for a, b in TUPLE_LENGTH_PAIRS:
        yield {"mode": "change", "a": a, "b": b, "steps": [["tuple_length_table", 0]], "probes": [], "values": [], "order": False}
        yield {"mode": "change", "a": ["list", a, "typing"], "b": ["list", b, "typing"], "steps": [["tuple_length_table", 1]],
               "probes": [], "values": [], "order": False}


# ------------------------------------------------------------------------------------ classes that share a name
def _same_name_world():
    """Pairs of DIFFERENT classes whose names coincide (same __qualname__, other module: versioned APIs, two vendored copies): whatever
    the normal form sorts union members by, it must not tie on them."""
    import dataclasses  # noqa: PLC0415
    import enum  # noqa: PLC0415
    out = {}
    out["enum"] = (enum.Enum("Color", {"RED": 1, "BLUE": 2}, module="c15_pkg_a.colors"),
                   enum.Enum("Color", {"RED": 1, "GREEN": 3}, module="c15_pkg_b.colors"), 1)
    out["int_enum"] = (enum.IntEnum("Level", {"LOW": 1}, module="c15_pkg_a.levels"), enum.IntEnum("Level", {"LOW": 1}, module="c15_pkg_b.levels"), 1)
    a1 = dataclasses.make_dataclass("Address", [("street", str)])
    a2 = dataclasses.make_dataclass("Address", [("street", str), ("country", str, dataclasses.field(default="NL"))])
    a1.__module__, a2.__module__ = "c15_shop_v1", "c15_shop_v2"
    out["dataclass"] = (a1, a2, {"street": "Damrak 1"})
    b1 = dataclasses.make_dataclass("Local", [("v", int)])
    b2 = dataclasses.make_dataclass("Local", [("v", int), ("w", int, dataclasses.field(default=0))])   # same module AND same name
    out["same_module"] = (b1, b2, {"v": 1})
    f1, f2 = enum.Flag("Perm", {"R": 1}, module="c15_pkg_a.perm"), enum.Flag("Perm", {"R": 1}, module="c15_pkg_b.perm")
    out["flag"] = (f1, f2, 1)
    return out


_SAME_NAME: dict = {}
SAME_NAME_KINDS = ["enum", "int_enum", "dataclass", "same_module", "flag"]
SAME_NAME_SHAPES = ["bare3", "in_dict", "in_list", "optional", "nested_arg"]


def same_name_cases():
    for kind in SAME_NAME_KINDS:
        for shape in SAME_NAME_SHAPES:
            yield {"mode": "same_name", "kind": kind, "shape": shape}


def check_same_name(ctx, case):
    import typing as tp  # noqa: PLC0415
    if not _SAME_NAME:
        _SAME_NAME.update(_same_name_world())
    c1, c2, datum = _SAME_NAME[case["kind"]]
    shape = case["shape"]
    # the two spellings must not be EQUAL for typing (normalize_type caches by the hint): another member is respelled too
    if shape == "bare3":
        h1, h2, d = tp.Union[c1, c2, tp.List[str]], tp.Union[c2, c1, list[str]], datum
    elif shape == "in_dict":
        h1, h2, d = tp.Dict[str, tp.Union[c1, c2]], dict[str, tp.Union[c2, c1]], {"k": datum}
    elif shape == "in_list":
        h1, h2, d = tp.List[tp.Union[c1, c2]], list[tp.Union[c2, c1]], [datum]
    elif shape == "optional":
        h1, h2, d = tp.Optional[tp.Union[c1, c2, tp.List[int]]], tp.Union[c2, None, c1, list[int]], datum
    else:
        h1, h2, d = tp.Union[tp.List[c1], tp.List[c2], tp.Dict[str, int]], tp.Union[list[c2], list[c1], dict[str, int]], [datum]
    ctx.case(["same_name", case], True, sample={**case, "h1": str(h1), "h2": str(h2)}, labels=["part:same_name_classes", f"kind:{case['kind']}"])
    n1, n2 = normalize_type(h1), normalize_type(h2)
    if n1 != n2 or hash(n1) != hash(n2):
        ctx.violation("equivalent_hints_normalise_differently", ("same_name_classes", case["kind"]), case,
                      f"{h1} and {h2} (the two classes share their name and differ in module / identity) normalise to {n1!r} and {n2!r}")
        return
    from adaptix import DebugTrail  # noqa: PLC0415
    for dbg in (DebugTrail.DISABLE, DebugTrail.FIRST, DebugTrail.ALL):
        retort = Retort(debug_trail=dbg)
        r1, r2 = retort.load(d, h1), retort.load(d, h2)

        def cls_of(x):
            while isinstance(x, (list, dict)):
                x = next(iter(x.values())) if isinstance(x, dict) else x[0]
            return type(x)
        if cls_of(r1) is not cls_of(r2):
            ctx.violation("equivalent_hints_load_differently", ("same_name_classes", case["kind"]), case,
                          f"load({d!r}) gives {r1!r} of {cls_of(r1).__module__} for {h1} and {r2!r} of {cls_of(r2).__module__} for {h2}")
            return


# ------------------------------------------------------------------------------------ parametrised PEP 695 aliases
_ALIAS_NS: dict = {}
_ALIAS_SRC = """
type Batch[T] = list[T]
type Swap[A, B] = dict[B, A]
type Pair[A, B] = tuple[A, B]
type RevPair[A, B] = tuple[B, A]
type Nested[A, B] = dict[A, list[tuple[B, A]]]
"""
ALIAS_PROBES = {
    # alias spelling, plain spelling it must behave like, a datum only this reading accepts, a datum only the swapped one accepts
    "Batch[int]": ("list[int]", [1], ["x"]),
    "Swap[int, str]": ("dict[str, int]", {"a": 1}, {1: "a"}),
    "Pair[int, str]": ("tuple[int, str]", [1, "a"], ["a", 1]),
    "RevPair[int, str]": ("tuple[str, int]", ["a", 1], [1, "a"]),
    "Nested[str, int]": ("dict[str, list[tuple[int, str]]]", {"k": [[1, "a"]]}, {"k": [["a", 1]]}),
}


def check_alias(ctx: runner.Ctx, case):
    if not _ALIAS_NS:
        exec(compile(_ALIAS_SRC, "<c15 aliases>", "exec", dont_inherit=True), _ALIAS_NS)  # noqa: S102
    plain_src, good, bad = ALIAS_PROBES[case["name"]]
    alias, plain = eval(case["name"], _ALIAS_NS), eval(plain_src, {})  # noqa: S307
    ctx.case(["alias", case["name"]], True, sample={"mode": "alias", "alias": case["name"], "means": plain_src}, labels=["mode:alias"])
    retort = Retort()
    for datum in (good, bad):
        outs = []
        for tp in (alias, plain):
            try:
                outs.append(("ok", tspec.canon(retort.load(datum, tp))))
            except Exception as ex:  # noqa: BLE001
                outs.append(("err", type(ex).__name__ if valid_load_error(ex) else describe(ex)))
        if outs[0] != outs[1]:
            ctx.violation("alias_means_another_type", (case["name"].split("[")[0],), case,
                          f"load({datum!r}, {case['name']}) -> {outs[0]!r}; load(.., {plain_src}) -> {outs[1]!r}")
    # two parametrisations of one alias are two types
    other = eval(case["name"].split("[")[0] + "[bytes, bytes]" if "," in case["name"] else case["name"].split("[")[0] + "[bytes]",  # noqa: S307
                 _ALIAS_NS)
    na, nb = normalize_type(alias), normalize_type(other)
    if na == nb or na.source == nb.source:
        ctx.violation("different_types_collapse", ("alias_parametrisation",), case,
                      f"{case['name']}: normal form {na!r} (source {na.source!r}) vs {nb!r} (source {nb.source!r})")


def explore(ctx: runner.Ctx):
    if ctx.shard == 0:
        for name in IMPLICIT:
            check_case(ctx, {"mode": "implicit", "name": name})
        for name in ALIAS_PROBES:
            runner.guarded(ctx, lambda k: check_case(ctx, k), {"mode": "alias", "name": name})
        for c in same_name_cases():
            runner.guarded(ctx, lambda k: check_case(ctx, k), c)
    for i, c in enumerate(lookalike_cases()):   # exhaustive side table, dealt over the shards
        if i % ctx.nshards == ctx.shard:
            runner.guarded(ctx, lambda k: check_case(ctx, k), c)
    ctx.given(st_case(), lambda c: check_case(ctx, c), ctx.budget(4000, 300000))


RULE = ("cases = (type spec a, rewritten spec b, rewrite steps, probe data); preserve: 1-4 meaning-preserving rewrites at "
        "random nodes, change: one meaning-changing edit. Non-trivial = >= 2 rewrites with one below the root, or an edit "
        "below the root. Distinct by (mode, a, b).")

if __name__ == "__main__":
    raise SystemExit(runner.main(
        PROP, explore=explore, check_case=check_case, strategy=st_case(), rule=RULE,
        assumptions=["for a meaning-changing edit only inequality of the normal forms is asserted",
                     "dumped sets are not compared between spellings (iteration order)"],
    ))
