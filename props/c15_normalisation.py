"""C15 -- type normalisation is a canonical form (metamorphic).

Generated: a type spec and
  (i)  a sequence of meaning-preserving rewrites: reorder / nest / duplicate union members, Union <-> |,
       Optional[X] <-> Union[X, None] <-> X | None, typing aliases <-> builtin generics, bare generic <-> explicit
       implicit parameters, split / merge Literal members across a union, Literal[None] <-> None;
  (ii) one meaning-changing edit: another leaf class, Literal[0] <-> Literal[False] (1 <-> True), drop / add a union
       member, another type argument, another tuple length.
Oracle: (i) normalize_type(a) == normalize_type(b), equal hashes, both orders (cold / warm LRU); loaders and dumpers of
a and b agree on a probe battery; create_loc_stack_checker(a) and (b) agree on stacks carrying either spelling;
(ii) normal forms differ; always: idempotence normalize_type(n.source) == n; bare generics expose the documented
implicit parameters (Any / bound / union of constraints).
"""
from __future__ import annotations

import copy
import typing
from typing import Any

from vkit import env, runner
from vkit.errors import describe, valid_load_error

env.import_adaptix()

from hypothesis import strategies as st  # noqa: E402

from adaptix import ProviderNotFoundError, Retort, create_loc_stack_checker  # noqa: E402
from adaptix._internal.provider.loc_stack_filtering import LocStack  # noqa: E402
from adaptix._internal.provider.location import TypeHintLoc  # noqa: E402
from adaptix._internal.type_tools import normalize_type  # noqa: E402
from vkit import codec, soup, tspec  # noqa: E402

PROP = "C15"
GEN = tspec.TypeGen(max_depth=3, models=False, wrappers=False, enums=True, disjoint_unions=False, dumpable_unions=False)


# ------------------------------------------------------------------------------------ rewrites on specs
def nodes(spec, path=()):
    yield path, spec
    tag = spec[0]
    if tag in ("list", "set", "frozenset", "vtuple", "deque", "optional"):
        yield from nodes(spec[1], (*path, 1))
    elif tag == "abc":
        yield from nodes(spec[2], (*path, 2))
    elif tag in ("tuple", "union"):
        for i, c in enumerate(spec[1]):
            yield from nodes(c, (*path, 1, i))
    elif tag in ("dict", "defaultdict", "mapping", "mutablemapping"):
        yield from nodes(spec[1], (*path, 1))
        yield from nodes(spec[2], (*path, 2))


def set_node(spec, path, new):
    if not path:
        return new
    spec = copy.deepcopy(spec)
    cur = spec
    for p in path[:-1]:
        cur = cur[p]
    cur[path[-1]] = new
    return spec


SP_SLOT = {"list": 2, "set": 2, "frozenset": 2, "vtuple": 2, "tuple": 2, "dict": 3, "abc": 3}


def preserving_options(s):  # noqa: C901, PLR0912
    """All single meaning-preserving rewrites applicable at node ``s`` (list of new node specs)."""
    tag = s[0]
    out = []
    if tag in SP_SLOT:
        slot = SP_SLOT[tag]
        cur = s[slot] if len(s) > slot else "typing"
        if cur in ("typing", "builtin"):
            new = list(s) + [None] * (slot + 1 - len(s))
            new[slot] = "builtin" if cur == "typing" else "typing"
            out.append(("alias_spelling", new))
    # bare generic <-> explicit implicit parameters (Any)
    if tag in ("list", "set", "frozenset", "vtuple", "deque") and s[1] == ["any"] and s[-1] not in ("bare_typing", "bare_builtin"):
        out.append(("bare_generic", [tag, ["any"], "bare_typing"]))
        out.append(("bare_generic", [tag, ["any"], "bare_builtin"]))
    if tag == "abc" and s[2] == ["any"] and s[-1] not in ("bare_typing", "bare_builtin"):
        out.append(("bare_generic", ["abc", s[1], ["any"], "bare_typing"]))
    if tag in ("dict", "mapping", "mutablemapping", "defaultdict") and s[1] == ["any"] and s[2] == ["any"] \
            and s[-1] not in ("bare_typing", "bare_builtin"):
        out.append(("bare_generic", [tag, ["any"], ["any"], "bare_typing"]))
    if s[-1] in ("bare_typing", "bare_builtin"):
        explicit = [x for x in s[:-1]] + (["typing"] if tag in SP_SLOT else [])
        out.append(("bare_generic_explicit", explicit))
    if tag == "optional":
        inner = s[1]
        for sp in ("optional", "typing", "bar"):
            if sp != (s[2] if len(s) > 2 else "optional"):
                out.append(("optional_spelling", ["optional", inner, sp]))
        out.append(("optional_as_union", ["union", [inner, ["none"]], "typing"]))
        out.append(("optional_as_union_none_first", ["union", [["none"], inner], "typing"]))
        if inner[0] == "literal":
            out.append(("literal_none_merged", ["literal", [*inner[1], None]]))
    if tag == "union":
        cases = s[1]
        sp = s[2] if len(s) > 2 else "typing"
        out.append(("union_spelling", ["union", cases, "bar" if sp == "typing" else "typing"]))
        out.append(("union_reversed", ["union", list(reversed(cases)), sp]))
        out.append(("union_rotated", ["union", cases[1:] + cases[:1], sp]))
        out.append(("union_duplicated", ["union", [*cases, cases[0]], "typing"]))
        if len(cases) >= 3:
            out.append(("union_nested", ["union", [cases[0], ["union", cases[1:], "typing"]], "typing"]))
            out.append(("union_nested_left", ["union", [["union", cases[:2], "typing"], *cases[2:]], "typing"]))
        lits = [c for c in cases if c[0] == "literal"]
        if len(lits) >= 2:
            merged = ["literal", [v for c in lits for v in c[1]]]
            rest = [c for c in cases if c[0] != "literal"]
            out.append(("literals_merged", ["union", [*rest, merged], "typing"] if rest else merged))
    if tag == "literal" and len(s[1]) >= 2:
        out.append(("literal_split", ["union", [["literal", [v]] for v in s[1]], "typing"]))
        out.append(("literal_reordered", ["literal", list(reversed(s[1]))]))
        out.append(("literal_split_2", ["union", [["literal", s[1][:1]], ["literal", s[1][1:]]], "typing"]))
    if tag == "none":
        out.append(("none_as_literal", ["literal", [None]]))
    if tag == "literal" and s[1] == [None]:
        out.append(("literal_none_as_none", ["none"]))
    return out


LOOKALIKE = {0: False, 1: True}
LEAF_SWAP = {"int": "str", "str": "bytes", "bool": "int", "float": "int", "none": "bool", "decimal": "fraction",
             "bytes": "bytearray", "date": "datetime", "datetime": "date", "uuid": "str", "any": "object", "object": "any",
             "fraction": "decimal", "complex": "float", "time": "date", "timedelta": "float", "bytearray": "bytes"}


def changing_options(s):  # noqa: C901
    tag = s[0]
    out = []
    if tag in LEAF_SWAP:
        out.append(("leaf_class", [LEAF_SWAP[tag]]))
    if tag == "literal":
        for i, v in enumerate(s[1]):
            if type(v) is int and v in LOOKALIKE and LOOKALIKE[v] not in [x for x in s[1] if type(x) is bool]:
                out.append(("literal_int_to_bool", ["literal", [*s[1][:i], LOOKALIKE[v], *s[1][i + 1:]]]))
            if type(v) is bool and int(v) not in [x for x in s[1] if type(x) is int]:
                out.append(("literal_bool_to_int", ["literal", [*s[1][:i], int(v), *s[1][i + 1:]]]))
        out.append(("literal_member_added", ["literal", [*s[1], "__another__"]]))
        if len(s[1]) >= 2:
            out.append(("literal_member_dropped", ["literal", s[1][1:]]))
    if tag == "union":
        cases = s[1]
        sp = s[2] if len(s) > 2 else "typing"
        if len(cases) >= 3:
            out.append(("union_member_dropped", ["union", cases[1:], sp]))
        present = {c[0] for c in cases}
        extra = next(x for x in ("complex", "timedelta", "uuid", "pattern") if x not in present)
        out.append(("union_member_added", ["union", [*cases, [extra]], sp]))
    if tag == "tuple":
        out.append(("tuple_length", ["tuple", [*s[1], ["int"]], *s[2:]]))
        if s[1]:
            out.append(("tuple_length", ["tuple", s[1][1:], *s[2:]]))
    if tag == "optional":
        out.append(("optional_dropped", s[1]))
    if tag in ("list", "set", "frozenset", "vtuple", "deque") and s[-1] not in ("bare_typing", "bare_builtin"):
        other = {"list": "vtuple", "vtuple": "list", "set": "frozenset", "frozenset": "set", "deque": "list"}[tag]
        out.append(("container_class", [other, s[1], "typing"]))
    return out


LEAVES = [["int"], ["str"], ["date"], ["bool"], ["float"], ["none"], ["bytes"], ["decimal"], ["literal", [1]], ["literal", ["1"]],
          ["literal", [True]], ["uuid"]]


@st.composite
def st_deep_twins(draw):
    """A union whose members share the origin and the origins of their direct arguments and differ only deeper
    (list[list[date]] | list[list[str]]): canonical member order must not depend on the order written."""
    def wrap(leaf, shape):
        if shape == "ll":
            return ["list", ["list", leaf, "typing"], "typing"]
        if shape == "dl":
            return ["dict", ["str"], ["list", leaf, "typing"], "typing"]
        if shape == "vl":
            return ["vtuple", ["list", leaf, "typing"], "typing"]
        if shape == "lll":
            return ["list", ["list", ["list", leaf, "typing"], "typing"], "typing"]
        if shape == "lo":
            return ["list", ["optional", ["list", leaf, "typing"], "optional"], "typing"]
        return ["set", ["frozenset", leaf, "typing"], "typing"]
    shape = draw(st.sampled_from(["ll", "dl", "vl", "lll", "lo", "sf"]))
    k = draw(st.integers(2, 3))
    leaves = draw(st.lists(st.sampled_from(LEAVES), min_size=k, max_size=k, unique_by=repr))
    members = [wrap(lf, shape) for lf in leaves]
    if draw(st.booleans()):
        members.append(draw(st.sampled_from([["int"], ["none"], ["str"]])))
    t = ["union", members, "typing"]
    if draw(st.booleans()):
        t = ["list", t, "typing"]
    return t


@st.composite
def st_case(draw):
    t = draw(st_deep_twins()) if draw(st.integers(0, 4)) == 0 else draw(GEN.strategy())
    mode = draw(st.sampled_from(["preserve", "preserve", "change"]))
    steps = []
    cur = t
    if mode == "preserve":
        k = draw(st.integers(1, 4))
        for _ in range(k):
            opts = [(p, name, new) for p, s in nodes(cur) for name, new in preserving_options(s)]
            if not opts:
                break
            p, name, new = draw(st.sampled_from(opts))
            cur = set_node(cur, p, new)
            steps.append([name, len(p)])
    else:
        opts = [(p, name, new) for p, s in nodes(cur) for name, new in changing_options(s)]
        if not opts:
            return {"mode": "none", "a": t, "b": t, "steps": []}
        p, name, new = draw(st.sampled_from(opts))
        cur = set_node(cur, p, new)
        steps.append([name, len(p)])
    if unions_reference_dumpable(t):
        probes = [draw(soup.st_near_valid(t, max_mut=1))[0] for _ in range(2)] + [draw(soup.st_soup(4))]
    else:
        # overlapping / non-class union cases: the reference dump cannot pick a case; such types still matter here because
        # the union loader tries the cases in NORMAL-FORM order, so equivalent spellings must agree on arbitrary data too
        probes = [draw(soup.st_soup(6)) for _ in range(3)] + [[], [[]], [["2020-01-02"]], [[1]], {"$": "d", "v": [["a", [1]]]}]
    values = [draw(tspec.st_value(t)) for _ in range(2)]
    return {"mode": mode, "a": t, "b": cur, "steps": steps, "probes": probes, "values": values,
            "order": draw(st.booleans())}


def denote(spec):  # noqa: C901, PLR0911, PLR0912
    """The harness's own notion of "denotes the same type": spellings ignored, unions flattened into sets, literal members
    merged type-aware, Optional / Literal[None] folded.  Independent of adaptix; used to decide whether an edit really
    changed the meaning (the generator may produce duplicate union members) and to self-check the rewrite catalogue."""
    tag = spec[0]
    if tag in ("list", "set", "frozenset", "vtuple", "deque"):
        return (tag, denote(spec[1]))
    if tag == "abc":
        return ("abc", spec[1], denote(spec[2]))
    if tag == "tuple":
        return ("tuple", tuple(denote(x) for x in spec[1]))
    if tag in ("dict", "defaultdict", "mapping", "mutablemapping"):
        return (tag, denote(spec[1]), denote(spec[2]))
    if tag == "enum":
        return ("enum", spec[1]["name"])
    if tag in ("optional", "union", "literal", "none"):
        members, lits = set(), set()

        def add(s2):
            t2 = s2[0]
            if t2 == "optional":
                add(s2[1])
                members.add(("none",))
            elif t2 == "union":
                for c in s2[1]:
                    add(c)
            elif t2 == "literal":
                for v in s2[1]:
                    if v is None:
                        members.add(("none",))
                    elif isinstance(v, dict):
                        lits.add(("$", repr(sorted((k, repr(x)) for k, x in v.items() if k != "spec"))))
                    else:
                        lits.add((type(v).__name__, repr(v)))
            elif t2 == "none":
                members.add(("none",))
            else:
                members.add(denote(s2))
        add(spec)
        if lits:
            members.add(("literal", frozenset(lits)))
        if len(members) == 1:
            return next(iter(members))
        return ("union", frozenset(members))
    return (tag, *[x for x in spec[1:] if isinstance(x, str) and tag in ("ip", "path")])


def unions_reference_dumpable(t) -> bool:
    for s in tspec.walk(t):
        if s[0] == "union":
            seen = set()
            for c in s[1]:
                if not tspec.union_case_dumpable(c):
                    return False
                sh = tspec.shapes(c, True)
                if seen & sh:
                    return False
                seen |= sh
    return True


def build_hint(spec, shared_env):
    """Both spellings are built in ONE environment so that equally named enum specs denote the same class."""
    try:
        return tspec.build_type(spec, shared_env)
    except TypeError:
        return None


def outcome(fn, arg):
    try:
        return ("ok", tspec.canon(fn(arg)))
    except RecursionError:
        return ("skip",)
    except BaseException as ex:  # noqa: BLE001
        if valid_load_error(ex):
            return ("load_error",)
        return ("exc", type(ex).__name__)


def raw_outcome(fn, arg):
    try:
        return ("ok", fn(arg))
    except BaseException as ex:  # noqa: BLE001
        return ("exc", type(ex).__name__)


def check_case(ctx: runner.Ctx, case):  # noqa: C901, PLR0912, PLR0915
    if case.get("mode") == "alias":
        return check_alias(ctx, case)
    if case.get("mode") == "implicit":
        return check_implicit(ctx, case)
    if case.get("mode") == "same_name":
        return check_same_name(ctx, case)
    a_spec, b_spec = case["a"], case["b"]
    shared = codec.Env()
    ha, hb = build_hint(a_spec, shared), build_hint(b_spec, shared)
    if ha is None or hb is None:
        ctx.count("spelling_not_constructible_in_python")
        return None
    (hint_a, ea), (hint_b, eb) = ha, hb
    steps = case["steps"]
    first, second = (hint_a, hint_b) if case.get("order", True) else (hint_b, hint_a)
    try:
        n1, n2 = normalize_type(first), normalize_type(second)
    except Exception as ex:  # noqa: BLE001
        ctx.violation("normalize_crashed", (type(ex).__name__, "+".join(s[0] for s in steps)), case,
                      f"a={hint_a!r} b={hint_b!r}: {describe(ex)}")
        return None
    na, nb = (n1, n2) if case.get("order", True) else (n2, n1)
    deep = sum(1 for s in steps if s[1] >= 1)
    nontrivial = (case["mode"] == "preserve" and len(steps) >= 2 and deep >= 1) or (case["mode"] == "change" and deep >= 1)
    ctx.case([case["mode"], a_spec, b_spec], nontrivial,
             sample={"mode": case["mode"], "a": repr(hint_a)[:200], "b": repr(hint_b)[:200], "steps": steps},
             labels=[f"mode:{case['mode']}", *[f"step:{s[0]}" for s in steps], f"nsteps:{len(steps)}"])
    head = f"mode={case['mode']} steps={steps} a={hint_a!r} b={hint_b!r}"
    # idempotence
    for n in (na, nb):
        try:
            again = normalize_type(n.source)
        except Exception as ex:  # noqa: BLE001
            ctx.violation("renormalize_crashed", (type(ex).__name__,), case, f"{head}: normalize_type(n.source) -> {describe(ex)}")
            continue
        if again != n or hash(again) != hash(n):
            ctx.violation("not_idempotent", (steps[0][0] if steps else "none",), case, f"{head}: {n!r} -> {again!r}")
    if case["mode"] == "none":
        return None
    same_meaning = denote(a_spec) == denote(b_spec)
    if case["mode"] == "preserve" and not same_meaning:
        raise env.HarnessError(f"rewrite catalogue bug: {steps} changed the meaning of {a_spec} -> {b_spec}")
    if case["mode"] == "change" and same_meaning:
        ctx.count("edit_did_not_change_the_meaning")   # e.g. a duplicate union member was dropped
        return None
    if case["mode"] == "change":
        if na == nb:
            ctx.violation("different_types_collapse", (steps[0][0],), case, f"{head}: both normalise to {na!r}")
            return None
        # a parametrised hint / Literal used as a predicate matches "the same type and nothing else": the two different types
        # must not match each other's locations (Literal[0, 1] vs Literal[False, True], List[int] vs List[str] ...)
        if typing.get_origin(hint_a) is not None and typing.get_origin(hint_b) is not None:   # (Tuple[()] has an origin, no args)
            try:
                ca, cb = create_loc_stack_checker(hint_a), create_loc_stack_checker(hint_b)
                med = _DirectMediator()
                cross = (ca.check_loc_stack(med, LocStack(TypeHintLoc(type=hint_b))),
                         cb.check_loc_stack(med, LocStack(TypeHintLoc(type=hint_a))))
            except Exception:  # noqa: BLE001  (not every hint is a valid predicate)
                ctx.count("hint_not_usable_as_predicate")
                return None
            ctx.count("predicate_cross_probes")
            if any(cross):
                ctx.violation("different_types_match_as_predicates", (steps[0][0],), case,
                              f"{head}: pred(a) on a location typed b -> {cross[0]}, pred(b) on a location typed a -> {cross[1]}")
        return None
    # ---- meaning preserving
    if na != nb:
        ctx.violation("equivalent_hints_normalise_differently", ("+".join(sorted({s[0] for s in steps})),), case,
                      f"{head}: {na!r} != {nb!r}")
        return None
    if hash(na) != hash(nb):
        ctx.violation("equal_norms_hash_differently", ("+".join(sorted({s[0] for s in steps})),), case, f"{head}")
    # loaders / dumpers / predicates equivalence
    for strict in (True, False):
        retort = Retort(strict_coercion=strict)
        try:
            la, lb = retort.get_loader(hint_a), retort.get_loader(hint_b)
        except ProviderNotFoundError:
            ctx.count("loader_not_creatable")
            break
        for p in case["probes"]:
            oa, ob = outcome(la, codec.build(p, ea)), outcome(lb, codec.build(p, ea))
            if "skip" in (oa[0], ob[0]) or _one_shot(p):
                continue
            ctx.count("loader_probes")
            if oa != ob:
                ctx.violation("equivalent_hints_load_differently", ("+".join(sorted({s[0] for s in steps})), f"strict:{strict}"),
                              case, f"{head} probe={p!r}: a -> {oa!r}; b -> {ob!r}")
    retort = Retort()
    try:
        da, db = retort.get_dumper(hint_a), retort.get_dumper(hint_b)
    except ProviderNotFoundError:
        ctx.count("dumper_not_creatable")
    else:
        for v in case["values"]:
            ra, rb = raw_outcome(da, codec.build(v, ea)), raw_outcome(db, codec.build(v, ea))
            ctx.count("dumper_probes")
            # the element order of a dumped set is not significant (and not reproducible: hash(nan) is address based)
            same = ra[0] == rb[0] and (ra[0] != "ok" or tspec.dumped_eq(a_spec, ra[1], rb[1], ea))
            oa, ob = ra, rb
            if not same:
                ctx.violation("equivalent_hints_dump_differently", ("+".join(sorted({s[0] for s in steps})),), case,
                              f"{head} value={v!r}: a -> {oa!r}; b -> {ob!r}")
    # predicates: a hint used as predicate matches locations carrying either spelling
    try:
        ca, cb = create_loc_stack_checker(hint_a), create_loc_stack_checker(hint_b)
    except Exception:  # noqa: BLE001  (not every hint is a valid predicate: unions, None ...)
        ctx.count("hint_not_usable_as_predicate")
        return None
    med = _DirectMediator()
    for carried in (hint_a, hint_b):
        stack = LocStack(TypeHintLoc(type=carried))
        try:
            ra, rb = ca.check_loc_stack(med, stack), cb.check_loc_stack(med, stack)
        except Exception as ex:  # noqa: BLE001
            ctx.violation("predicate_crashed", (type(ex).__name__,), case, f"{head}: {describe(ex)}")
            continue
        ctx.count("predicate_probes")
        if ra != rb or not ra:
            ctx.violation("equivalent_hints_match_differently", ("+".join(sorted({s[0] for s in steps})),), case,
                          f"{head}: stack carrying {carried!r}: pred(a)={ra} pred(b)={rb}")
    return None


class _DirectMediator:
    """Predicates built from plain type hints never ask the mediator for anything."""

    def provide(self, request):  # pragma: no cover
        raise AssertionError("unexpected mediator use")


def _one_shot(p):
    if isinstance(p, dict):
        if p.get("$") == "gen":
            return True
        return any(_one_shot(x) for x in p.values())
    if isinstance(p, list):
        return any(_one_shot(x) for x in p)
    return False


# ------------------------------------------------------------------------------------ implicit parameters of bare generics
T_any = typing.TypeVar("T_any")
T_bound = typing.TypeVar("T_bound", bound=int)
T_constr = typing.TypeVar("T_constr", int, str)


class GAny(typing.Generic[T_any]):
    pass


class GBound(typing.Generic[T_bound]):
    pass


class GConstr(typing.Generic[T_constr]):
    pass


class GTwo(typing.Generic[T_any, T_bound]):
    pass


def _generic_with(name, **tv_kwargs):
    tv = typing.TypeVar(f"T_{name}", **tv_kwargs)
    import types  # noqa: PLC0415
    return types.new_class(name, (typing.Generic[tv],), {})


# bounds / constraints that are themselves bare generics, parametrised generics, unions or None
GBoundList = _generic_with("GBoundList", bound=list)
GBoundDict = _generic_with("GBoundDict", bound=dict)
GBoundTuple = _generic_with("GBoundTuple", bound=tuple)
GBoundMapping = _generic_with("GBoundMapping", bound=typing.Mapping)
GBoundTypingList = _generic_with("GBoundTypingList", bound=typing.List)
GBoundListInt = _generic_with("GBoundListInt", bound=typing.List[int])
GBoundUser = _generic_with("GBoundUser", bound=GAny)
GBoundOpt = _generic_with("GBoundOpt", bound=typing.Optional[int])
GBoundNone = _generic_with("GBoundNone", bound=type(None))
T_c2 = typing.TypeVar("T_c2", list, typing.Dict[str, int])


class GConstrGeneric(typing.Generic[T_c2]):
    pass


IMPLICIT = {
    "GBoundList": (GBoundList, (list,)), "GBoundDict": (GBoundDict, (dict,)), "GBoundTuple": (GBoundTuple, (tuple,)),
    "GBoundMapping": (GBoundMapping, (typing.Mapping,)), "GBoundTypingList": (GBoundTypingList, (typing.List,)),
    "GBoundListInt": (GBoundListInt, (typing.List[int],)), "GBoundUser": (GBoundUser, (GAny,)),
    "GBoundOpt": (GBoundOpt, (typing.Optional[int],)), "GBoundNone": (GBoundNone, (type(None),)),
    "GConstrGeneric": (GConstrGeneric, (typing.Union[list, typing.Dict[str, int]],)),
    "list": (list, (Any,)), "typing.List": (typing.List, (Any,)), "dict": (dict, (Any, Any)), "set": (set, (Any,)),
    "frozenset": (frozenset, (Any,)), "typing.Dict": (typing.Dict, (Any, Any)), "Mapping": (typing.Mapping, (Any, Any)),
    "Sequence": (typing.Sequence, (Any,)), "Iterable": (typing.Iterable, (Any,)), "deque": (typing.Deque, (Any,)),
    "GAny": (GAny, (Any,)), "GBound": (GBound, (int,)), "GConstr": (GConstr, (typing.Union[int, str],)),
    "GTwo": (GTwo, (Any, int)), "type": (type, (Any,)), "typing.Type": (typing.Type, (Any,)),
}


def check_implicit(ctx: runner.Ctx, case):
    bare, params = IMPLICIT[case["name"]]
    ctx.case(["implicit", case["name"]], True, sample={"mode": "implicit", "bare": case["name"], "expected_params": repr(params)},
             labels=["mode:implicit"])
    nb = normalize_type(bare)
    ne = normalize_type(bare[params if len(params) > 1 else params[0]])
    if nb != ne or hash(nb) != hash(ne):
        ctx.violation("bare_generic_implicit_params", (case["name"],), case,
                      f"normalize_type({bare!r}) = {nb!r} but with documented implicit parameters {params!r}: {ne!r}")
    exp_args = tuple(normalize_type(p) for p in params)
    if tuple(nb.args) != exp_args:
        ctx.violation("bare_generic_args", (case["name"],), case, f"normalize_type({bare!r}).args = {nb.args!r}, expected {exp_args!r}")
    # the implicit parameter spelled in its own explicit form is the same type too (list == List[Any] ...), the normal form is
    # idempotent, and a predicate written with the explicit spelling matches a location typed with the bare class
    for p_spelled in ([typing.List[Any]] if params == (list,) else [typing.Dict[Any, Any]] if params == (dict,) else
                      [typing.Tuple[Any, ...]] if params == (tuple,) else [GAny[Any]] if params == (GAny,) else []):
        nx = normalize_type(bare[p_spelled])
        if nx != nb or hash(nx) != hash(nb):
            ctx.violation("bare_generic_implicit_params", (case["name"], "explicit_inner"), case,
                          f"normalize_type({bare!r}) = {nb!r} but normalize_type({bare[p_spelled]!r}) = {nx!r}")
    if normalize_type(nb.source) != nb or any(normalize_type(a.source) != a for a in nb.args if hasattr(a, "source")):
        ctx.violation("normal_form_not_idempotent", (case["name"],), case, f"normalize_type({bare!r}) = {nb!r}")
    explicit = bare[params if len(params) > 1 else params[0]]
    for pred, loc_tp in ((explicit, bare), (bare, explicit)):
        try:
            ok = create_loc_stack_checker(pred).check_loc_stack(None, LocStack(TypeHintLoc(type=loc_tp)))  # type: ignore[arg-type]
        except Exception as ex:  # noqa: BLE001
            ok = describe(ex)
        if ok is not True:
            ctx.violation("bare_generic_predicate", (case["name"],), case,
                          f"predicate {pred!r} on a location of type {loc_tp!r}: {ok!r} (the two spell one type)")


TUPLE_LENGTH_PAIRS = [(["tuple", [], "typing"], ["tuple", [["int"]], "typing"]), (["tuple", [], "builtin"], ["tuple", [["int"], ["str"]], "builtin"]),
                      (["tuple", [], "typing"], ["vtuple", ["int"], "typing"]), (["tuple", [["int"]], "typing"], ["tuple", [["int"], ["int"]], "typing"])]
LITERAL_LOOKALIKE_PAIRS = [([0, 1], [False, True]), ([0], [False]), ([1], [True]), ([0, 1, "x"], [False, True, "x"]),
                           ([1, 2, 3, 4, 5], [True, 2, 3, 4, 5]), ([0, "a", "b", "c", "d"], [False, "a", "b", "c", "d"])]


def lookalike_cases():
    """Literals that differ only by bool / int look-alikes, bare and one level down: different types at every level."""
    for va, vb in LITERAL_LOOKALIKE_PAIRS:
        for wrap in ("bare", "list", "dict_value", "tuple"):
            a, b = ["literal", va], ["literal", vb]
            if wrap == "list":
                a, b = ["list", a, "typing"], ["list", b, "typing"]
            elif wrap == "dict_value":
                a, b = ["dict", ["str"], a, "typing"], ["dict", ["str"], b, "typing"]
            elif wrap == "tuple":
                a, b = ["tuple", [["int"], a], "typing"], ["tuple", [["int"], b], "typing"]
            yield {"mode": "change", "a": a, "b": b, "steps": [["literal_bool_int_table", 0 if wrap == "bare" else 1]],
                   "probes": [], "values": [], "order": False}
    for a, b in TUPLE_LENGTH_PAIRS:
        yield {"mode": "change", "a": a, "b": b, "steps": [["tuple_length_table", 0]], "probes": [], "values": [], "order": False}
        yield {"mode": "change", "a": ["list", a, "typing"], "b": ["list", b, "typing"], "steps": [["tuple_length_table", 1]],
               "probes": [], "values": [], "order": False}


# ------------------------------------------------------------------------------------ classes that share a name
def _same_name_world():
    """Pairs of DIFFERENT classes whose names coincide (same __qualname__, other module: versioned APIs, two vendored copies): whatever
    the normal form sorts union members by, it must not tie on them."""
    import dataclasses  # noqa: PLC0415
    import enum  # noqa: PLC0415
    out = {}
    out["enum"] = (enum.Enum("Color", {"RED": 1, "BLUE": 2}, module="c15_pkg_a.colors"),
                   enum.Enum("Color", {"RED": 1, "GREEN": 3}, module="c15_pkg_b.colors"), 1)
    out["int_enum"] = (enum.IntEnum("Level", {"LOW": 1}, module="c15_pkg_a.levels"), enum.IntEnum("Level", {"LOW": 1}, module="c15_pkg_b.levels"), 1)
    a1 = dataclasses.make_dataclass("Address", [("street", str)])
    a2 = dataclasses.make_dataclass("Address", [("street", str), ("country", str, dataclasses.field(default="NL"))])
    a1.__module__, a2.__module__ = "c15_shop_v1", "c15_shop_v2"
    out["dataclass"] = (a1, a2, {"street": "Damrak 1"})
    b1 = dataclasses.make_dataclass("Local", [("v", int)])
    b2 = dataclasses.make_dataclass("Local", [("v", int), ("w", int, dataclasses.field(default=0))])   # same module AND same name
    out["same_module"] = (b1, b2, {"v": 1})
    f1, f2 = enum.Flag("Perm", {"R": 1}, module="c15_pkg_a.perm"), enum.Flag("Perm", {"R": 1}, module="c15_pkg_b.perm")
    out["flag"] = (f1, f2, 1)
    return out


_SAME_NAME: dict = {}
SAME_NAME_KINDS = ["enum", "int_enum", "dataclass", "same_module", "flag"]
SAME_NAME_SHAPES = ["bare3", "in_dict", "in_list", "optional", "nested_arg"]


def same_name_cases():
    for kind in SAME_NAME_KINDS:
        for shape in SAME_NAME_SHAPES:
            yield {"mode": "same_name", "kind": kind, "shape": shape}


def check_same_name(ctx, case):
    import typing as tp  # noqa: PLC0415
    if not _SAME_NAME:
        _SAME_NAME.update(_same_name_world())
    c1, c2, datum = _SAME_NAME[case["kind"]]
    shape = case["shape"]
    # the two spellings must not be EQUAL for typing (normalize_type caches by the hint): another member is respelled too
    if shape == "bare3":
        h1, h2, d = tp.Union[c1, c2, tp.List[str]], tp.Union[c2, c1, list[str]], datum
    elif shape == "in_dict":
        h1, h2, d = tp.Dict[str, tp.Union[c1, c2]], dict[str, tp.Union[c2, c1]], {"k": datum}
    elif shape == "in_list":
        h1, h2, d = tp.List[tp.Union[c1, c2]], list[tp.Union[c2, c1]], [datum]
    elif shape == "optional":
        h1, h2, d = tp.Optional[tp.Union[c1, c2, tp.List[int]]], tp.Union[c2, None, c1, list[int]], datum
    else:
        h1, h2, d = tp.Union[tp.List[c1], tp.List[c2], tp.Dict[str, int]], tp.Union[list[c2], list[c1], dict[str, int]], [datum]
    ctx.case(["same_name", case], True, sample={**case, "h1": str(h1), "h2": str(h2)}, labels=["part:same_name_classes", f"kind:{case['kind']}"])
    n1, n2 = normalize_type(h1), normalize_type(h2)
    if n1 != n2 or hash(n1) != hash(n2):
        ctx.violation("equivalent_hints_normalise_differently", ("same_name_classes", case["kind"]), case,
                      f"{h1} and {h2} (the two classes share their name and differ in module / identity) normalise to {n1!r} and {n2!r}")
        return
    from adaptix import DebugTrail  # noqa: PLC0415
    for dbg in (DebugTrail.DISABLE, DebugTrail.FIRST, DebugTrail.ALL):
        retort = Retort(debug_trail=dbg)
        r1, r2 = retort.load(d, h1), retort.load(d, h2)

        def cls_of(x):
            while isinstance(x, (list, dict)):
                x = next(iter(x.values())) if isinstance(x, dict) else x[0]
            return type(x)
        if cls_of(r1) is not cls_of(r2):
            ctx.violation("equivalent_hints_load_differently", ("same_name_classes", case["kind"]), case,
                          f"load({d!r}) gives {r1!r} of {cls_of(r1).__module__} for {h1} and {r2!r} of {cls_of(r2).__module__} for {h2}")
            return


# ------------------------------------------------------------------------------------ parametrised PEP 695 aliases
_ALIAS_NS: dict = {}
_ALIAS_SRC = """
type Batch[T] = list[T]
type Swap[A, B] = dict[B, A]
type Pair[A, B] = tuple[A, B]
type RevPair[A, B] = tuple[B, A]
type Nested[A, B] = dict[A, list[tuple[B, A]]]
"""
ALIAS_PROBES = {
    # alias spelling, plain spelling it must behave like, a datum only this reading accepts, a datum only the swapped one accepts
    "Batch[int]": ("list[int]", [1], ["x"]),
    "Swap[int, str]": ("dict[str, int]", {"a": 1}, {1: "a"}),
    "Pair[int, str]": ("tuple[int, str]", [1, "a"], ["a", 1]),
    "RevPair[int, str]": ("tuple[str, int]", ["a", 1], [1, "a"]),
    "Nested[str, int]": ("dict[str, list[tuple[int, str]]]", {"k": [[1, "a"]]}, {"k": [["a", 1]]}),
}


def check_alias(ctx: runner.Ctx, case):
    if not _ALIAS_NS:
        exec(compile(_ALIAS_SRC, "<c15 aliases>", "exec", dont_inherit=True), _ALIAS_NS)  # noqa: S102
    plain_src, good, bad = ALIAS_PROBES[case["name"]]
    alias, plain = eval(case["name"], _ALIAS_NS), eval(plain_src, {})  # noqa: S307
    ctx.case(["alias", case["name"]], True, sample={"mode": "alias", "alias": case["name"], "means": plain_src}, labels=["mode:alias"])
    retort = Retort()
    for datum in (good, bad):
        outs = []
        for tp in (alias, plain):
            try:
                outs.append(("ok", tspec.canon(retort.load(datum, tp))))
            except Exception as ex:  # noqa: BLE001
                outs.append(("err", type(ex).__name__ if valid_load_error(ex) else describe(ex)))
        if outs[0] != outs[1]:
            ctx.violation("alias_means_another_type", (case["name"].split("[")[0],), case,
                          f"load({datum!r}, {case['name']}) -> {outs[0]!r}; load(.., {plain_src}) -> {outs[1]!r}")
    # two parametrisations of one alias are two types
    other = eval(case["name"].split("[")[0] + "[bytes, bytes]" if "," in case["name"] else case["name"].split("[")[0] + "[bytes]",  # noqa: S307
                 _ALIAS_NS)
    na, nb = normalize_type(alias), normalize_type(other)
    if na == nb or na.source == nb.source:
        ctx.violation("different_types_collapse", ("alias_parametrisation",), case,
                      f"{case['name']}: normal form {na!r} (source {na.source!r}) vs {nb!r} (source {nb.source!r})")


def explore(ctx: runner.Ctx):
    if ctx.shard == 0:
        for name in IMPLICIT:
            check_case(ctx, {"mode": "implicit", "name": name})
        for name in ALIAS_PROBES:
            runner.guarded(ctx, lambda k: check_case(ctx, k), {"mode": "alias", "name": name})
        for c in lookalike_cases():
            runner.guarded(ctx, lambda k: check_case(ctx, k), c)
        for c in same_name_cases():
            runner.guarded(ctx, lambda k: check_case(ctx, k), c)
    ctx.given(st_case(), lambda c: check_case(ctx, c), ctx.budget(4000, 300000))


RULE = ("cases = (type spec a, rewritten spec b, rewrite steps, probe data); preserve: 1-4 meaning-preserving rewrites at "
        "random nodes, change: one meaning-changing edit. Non-trivial = >= 2 rewrites with one below the root, or an edit "
        "below the root. Distinct by (mode, a, b).")

if __name__ == "__main__":
    raise SystemExit(runner.main(
        PROP, explore=explore, check_case=check_case, strategy=st_case(), rule=RULE,
        assumptions=["for a meaning-changing edit only inequality of the normal forms is asserted",
                     "dumped sets are not compared between spellings (iteration order)"],
    ))
