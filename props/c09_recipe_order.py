"""C09 -- Recipe resolution is first-match in recipe order; chaining composes exactly once.

Generated: recipes (sequences of ``(predicate, handler kind)`` entries) x request type x direction (loader /
dumper) x retort construction route (plain ``Retort(recipe=...)``, ``extend()``, ``replace()``, subclasses with
class-level ``recipe`` -- single-inheritance chain and diamond --, retorts nested in a recipe, bare or ``bound``).
Short recipes are enumerated exhaustively (sharded by index), longer ones are sampled by Hypothesis with a
block grammar that forces runs of exact-type predicates (the ones ``routers.py`` merges into hash tables) to
start, end, repeat a type and be interleaved with non-groupable predicates.

Observation: every entry ``i`` carries the marker function ``f_i`` = "append digit i+1 in base 64 to every int leaf"
(so the order of composition is readable from the result) and -- in *logged* cases -- is wrapped by a public-API
``Provider`` that records ``(entry, location stack)`` at the moment its handler is consulted.

Oracle: an independent linear chain-of-responsibility interpreter (``Ref``) over
``extend-recipes + instance recipe + class recipes in MRO order + builtin``: scan from the offset; the first entry
whose predicate matches is consulted; plain -> terminal; declining -> continue; pass-through -> result of the scan
from the next offset; ``Chain.FIRST`` -> ``next . f``; ``Chain.LAST`` -> ``f . next``; a retort entry -> scan of its
own recipe with its own options.  Asserted: the loaded / dumped value equals the reference's composed function on
the probe datum, and (logged cases) the per-location consultation sequence equals the reference's.

Request pool also holds types ``normalize_type`` refuses (``ForwardRef('Missing')``, ``List[ForwardRef]``,
``list['Missing']``, bare ``Literal`` / ``Union``, the object ``5``): they have no origin, so no exact-class entry --
``loader(None, f)`` and the builtin None provider included, whether kept in a hash table or as a single item -- may
ever be consulted for them; ``P.ANY`` / negations match per their definition; when no matching entry serves the
request the facade must raise ``ProviderNotFoundError`` (three-valued: a nested retort that cannot serve is
unspecified).

Self-referential request types (``Node(a: int, nxt: Optional[Node])``, ``List[Node]``; probe data three levels
deep): the reference unrolls the cycle as deep as the data go, so a chaining entry that matches the recursive field /
the model must be composed exactly once at EVERY nesting level.  Locations at or below the point where the cycle comes
round may be answered by the request in progress (no provider is consulted again): they may be missing from the real
log; a request that was sent for them must show the reference's sequence.

``derived`` cases: retort A is placed in a holder's recipe and / or used first, then B = A.extend(...) /
A.replace(...) is placed in a fresh holder (or used directly): B serves from its own recipe and options, whatever
has been done with A.

Request ``MW`` (fields typed ``NewType('N', int)`` / ``Annotated[int, 'm']``): the wrappers are transparent for the
reference (one resolution of the field location; ``int`` predicates match it).  Two open findings live there; a
transcription of adaptix's two-step lookup gives a mismatch that it explains exactly its own kind.

A second interpreter (``defect model``) transcribes one *known* defect (see notes/C09.md); it is used only to
(a) give violations that it explains exactly their own narrow signature and (b) let the generators avoid the
affected class while the finding is open.  It never relaxes the oracle.
"""
from __future__ import annotations

import collections.abc
import itertools
import numbers
import os
import typing
from dataclasses import dataclass
from typing import Annotated, ForwardRef, List, Literal, NewType, Optional, Union

from vkit import env, runner
from vkit.errors import describe, exc_site

env.import_adaptix()

from hypothesis import strategies as st  # noqa: E402

from adaptix import (  # noqa: E402
    CannotProvide,
    Chain,
    DebugTrail,
    P,
    Provider,
    ProviderNotFoundError,
    Retort,
    bound,
    dumper,
    loader,
)
from adaptix.load_error import AggregateLoadError, LoadError  # noqa: E402

PROP = "C09"
KNOWN_ID = "C09-stale-single-origin-combo"
# open findings on fields typed NewType / Annotated (two-step lookup of wrapped field types), see notes section 10
KNOWN_TWICE_ID = "C09-chain-twice-through-unwrapping"
KNOWN_DEFER_ID = "C09-wrapper-defers-type-predicates"
BASE = 64
DEBUG = [DebugTrail.DISABLE, DebugTrail.FIRST, DebugTrail.ALL]
KINDS = ("plain", "first", "last", "decline", "pass")


@dataclass
class M:
    a: int
    b: int


@dataclass
class Node:  # self-referential: the cycle Node -> nxt: Optional[Node] -> Node
    a: int
    nxt: Optional[Node]


N = NewType("N", int)
ANN = Annotated[int, "m"]


@dataclass
class MW:  # the twin of M whose field types are wrapped: NewType / Annotated are documented to be transparent
    a: N
    b: Annotated[int, "m"]


NODE_LEVELS = 3  # nesting depth of the recursive probe data == how far the reference unrolls the cycle

# ----------------------------------------------------------------------------------- location stacks (pure data)
# a location is (kind, type name, extra): ("T", "int", None) | ("F", "int", "a") | ("G", "int", 0)
_FR = ForwardRef("Missing")
# types that ``normalize_type`` refuses (ValueError): they have no origin, no exact-class predicate may match them,
# no builtin provider serves them.  Generic aliases over them are unnormalisable as a whole (arguments are
# normalised eagerly), so they only occur as top-level requests.
UNNORMALISABLE = {"FR": _FR, "List[FR]": List[_FR], "bare Literal": Literal, "bare Union": Union, "object 5": 5,
                  "list['Missing']": list["Missing"]}
REQ_TYPES = {"int": int, "M": M, "List[int]": List[int], "Optional[int]": Optional[int], "None": None,
             "Node": Node, "List[Node]": List[Node], "MW": MW, **UNNORMALISABLE}
# types that only occur below a request: the recursive field and the two wrapped field types (wrapper level)
TYPE_NAME = {**{v: k for k, v in REQ_TYPES.items()}, Optional[Node]: "Optional[Node]", N: "N", ANN: "Ann"}
ORIGIN_OF_TYPE = {"int": "int", "M": "M", "List[int]": "list", "Optional[int]": "Union", "None": "None",
                  "Node": "Node", "List[Node]": "list", "Optional[Node]": "Union", "MW": "MW", "N": "N",
                  "Ann": "Annotated", **{k: "<no origin>" for k in UNNORMALISABLE}}
REQS = ("int", "M", "List[int]", "Optional[int]", "FR", "List[FR]")  # enumerated; the others: fixed + sampled
REC_REQS = ("Node", "List[Node]")  # self-referential request types (own enumeration, own log rule)
WRAPPED = {"N": "newtype", "Ann": "annotated"}  # wrapper-level type names of MW's fields
LISTS = ("List[int]", "List[Node]")


def _lt(stack):
    return stack[-1][1]


def _is_field(stack, *ids):
    return stack[-1][0] == "F" and stack[-1][2] in ids


def _in_m_a(stack):
    return len(stack) >= 2 and _is_field(stack, "a") and stack[-2][1] == "M"


def _field_of(stack, owner, fid):
    return len(stack) >= 2 and _is_field(stack, fid) and stack[-2][1] == owner


# name -> (factory of the adaptix predicate, exact origin name or None, reference predicate on a stack)
# The reference column encodes docs/loading-and-dumping/tutorial.rst "Predicate system": a class matches the same
# type (a bare generic class: every parametrisation), an abstract class matches subclasses, an identifier string
# matches the equal field id, another string is a regex on the field id, P[A].f matches field f located in A,
# P[A, B] is "A or B", ~ negates, P.ANY matches everything.
# The middle column (is it an exact-origin checker, i.e. groupable by the router?) is implementation knowledge used
# only for labels, the known-defect model and generator shaping -- never by the oracle.
PREDS = {
    "int": (lambda: int, "int", lambda s: _lt(s) == "int"),
    "str": (lambda: str, "str", lambda s: False),
    "bool": (lambda: bool, "bool", lambda s: False),
    "None": (lambda: None, "None", lambda s: _lt(s) == "None"),
    "M": (lambda: M, "M", lambda s: _lt(s) == "M"),
    "Node": (lambda: Node, "Node", lambda s: _lt(s) == "Node"),
    "MW": (lambda: MW, "MW", lambda s: _lt(s) == "MW"),
    "list": (lambda: list, "list", lambda s: _lt(s) in LISTS),
    "P[int]": (lambda: P[int], "int", lambda s: _lt(s) == "int"),
    "List[int]": (lambda: List[int], None, lambda s: _lt(s) == "List[int]"),
    "Optional[int]": (lambda: Optional[int], None, lambda s: _lt(s) == "Optional[int]"),
    "Integral": (lambda: numbers.Integral, None, lambda s: _lt(s) == "int"),
    "Sequence": (lambda: collections.abc.Sequence, None, lambda s: _lt(s) in LISTS),
    "Optional[Node]": (lambda: Optional[Node], None, lambda s: _lt(s) == "Optional[Node]"),
    "a": (lambda: "a", None, lambda s: _is_field(s, "a")),
    "b": (lambda: "b", None, lambda s: _is_field(s, "b")),
    "nxt": (lambda: "nxt", None, lambda s: _is_field(s, "nxt")),
    "P[Node].nxt": (lambda: P[Node].nxt, None, lambda s: _field_of(s, "Node", "nxt")),
    "P[Node].a": (lambda: P[Node].a, None, lambda s: _field_of(s, "Node", "a")),
    "P[MW].a": (lambda: P[MW].a, None, lambda s: _field_of(s, "MW", "a")),
    "[ab]": (lambda: "[ab]", None, lambda s: _is_field(s, "a", "b")),
    "P[M].a": (lambda: P[M].a, None, _in_m_a),
    "~P[M].a": (lambda: ~P[M].a, None, lambda s: not _in_m_a(s)),
    "P[M][int]": (lambda: P[M][int], None, lambda s: len(s) >= 2 and _lt(s) == "int" and s[-2][1] == "M"),
    "P[List[int]][int]": (lambda: P[List[int]][int], None,
                          lambda s: len(s) >= 2 and _lt(s) == "int" and s[-2][1] == "List[int]"),
    "P.ANY": (lambda: P.ANY, None, lambda s: True),
    "P[int,str]": (lambda: P[int, str], None, lambda s: _lt(s) == "int"),
    "~P[int]": (lambda: ~P[int], None, lambda s: _lt(s) != "int"),
    "and(int,ANY)": (None, None, lambda s: _lt(s) == "int"),  # bound(int, loader(P.ANY, f))
    "BARE": (None, None, lambda s: True),  # a retort placed in a recipe without bound()
}
EXACT_PREDS = tuple(n for n, v in PREDS.items() if v[1] is not None)
NONEXACT_PREDS = tuple(n for n, v in PREDS.items() if v[1] is None and n != "BARE")
# predicates that match at least one location reached from a request (top level or sub-request)
RELEVANT = {
    "int": ("int", "P[int]", "Integral", "P.ANY", "~P[M].a", "P[int,str]", "and(int,ANY)"),
    "M": ("M", "a", "b", "[ab]", "P[M].a", "~P[M].a", "P.ANY", "int", "P[int]", "Integral", "P[M][int]", "~P[int]",
          "P[int,str]", "and(int,ANY)"),
    "List[int]": ("list", "List[int]", "Sequence", "P.ANY", "~P[M].a", "int", "P[int]", "P[List[int]][int]",
                  "~P[int]", "Integral"),
    "Optional[int]": ("Optional[int]", "P.ANY", "~P[M].a", "int", "P[int]", "Integral", "~P[int]", "P[int,str]"),
    "None": ("None", "P.ANY", "~P[M].a", "~P[int]"),
    # every predicate below looks at the last two locations only, so it gives the same verdict at every nesting level
    # of the cycle: the unrolled reading ("each location is resolved by first match") and adaptix's reading (the inner
    # request is answered by the request in progress) cannot differ
    "Node": ("Node", "nxt", "P[Node].nxt", "Optional[Node]", "a", "P[Node].a", "[ab]", "int", "P[int]", "Integral",
             "P.ANY", "~P[M].a", "~P[int]", "P[int,str]", "and(int,ANY)"),
    "List[Node]": ("Node", "nxt", "P[Node].nxt", "Optional[Node]", "a", "P[Node].a", "int", "P[int]", "Integral",
                   "P.ANY", "~P[M].a", "~P[int]", "list", "Sequence"),
    "MW": ("MW", "a", "b", "[ab]", "P[MW].a", "P.ANY", "~P[M].a", "int", "P[int]", "Integral", "P[int,str]",
           "and(int,ANY)"),
    # exact-class predicates never match these; None / str / int are listed so that None-keyed tables are built
    **{k: ("None", "str", "int", "P.ANY", "~P[M].a", "~P[int]") for k in UNNORMALISABLE},
}
# the first builtin LoaderRequest / DumperRequest providers of FilledRetort are exact-origin ones (None, Any, object,
# datetime, date, time, timedelta) followed by a non-exact one (flag_by_exact_value): a trailing run of exact
# user entries is merged with them.  Used by the defect model and the grouping labels only.
BUILTIN_HEAD = ("None", "Any", "object", "datetime", "date", "time", "timedelta")
# On a wrapped field the docs make the wrapper transparent ("All NewType's are treated as origin types", "Annotated
# ... processed the same as wrapped types"); what a NEGATED type predicate means there is not stated (does ~P[int]
# hold for NewType('N', int)?) -> cases that put it on the request MW are unspecified (counted, not evaluated)
UNSPEC_ON_WRAPPED = ("~P[int]",)
# classes of predicates for the discriminators of the wrapped-field findings
PRED_CLASS = {"a": "field_id", "b": "field_id", "nxt": "field_id", "[ab]": "regex", "P[MW].a": "pattern",
              "P[M].a": "pattern", "P[Node].nxt": "pattern", "P[Node].a": "pattern", "P.ANY": "always_true",
              "~P[M].a": "always_true", "BARE": "always_true",
              "int": "type", "P[int]": "type", "Integral": "type", "P[int,str]": "type", "and(int,ANY)": "type"}


# ----------------------------------------------------------------------------------- markers
def mark(tag: int, x):
    """f_tag: append digit ``tag`` (base 64) to every int leaf; strings and None are left alone."""
    if type(x) is int:
        return x * BASE + tag
    if x is None or isinstance(x, str):
        return x
    if isinstance(x, list):
        return [mark(tag, e) for e in x]
    if isinstance(x, dict):
        return {k: mark(tag, v) for k, v in x.items()}
    if isinstance(x, (M, MW)):
        return type(x)(mark(tag, x.a), mark(tag, x.b))
    if isinstance(x, Node):
        return Node(mark(tag, x.a), mark(tag, x.nxt))
    raise env.HarnessError(f"marker applied to unexpected datum {x!r}")


def digits(v):
    """Readable form of a marked value (entry indices, first applied first)."""
    if type(v) is int:
        out = []
        while v > 0:
            out.append(v % BASE - 1)
            v //= BASE
        return out[::-1]
    if isinstance(v, list):
        return [digits(e) for e in v]
    if isinstance(v, dict):
        return {k: digits(e) for k, e in v.items()}
    if isinstance(v, (M, MW)):
        return {f"{type(v).__name__}.a": digits(v.a), f"{type(v).__name__}.b": digits(v.b)}
    if isinstance(v, Node):
        return {"Node.a": digits(v.a), "Node.nxt": digits(v.nxt)}
    return repr(v)


# ----------------------------------------------------------------------------------- plan (numbered entries)
class Ent:
    __slots__ = ("idx", "inner", "kind", "pred", "raw")

    def __init__(self, idx, pred, kind, inner=None, raw=None):
        self.idx, self.pred, self.kind, self.inner, self.raw = idx, pred, kind, inner, raw

    def __repr__(self):
        return f"#{self.idx}:{self.pred}/{self.kind}"


class RCtx:
    """One retort of the reference world: a flattened recipe and its scalar options."""
    __slots__ = ("buggy", "debug", "seq", "strict")

    def __init__(self, seq, strict, debug):
        self.seq, self.strict, self.debug = seq, strict, debug
        self.buggy = None


class Plan:
    def __init__(self, case):
        self._n = itertools.count()
        self.instance = self._ents(case.get("recipe", []))
        self.ops = []
        for op in case.get("ops", []):
            if "extend" in op:
                self.ops.append(("extend", self._ents(op["extend"])))
            else:
                self.ops.append(("replace", op["replace"]))
        cls = case.get("cls")
        self.cls_shape = cls["shape"] if cls else None
        self.cls_levels = [self._ents(lv) for lv in cls["levels"]] if cls else []
        # "derived": retort A (recipe, cls, options) is placed in a recipe / used FIRST, then B = A.extend()/replace()
        # (the ops) is placed in another recipe (or used directly): B must serve from its own recipe and options
        self.derived = case.get("derived")
        if self.derived is not None:
            d = self.derived
            if d.get("pre") not in ("none", "place", "nest_use", "direct_use") or \
                    (d.get("wrap") != "DIRECT" and d.get("wrap") not in PREDS):
                raise env.HarnessError(f"malformed derived spec {d!r}")
            self.w_pre, self.w_fin = next(self._n), next(self._n)  # entry numbers of the two holders' retort entries
        self.n_entries = next(self._n)
        if self.n_entries >= BASE - 1:
            raise env.HarnessError("too many entries for the marker base")
        self.strict0, self.debug0 = case.get("strict", True), case.get("debug", 2)

    def _ents(self, raw):
        out = []
        for r in raw:
            pred, kind = r[0], r[1]
            if pred not in PREDS or (kind != "retort" and (kind not in KINDS or pred == "BARE")):
                raise env.HarnessError(f"malformed entry {r!r}")
            idx = next(self._n)
            inner = None
            if kind == "retort":
                spec = r[2]
                inner = RCtx(self._ents(spec.get("recipe", [])), spec.get("strict", True), spec.get("debug", 2))
            out.append(Ent(idx, pred, kind, inner, r))
        return out

    def reference_ctx(self) -> RCtx:
        """The retort that finally serves the request: the derived retort, nested in its holder for ``derived``."""
        own = self.own_ctx()
        d = self.derived
        if d is None or d["wrap"] == "DIRECT":
            return own
        return self._holder(self.w_fin, d["wrap"], own)

    def pre_ctx(self) -> Optional[RCtx]:
        """``derived``: the retort used BEFORE the derivation (the original one, directly or nested in a holder)."""
        d = self.derived
        if d is None or d["pre"] in ("none", "place"):
            return None
        base = self.own_ctx(with_ops=False)
        return base if d["pre"] == "direct_use" else self._holder(self.w_pre, self.pre_wrap(), base)

    def pre_wrap(self):
        return "BARE" if self.derived["wrap"] == "DIRECT" else self.derived["wrap"]

    def _holder(self, idx, wrap, inner: RCtx) -> RCtx:
        d = self.derived
        return RCtx([Ent(idx, wrap, "retort", inner, [wrap, "retort", {}])], d.get("strict", True), d.get("debug", 2))

    def own_ctx(self, with_ops=True) -> RCtx:
        """Flatten: extend() prepends; replace() only changes scalar options; then class recipes in MRO order."""
        seq = list(self.instance)
        strict, debug = self.strict0, self.debug0
        for op, arg in (self.ops if with_ops else ()):
            if op == "extend":
                seq = list(arg) + seq
            else:
                if arg.get("strict") is not None:
                    strict = arg["strict"]
                if arg.get("debug") is not None:
                    debug = arg["debug"]
        for lv in self.cls_levels:  # levels are stored most-derived first == MRO order for both shapes
            seq.extend(lv)
        return RCtx(seq, strict, debug)

    def all_ctx(self, top):
        out, todo = [], [top]
        while todo:
            c = todo.pop()
            out.append(c)
            todo.extend(e.inner for e in c.seq if e.inner is not None)
        return out


def exact_origin(e: Ent):
    return PREDS[e.pred][1]


# ----------------------------------------------------------------------------------- reference interpreter
class RefLoadError(Exception):
    def __init__(self, aggregate):
        super().__init__()
        self.aggregate = aggregate  # True / False / None (not asserted)


class RefNotFound(Exception):
    """No provider can serve the request: the facade must raise ProviderNotFoundError."""


class RefUnspecified(Exception):
    """Outcome not fixed by the property statement / docs (a retort placed in a recipe cannot serve the request:
    whether the outer recipe goes on behind it depends on the undocumented terminal / non-terminal flag)."""


class Ref:
    """Linear chain-of-responsibility.  ``defect`` routes through the transcription of a known defect:
    ``"stale"`` (the router's stale one-element table) or ``"unwrap"`` (the two-step lookup of wrapped field types:
    a field typed NewType / Annotated is searched at the wrapper level, where no ``int`` predicate matches, and the
    builtin unwrapping provider then searches again from offset 0 for the inner type at the same field location).
    The reference itself resolves every field location ONCE and treats the wrappers as transparent.

    A request nobody can serve: ``resolve`` raises RefNotFound.  A chaining / delegating entry whose rest of the
    recipe fails counts as declining; scanning on from the same offset fails in the same way, so the outcome is
    RefNotFound as well (only the consultation log is not exact on that path: ``self.failed``).

    Self-referential models: the location tree is infinite; it is unrolled as deep as the probe data goes
    (NODE_LEVELS levels of Node, below that a ``cut`` node that must never be run)."""

    def __init__(self, direction: str, defect=None):
        self.direction = direction
        self.defect = defect
        self.log: list = []  # (stack, idx) in consultation order
        self.failed: set = set()  # stacks whose resolution ran into "nothing can serve this"
        self.enter = [0]  # stack index at which the retort currently searched was entered
        # a nested retort was entered BELOW the first occurrence of a location that repeats further down: the cycle's
        # first request was not sent inside it (that left a never-bound recursion stub until 56bd981; label +
        # regression signature only)
        self.entered_inside_cycle = False

    def _items(self, ctx: RCtx):
        if self.defect != "stale":
            return ctx.seq
        if ctx.buggy is None:
            ctx.buggy = stale_combo_items(ctx.seq)
        return ctx.buggy

    def resolve(self, ctx: RCtx, stack, offset: int = 0):  # noqa: C901, PLR0911, PLR0912
        if offset == 0 and stack[-1] in stack[:-1] and stack.index(stack[-1]) < self.enter[-1]:
            self.entered_inside_cycle = True
        items = self._items(ctx)
        for pos in range(offset, len(items)):
            e = items[pos]
            if type(e) is dict:  # only in the defect model
                e = e.get(ORIGIN_OF_TYPE[_lt(stack)])
                if e is None:
                    continue
            elif not PREDS[e.pred][2](stack):
                continue
            self.log.append((stack, e.idx))
            k = e.kind
            if k == "decline":
                continue
            if k == "pass":
                return self.resolve(ctx, stack, pos + 1)
            if k == "plain":
                return ("plain", e.idx)
            if k == "first":
                return ("first", e.idx, self.resolve(ctx, stack, pos + 1))
            if k == "last":
                return ("last", e.idx, self.resolve(ctx, stack, pos + 1))
            if k == "retort":
                self.enter.append(len(stack) - 1)
                try:
                    return self.resolve(e.inner, stack, 0)
                except RefNotFound:
                    raise RefUnspecified from None
                finally:
                    self.enter.pop()
            raise env.HarnessError(k)
        return self.builtin(ctx, stack)

    def _field(self, ctx, stack, tname, fid):
        return self.resolve(ctx, (*stack, ("F", tname, fid)))

    def builtin(self, ctx: RCtx, stack):  # noqa: PLR0911
        t = _lt(stack)
        if t in UNNORMALISABLE:  # no origin, no builtin provider: nothing is left to serve it
            self.failed.add(stack)
            raise RefNotFound
        if t == "None":
            return ("b_none",)
        if t == "int":
            return ("b_int", ctx.strict)
        if t == "M":
            return ("b_M", ctx.debug, self._field(ctx, stack, "int", "a"), self._field(ctx, stack, "int", "b"), "M")
        if t == "MW":  # reference: the field location is resolved once, its type reads as the wrapped type
            ta, tb = ("N", "Ann") if self.defect == "unwrap" else ("int", "int")
            return ("b_M", ctx.debug, self._field(ctx, stack, ta, "a"), self._field(ctx, stack, tb, "b"), "MW")
        if t in WRAPPED:  # only in the defect model: the unwrapping provider sends the request again from offset 0
            return ("unwrap", self.resolve(ctx, (*stack[:-1], (stack[-1][0], "int", stack[-1][2]))))
        if t == "Node":
            return ("b_Node", ctx.debug, self._field(ctx, stack, "int", "a"),
                    self._field(ctx, stack, "Optional[Node]", "nxt"))
        if t == "Optional[Node]":
            if sum(loc[1] == "Node" for loc in stack) >= NODE_LEVELS:
                return ("b_opt", ("cut",))  # the probe data end here (None)
            return ("b_opt", self.resolve(ctx, (*stack, ("G", "Node", 0))))
        if t in ("List[int]", "Optional[int]"):
            return ("b_list" if t == "List[int]" else "b_opt", self.resolve(ctx, (*stack, ("G", "int", 0))))
        if t == "List[Node]":
            return ("b_list", self.resolve(ctx, (*stack, ("G", "Node", 0))))
        raise env.HarnessError(t)

    # -- evaluation of a resolved tree on a datum
    def run(self, node, x):  # noqa: C901, PLR0911, PLR0912
        tag = node[0]
        if tag == "plain":
            return mark(node[1] + 1, x)
        if tag == "first":
            return self.run(node[2], mark(node[1] + 1, x))
        if tag == "last":
            return mark(node[1] + 1, self.run(node[2], x))
        if tag == "unwrap":
            return self.run(node[1], x)
        if tag == "cut":
            raise env.HarnessError(f"probe datum {x!r} goes deeper than the reference unrolls the cycle")
        load = self.direction == "load"
        if tag == "b_none":
            if x is not None:
                raise env.HarnessError(f"reference None loader/dumper got {x!r}")
            return None
        if tag == "b_int":
            if not load:
                return x
            if type(x) is int:
                return x
            if node[1] or not isinstance(x, str):
                raise RefLoadError(None)  # strict_coercion: only int passes
            return int(x)
        if tag == "b_M":
            cls = M if node[4] == "M" else MW
            if load:
                if not isinstance(x, dict):
                    raise env.HarnessError(f"reference model loader got {x!r}")
                if "a" not in x or "b" not in x:
                    raise RefLoadError(node[1] == 2)  # DebugTrail.ALL collects into AggregateLoadError
                return cls(self.run(node[2], x["a"]), self.run(node[3], x["b"]))
            if type(x) is not cls:
                raise env.HarnessError(f"reference model dumper got {x!r}")
            return {"a": self.run(node[2], x.a), "b": self.run(node[3], x.b)}
        if tag == "b_Node":
            if load:
                if not isinstance(x, dict):
                    raise env.HarnessError(f"reference model loader got {x!r}")
                if "a" not in x or "nxt" not in x:
                    raise RefLoadError(node[1] == 2 if x == {} else None)
                return Node(self.run(node[2], x["a"]), self.run(node[3], x["nxt"]))
            if type(x) is not Node:
                raise env.HarnessError(f"reference model dumper got {x!r}")
            return {"a": self.run(node[2], x.a), "nxt": self.run(node[3], x.nxt)}
        if tag == "b_list":
            return [self.run(node[1], e) for e in x]
        if tag == "b_opt":
            return None if x is None else self.run(node[1], x)
        raise env.HarnessError(tag)


def strip_unwrap(node):
    """The composed function of a defect-model tree with the (transparent) unwrap steps removed."""
    if not isinstance(node, tuple):
        return node
    if node and node[0] == "unwrap":
        return strip_unwrap(node[1])
    return tuple(strip_unwrap(x) for x in node)


def canon_stack(stack):
    """The location of a wrapper-level stack in the reference's world (wrappers are transparent)."""
    if stack[-1][1] in WRAPPED:
        return (*stack[:-1], (stack[-1][0], "int", stack[-1][2]))
    return stack


def canon_ref_log(log):
    """defect-model log -> {location: one sequence}: wrapper-level consultations followed by inner-type ones."""
    out: dict = {}
    for stack, idx in log:
        out.setdefault(canon_stack(stack), []).append(idx)
    return out


def canon_got_log(got):
    """real {stack: [sequence per send]} -> the same keyed by location: the sends for the wrapper level and for the
    inner type of ONE field location are one resolution of that location (the reference resolves it once), so the
    two sequences are concatenated.  (If either was sent more than once they are kept as separate sends.)"""
    if got is None or not any(st_[-1][1] in WRAPPED for st_ in got):
        return got
    out: dict = {}
    for stack in sorted(got, key=lambda st_: st_[-1][1] not in WRAPPED):  # wrapper-level stacks first
        sends, loc = got[stack], canon_stack(stack)
        if loc in out and len(out[loc]) == 1 and len(sends) == 1:
            out[loc] = [out[loc][0] + sends[0]]
        else:
            out.setdefault(loc, []).extend(list(g) for g in sends)
    return out


def unwrap_class(plan, ref_tree, ref_log, bug_tree, bug_log, by_idx):
    """How the defect model of the two-step lookup differs from the reference on a case (pure data) ->
    None | ("twice", discr) | ("deferred", discr) | ("other", discr)."""
    bug_canon = canon_ref_log(bug_log)
    if strip_unwrap(bug_tree) == ref_tree and bug_canon == ref_log:
        return None
    # the first field location (in resolution order) whose consultation sequence differs
    for stack, seq in bug_canon.items():
        exp = ref_log.get(stack, [])
        if seq == exp:
            continue
        wrapper = {"a": "newtype", "b": "annotated"}.get(stack[-1][2], "?") \
            if len(stack) >= 2 and stack[-2][1] == "MW" else "?"
        twice = [i for i in seq if seq.count(i) >= 2 and seq.count(i) > exp.count(i)]
        if twice:
            e = by_idx[twice[0]]
            return "twice", ("wrapped_field", wrapper, PRED_CLASS.get(e.pred, "other"), e.kind)
        # nobody twice: the wrapper level served / chained with entries that do not depend on the type while the
        # entries for the inner type were not visible yet
        classes = {PRED_CLASS.get(by_idx[i].pred, "other") for i in set(seq) | set(exp)}
        has_type = "type" in classes
        has_loc = bool(classes & {"field_id", "regex", "pattern", "always_true"})
        return "deferred", ("wrapped_field", wrapper,
                            "type_entry+location_entry" if has_type and has_loc and "other" not in classes else "other")
    return "other", ("wrapped_field", "?", "other")


def stale_combo_items(seq):
    """Known defect: ExactOriginCombiner._stop_combo emits a ONE-element table as a plain item but does not clear
    it, so the entry stays in the pending table and is emitted again with the next table."""
    items, combo = [], {}

    def stop(extra):
        nonlocal combo
        if combo:
            if len(combo) == 1:
                items.append(next(iter(combo.values())))  # <- not cleared
            else:
                items.append(dict(combo))
                combo = {}
        if extra is not None:
            items.append(extra)

    for e in seq:
        o = exact_origin(e)
        if o is None:
            stop(e)
        elif o in combo:
            stop(e)
        else:
            combo[o] = e
    for o in BUILTIN_HEAD:
        if o in combo:  # a user entry keyed None in the trailing run: the builtin None provider repeats the class
            stop(None)
        else:
            combo[o] = None
    stop(None)
    return items


def grouping_features(seq):
    """How the recipe exercises the router's table building (simulation of the *intended* combiner)."""
    feats, run, groups = set(), {}, 0

    def close(trailing=False):
        nonlocal run, groups
        if run:
            if any(exact_origin(x) == "None" for x in run.values()):
                feats.add("grp:table_with_None_key" if len(run) >= 2 else "grp:lone_None_key")
            if trailing and "None" not in run:
                feats.add("grp:trailing_merged_with_builtin")
            elif len(run) == 1:
                feats.add("grp:lone_exact")
            else:
                feats.add("grp:table>=2")
                if len(run) >= 3:
                    feats.add("grp:table>=3")
            groups += 1
        run = {}

    for e in seq:
        o = exact_origin(e)
        if o is None:
            close()
        elif o in run:
            feats.add("grp:repeated_origin")
            close()
        else:
            run[o] = e
    close(trailing=True)
    if groups >= 2:
        feats.add("grp:several_groups")
    if not feats:
        feats.add("grp:none")
    return feats


# ----------------------------------------------------------------------------------- real objects
class Wrapped(Provider):
    """Public-API wrapper (same shape as adaptix's own ChainingProvider): keeps request class and checker of the
    wrapped provider, records the consultation, then declines / passes through / calls the wrapped handler."""

    def __init__(self, inner, idx, mode, log, req_name):
        self._inner, self._idx, self._mode, self._log, self._req_name = inner, idx, mode, log, req_name

    def get_request_handlers(self):
        return [(rc, checker, self._wrap(handler)) for rc, checker, handler in self._inner.get_request_handlers()]

    def _wrap(self, handler):
        idx, mode, log, req_name = self._idx, self._mode, self._log, self._req_name

        def wrapped_handler(mediator, request):
            if type(request).__name__ != req_name:
                return handler(mediator, request)
            if log is not None:
                log.append((request, idx))  # the Request object identifies one send (kept alive by the log)
            if mode == "decline":
                raise CannotProvide(f"entry {idx} declines")
            if mode == "pass":
                return mediator.provide_from_next()
            return handler(mediator, request)

        return wrapped_handler


def stack_key(loc_stack):
    out = []
    for loc in loc_stack:
        tname = TYPE_NAME.get(loc.type, None) or repr(loc.type)
        if hasattr(loc, "field_id"):
            out.append(("F", tname, loc.field_id))
        elif hasattr(loc, "generic_pos"):
            out.append(("G", tname, loc.generic_pos))
        else:
            out.append(("T", tname, None))
    return tuple(out)


_cls_counter = itertools.count()


class Builder:
    def __init__(self, direction, logged):
        self.direction = direction
        self.logged = logged
        self.log: list = []
        self.mk = loader if direction == "load" else dumper
        self.req_name = "LoaderRequest" if direction == "load" else "DumperRequest"

    def provider(self, e: Ent):
        log = self.log if self.logged else None
        if e.kind == "retort":
            inner = Retort(recipe=[self.provider(x) for x in e.inner.seq], strict_coercion=e.inner.strict,
                           debug_trail=DEBUG[e.inner.debug])
            if e.pred == "BARE":
                p = inner
            elif e.pred == "and(int,ANY)":
                p = bound(int, bound(P.ANY, inner))
            else:
                p = bound(PREDS[e.pred][0](), inner)
            return Wrapped(p, e.idx, "call", log, self.req_name) if self.logged else p
        tag = e.idx + 1

        def func(x, _tag=tag):
            return mark(_tag, x)
        chain = {"first": Chain.FIRST, "last": Chain.LAST}.get(e.kind)
        if e.pred == "and(int,ANY)":
            p = bound(int, self.mk(P.ANY, func, chain))
        else:
            p = self.mk(PREDS[e.pred][0](), func, chain)
        mode = e.kind if e.kind in ("decline", "pass") else "call"
        if self.logged or mode != "call":
            return Wrapped(p, e.idx, mode, log, self.req_name)
        return p

    def retort(self, plan: Plan):
        return self.apply_ops(self.base_retort(plan), plan)

    def holder(self, plan: Plan, idx, wrap, inner):
        """A fresh retort whose only recipe entry is ``inner`` (bare or bound), with the holder's own options."""
        if wrap == "BARE":
            p = inner
        elif wrap == "and(int,ANY)":
            p = bound(int, bound(P.ANY, inner))
        else:
            p = bound(PREDS[wrap][0](), inner)
        if self.logged:
            p = Wrapped(p, idx, "call", self.log, self.req_name)
        d = plan.derived
        return Retort(recipe=[p], strict_coercion=d.get("strict", True), debug_trail=DEBUG[d.get("debug", 2)])

    def base_retort(self, plan: Plan):
        cls = Retort
        if plan.cls_shape == "chain":
            for lv in reversed(plan.cls_levels):  # least derived first
                cls = type(cls)(f"C09Retort{next(_cls_counter)}", (cls,), {"recipe": [self.provider(e) for e in lv]})
        elif plan.cls_shape == "diamond":
            top, left, right = plan.cls_levels
            a = type(Retort)(f"C09Retort{next(_cls_counter)}", (Retort,), {"recipe": [self.provider(e) for e in left]})
            b = type(Retort)(f"C09Retort{next(_cls_counter)}", (Retort,), {"recipe": [self.provider(e) for e in right]})
            cls = type(Retort)(f"C09Retort{next(_cls_counter)}", (a, b), {"recipe": [self.provider(e) for e in top]})
        return cls(recipe=[self.provider(e) for e in plan.instance], strict_coercion=plan.strict0,
                   debug_trail=DEBUG[plan.debug0])

    def apply_ops(self, r, plan: Plan):
        for op, arg in plan.ops:
            if op == "extend":
                r = r.extend(recipe=[self.provider(e) for e in arg])
            else:
                kw = {}
                if arg.get("strict") is not None:
                    kw["strict_coercion"] = arg["strict"]
                if arg.get("debug") is not None:
                    kw["debug_trail"] = DEBUG[arg["debug"]]
                r = r.replace(**kw)
        return r


# ----------------------------------------------------------------------------------- probe data
def node_datum(direction, levels=NODE_LEVELS):
    x = None
    for _ in range(levels):
        x = {"a": 0, "nxt": x} if direction == "load" else Node(0, x)
    return x


def main_datum(req, direction):
    if req in ("M", "MW"):
        return {"a": 0, "b": 0} if direction == "load" else REQ_TYPES[req](0, 0)
    if req == "Node":
        return node_datum(direction)
    if req == "List[Node]":
        return [node_datum(direction), node_datum(direction, 1)]
    if req == "None":
        return None
    if req in UNNORMALISABLE:  # only a matching user entry can serve it; the markers work on the int
        return 0
    return {"int": 0, "List[int]": [0, 0], "Optional[int]": 0}[req]


def option_data(req):
    """Load-only data whose outcome depends on the options of the retort whose builtin provider serves it."""
    out = {"int": ["5"], "M": [{"a": "5", "b": 0}, {}], "List[int]": [["5", 0]], "Optional[int]": ["5"],
           "MW": [{"a": "5", "b": 0}, {"a": 0, "b": "5"}, {}],
           # strictness of the retort that serves the int leaf of the first / of the innermost node (the latter is
           # reached through the recursion), missing fields at the top
           "Node": [{"a": "5", "nxt": None}, {"a": 0, "nxt": {"a": 0, "nxt": {"a": "5", "nxt": None}}}, {}],
           "List[Node]": [[{"a": 0, "nxt": {"a": "5", "nxt": None}}]]}
    return out.get(req, [])


def per_stack(log):
    """reference log -> {stack: consultation sequence} (the reference resolves every location once)"""
    out: dict = {}
    for stack, idx in log:
        out.setdefault(stack, []).append(idx)
    return out


def per_send(log):
    """real log -> {stack: [consultation sequence of send 1, of send 2, ...]}; one send == one Request object
    (every ``request.append_loc(...)`` / facade call creates a new one; chaining and nested retorts pass it on)."""
    sends: dict = {}
    for request, idx in log:
        ent = sends.get(id(request))
        if ent is None:
            ent = sends[id(request)] = (stack_key(request.loc_stack), [])
        ent[1].append(idx)
    out: dict = {}
    for stack, seq in sends.values():
        out.setdefault(stack, []).append(seq)
    return out


def fmt_stack(stack):
    return ">".join(t if k == "T" else f"{x}:{t}" for k, t, x in stack)


def fmt_log(d):
    return {fmt_stack(s): (v[0] if len(v) == 1 and isinstance(v[0], list) else v) for s, v in sorted(d.items())}


def same_value(a, b):
    return type(a) is type(b) and a == b


# ----------------------------------------------------------------------------------- the oracle
def reference(top: RCtx, direction, req, defect=None):
    """-> (kind, tree, Ref); kind: 'value' (tree is the composed function) | 'not_found' | 'unspecified'"""
    ref = Ref(direction, defect)
    try:
        return "value", ref.resolve(top, (("T", req, None),)), ref
    except RefNotFound:
        return "not_found", None, ref
    except RefUnspecified:
        return "unspecified", None, ref


def optional_stacks(req, ref_log):
    """Self-referential requests: a location whose stack holds some type twice lies at or below the point where the
    cycle comes round.  Whether adaptix sends a request of its own for it or answers it by the request already in
    progress (recursion stub, nobody is consulted again) is not specified -> such a location MAY be absent from the
    real log; when a request for it was sent it must show the reference's sequence like any other."""
    if req not in REC_REQS:
        return frozenset()
    return frozenset(s for s in ref_log if len({loc[1] for loc in s}) < len(s))


def prepare_got(req, got_log):
    """Real log -> the reference's location space: wrapper-level and inner-type sends of one wrapped field are one
    resolution; sends below the depth the reference unrolls a cycle to are dropped (-> number dropped)."""
    if got_log is None:
        return None, 0
    if req == "MW":
        return canon_got_log(got_log), 0
    if req in REC_REQS:
        deep = [s for s in got_log if sum(loc[1] == "Node" for loc in s) > NODE_LEVELS]
        if deep:
            return {s: v for s, v in got_log.items() if s not in deep}, len(deep)
    return got_log, 0


def compare(kind, tree, ref: Ref, by_idx, status, got, got_log, logged, datum, optional=frozenset()):  # noqa: PLR0911
    """Verdict of the main oracle -> (agrees, primary difference or None, a sub-request was sent more than once)."""
    def matches(stack, idx):
        return PREDS[by_idx[idx].pred][2](stack)
    ref_log = per_stack(ref.log)
    if kind == "unspecified":  # only: nobody is consulted for a location its predicate does not match
        if logged and any(not matches(st_, i) for st_, sends in got_log.items() for g in sends for i in g):
            return False, "consulted_entry_that_must_not_be", False
        return True, None, False
    if kind == "not_found":
        if status != "not_found":
            return False, "served_a_request_no_matching_provider_can_serve", False
    elif status == "not_found":
        return False, "provider_not_found_although_a_matching_provider_serves", False
    elif not same_value(got, ref.run(tree, datum)):
        if logged and not _cmp_logs(got_log, ref_log, ref.failed, matches, optional)[0]:
            return False, _log_diff(got_log, ref_log, optional), False
        return False, "value_only", False
    if not logged:
        return True, None, False
    ok, rep = _cmp_logs(got_log, ref_log, ref.failed, matches, optional)
    return ok, (None if ok else _log_diff(got_log, ref_log, optional)), rep


# ------------------------------------------------------------------------------------ validator(): a chained loader in disguise
def validator_cases():
    for chain in ("default", "first", "last"):
        for target in ("int", "field", "list_item"):
            for ok in (True, False):
                yield {"validator": True, "chain": chain, "target": target, "passes": ok}


def check_validator(ctx: runner.Ctx, case):
    """validator(pred, func, error, chain) is documented as a loader chained with ``chain`` (default Chain.LAST): under FIRST the
    check sees the raw datum before the next loader, under LAST the next loader's result."""
    import dataclasses as dc  # noqa: PLC0415

    import adaptix  # noqa: PLC0415
    log = []
    holder = dc.make_dataclass("VHolder", [("v", int), ("items", typing.List[int])])

    def check(x):
        log.append(("validator", x))
        return case["passes"]

    def plus100(x):
        log.append(("loader", x))
        return x + 100
    pred = {"int": int, "field": adaptix.P[holder].v, "list_item": adaptix.P[holder].items[int]}[case["target"]]
    kw = {} if case["chain"] == "default" else {"chain": adaptix.Chain.FIRST if case["chain"] == "first" else adaptix.Chain.LAST}
    retort = adaptix.Retort(recipe=[adaptix.validator(pred, check, "rejected by the validator", **kw),
                                    adaptix.loader(pred, plus100)])
    ctx.case(["validator", case], True, sample=case, labels=["part:validator_chain", f"validator_chain:{case['chain']}"])
    datum = 5
    try:
        if case["target"] == "int":
            got = ("ok", retort.load(datum, int))
        else:
            obj = retort.load({"v": datum, "items": [datum]}, holder)
            got = ("ok", obj.v if case["target"] == "field" else obj.items[0])
    except LoadError:
        got = ("load_error",)
    first = case["chain"] == "first"
    exp_log = [("validator", 5), ("loader", 5)] if first else [("loader", 5), ("validator", 105)]
    if not case["passes"]:
        exp_log = exp_log[:1] if first else exp_log
    exp = ("ok", 105) if case["passes"] else ("load_error",)
    mine = [e for e in log if e[1] in (5, 105)]
    # the untargeted positions of the holder go through no validator; only the targeted datum is logged by construction
    if got != exp or mine != exp_log:
        ctx.violation("validator_chain", (case["chain"], case["target"]), case,
                      f"validator(.., chain={case['chain']}) before loader(.., +100) on {case['target']}: result {got!r} (expected "
                      f"{exp!r}), calls {mine!r} (expected {exp_log!r})")


def check_case(ctx: runner.Ctx, case):  # noqa: C901, PLR0911, PLR0912, PLR0915
    if case.get("validator"):
        return check_validator(ctx, case)
    direction, req, logged = case["dir"], case["req"], case.get("logged", True)
    plan = Plan(case)
    top = plan.reference_ctx()
    pre_top = plan.pre_ctx()
    stack0 = (("T", req, None),)
    ctxs = plan.all_ctx(top)
    by_idx = {e.idx: e for c in ctxs for e in c.seq}
    if pre_top is not None:
        by_idx.update({e.idx: e for c in plan.all_ctx(pre_top) for e in c.seq})
    if req == "MW":
        if plan.derived is not None:
            raise env.HarnessError("derived cases are not generated for the request MW")
        if any(e.pred in UNSPEC_ON_WRAPPED for e in by_idx.values()):
            ctx.count("unspecified_negated_type_predicate_on_a_wrapped_field")
            return

    kind, tree, ref = reference(top, direction, req)
    ref_log = per_stack(ref.log)
    optional = optional_stacks(req, ref_log)
    affected, uclass = False, None
    if req == "MW":  # transcription of the two-step lookup of wrapped field types (classification only)
        bug_kind, bug_tree, bug = reference(top, direction, req, defect="unwrap")
        if kind != "value" or bug_kind != "value":
            raise env.HarnessError("MW is always servable")
        uclass = unwrap_class(plan, tree, ref_log, bug_tree, bug.log, by_idx)
    elif KNOWN_OPEN:  # the transcription of the open finding (classification only, see module docstring)
        bug_kind, bug_tree, bug = reference(top, direction, req, defect="stale")
        affected = (bug_kind, bug_tree) != (kind, tree) or per_stack(bug.log) != ref_log

    # ---- evidence: what does this case exercise?
    feats = set()
    for c in ctxs:
        feats |= grouping_features(c.seq)
    if len(feats) > 1:
        feats.discard("grp:none")
    n_match_max, first_kinds, n_decl, n_pass = 0, set(), 0, 0
    for idxs in ref_log.values():
        n_match_max = max(n_match_max, len(idxs))
        first_kinds.add(by_idx[idxs[0]].kind)
        n_decl += sum(by_idx[i].kind == "decline" for i in idxs)
        n_pass += sum(by_idx[i].kind == "pass" for i in idxs)
    matched_twice = any(
        sum(PREDS[e.pred][2](stack) for e in top.seq) >= 2 for stack in {stack0, *ref_log})
    unnorm = req in UNNORMALISABLE
    has_exact = any(exact_origin(e) is not None for e in by_idx.values())
    nontrivial = matched_twice or bool(first_kinds - {"plain", "retort"}) or (unnorm and has_exact)
    n_user = len(by_idx)
    labels = [f"req:{req}", f"dir:{direction}", "log:on" if logged else "log:off(raw providers)",
              "len:0-1" if n_user <= 1 else "len:2-3" if n_user <= 3 else "len:4-6" if n_user <= 6 else "len:7+",
              f"expect:{'ProviderNotFoundError' if kind == 'not_found' else kind}", *sorted(feats)]
    top_first = by_idx[ref_log[stack0][0]].kind if stack0 in ref_log else "builtin"
    labels.append(f"top_first:{top_first}")
    if unnorm:
        labels.append("unnormalisable_request")
        if has_exact:
            labels.append("unnormalisable_request+exact_class_entries")
        if "grp:table_with_None_key" in feats:
            labels.append("unnormalisable_request+None_keyed_table")
    if n_match_max >= 2:
        labels.append("consulted>=2_for_one_location")
    if n_match_max >= 4:
        labels.append("consulted>=4_for_one_location")
    if n_decl:
        labels.append("declined>=1")
    if n_pass:
        labels.append("passed_through>=1")
    depth = _max_compose(tree) if kind == "value" else 0
    if depth >= 2:
        labels.append("composed>=2_functions")
    if depth >= 3:
        labels.append("composed>=3_functions")
    if len(ref_log) >= 2:
        labels.append("sub_requests_consult_recipe")
    for op, _ in plan.ops:
        labels.append(f"feat:{op}")
    if plan.cls_shape:
        labels.append(f"feat:class_recipe_{plan.cls_shape}")
    if len(ctxs) > 1:
        labels.append("feat:nested_retort")
        if any(e.kind == "retort" and e.pred == "BARE" for e in by_idx.values()):
            labels.append("feat:nested_retort_bare")
        if any(e.kind == "retort" and e.pred != "BARE" for e in by_idx.values()):
            labels.append("feat:nested_retort_bound")
    if req in REC_REQS:
        # the location at which the cycle comes round in adaptix today: the field for the request Node, the model
        # below the list for List[Node]; a chaining entry there is what the recursion must not lose further down
        closing = (*stack0, ("F", "Optional[Node]", "nxt")) if req == "Node" else (*stack0, ("G", "Node", 0))
        at_closing = [by_idx[i].kind for i in ref_log.get(closing, [])]
        if any(k in ("first", "last") for k in at_closing):
            labels.append("rec:chaining_entry_at_the_cycle_closing_location")
            nontrivial = True
        elif at_closing:
            labels.append("rec:entry_consulted_at_the_cycle_closing_location")
        below = [s for s in ref_log if s in optional]
        if any(by_idx[i].kind in ("first", "last") for s in below for i in ref_log[s]):
            labels.append("rec:chaining_entry_below_the_cycle_closing_location")
        if ref.entered_inside_cycle:
            labels.append("rec:nested_retort_entered_inside_the_cycle")
    if req == "MW":
        labels.append("wrapped:" + ("two_step_lookup_not_observable" if uclass is None else
                                    f"known:{uclass[0]}(probe)" if uclass[0] != "other" else "other"))
        if any(PRED_CLASS.get(by_idx[i].pred) == "type" for idxs in ref_log.values() for i in idxs):
            labels.append("wrapped:type_entry_consulted_for_a_wrapped_field")
    if plan.derived is not None:
        d = plan.derived
        labels += ["feat:derived", f"derived:pre={d['pre']}",
                   "derived:final=" + ("direct" if d["wrap"] == "DIRECT" else "nested")]
        # would serving from the ORIGINAL retort (same holder) be told apart from serving from the derived one?
        orig = plan.own_ctx(with_ops=False)
        orig_top = orig if d["wrap"] == "DIRECT" else plan._holder(plan.w_fin, d["wrap"], orig)
        okind, otree, oref = reference(orig_top, direction, req)
        if (okind, otree) != (kind, tree) or per_stack(oref.log) != ref_log:
            labels.append("derived:derivation_observable")
            if d["pre"] != "none":
                labels.append("derived:derivation_observable+original_used_before")
            nontrivial = True
    if affected:
        labels.append("known:affected_by_open_finding(probe)")
    if case.get("repaired"):
        ctx.count("excluded_known")
    key = {k: case.get(k) for k in ("dir", "req", "recipe", "ops", "cls", "logged", "strict", "debug", "derived")}
    datum = main_datum(req, direction)
    expected = digits(ref.run(tree, datum)) if kind == "value" else \
        "ProviderNotFoundError" if kind == "not_found" else "unspecified"
    ctx.case(key, nontrivial, labels=labels,
             sample={"case": key, "reference_log": fmt_log(ref_log), "expected": expected})
    if kind == "unspecified":
        ctx.count("unspecified_nested_retort_cannot_serve_the_request")

    feature = ("derived" if plan.derived is not None else "nested" if len(ctxs) > 1 else
               "cls" if plan.cls_shape else "ops" if plan.ops else "plain_retort")

    # ---- run the real thing
    pre_ref = reference(pre_top, direction, req) if pre_top is not None else None
    status, got, raw_log, func = run_real(plan, direction, req, logged, datum, call=kind == "value",
                                          pre_call=pre_ref is not None and pre_ref[0] == "value")
    if pre_ref is not None:  # ``derived``: the original retort was used first -- same oracle
        ctx.count("derived_pre_use_checked")
        st1, got1, log1, _ = plan.pre_result
        where1 = f"derived_pre_use:{plan.derived['pre']}"
        if st1 not in ("ok", "not_found"):
            ctx.violation(st1[0], (type(st1[1]).__name__, exc_site(st1[1]), direction, where1), case,
                          f"use of the original retort before the derivation, datum={datum!r}: {describe(st1[1])}")
            return
        log1, _ = prepare_got(req, log1)
        ok1, diff1, _ = compare(pre_ref[0], pre_ref[1], pre_ref[2], by_idx, st1, got1, log1, logged, datum,
                                optional_stacks(req, per_stack(pre_ref[2].log)))
        if not ok1:
            ctx.violation("resolution_mismatch", ("unexplained", diff1, where1, direction), case,
                          f"use of the ORIGINAL retort before the derivation: request={req} dir={direction} "
                          f"got={digits(got1) if st1 == 'ok' and pre_ref[0] == 'value' else st1} "
                          f"log got={fmt_log(log1) if logged else 'n/a'} "
                          f"expected={fmt_log(per_stack(pre_ref[2].log))}; recipe={pre_top.seq}")
            return
    if status not in ("ok", "not_found"):
        vkind, e = status
        if vkind == "call_failed" and ref.entered_inside_cycle and _unbound_stub_error(e):
            vkind = "nested_retort_unbound_recursion_stub"  # regression signature of the repaired finding 56bd981
        ctx.violation(vkind, (type(e).__name__, exc_site(e), direction), case,
                      f"datum={datum!r} expected={expected}: {describe(e)}; reference recipe={top.seq}")
        return
    got_log, too_deep = prepare_got(req, raw_log)
    if too_deep:
        ctx.count("unspecified_request_sent_below_the_depth_the_reference_unrolls", too_deep)
    ok, diff, log_rep = compare(kind, tree, ref, by_idx, status, got, got_log, logged, datum, optional)
    if not ok:
        # a known-defect model explains a mismatch only if the real tree behaves EXACTLY (value and raw log) as the
        # transcription predicts for this case; anything else stays "unexplained"
        explained = "unexplained"
        if affected and compare(bug_kind, bug_tree, bug, by_idx, status, got, got_log, logged, datum)[0]:
            explained = "stale_single_combo"
            ctx.count("mismatches_explained_exactly_by_known_defect_model")
        if uclass is not None and compare(bug_kind, bug_tree, bug, by_idx, status, got, raw_log, logged, datum)[0]:
            ctx.count("mismatches_explained_exactly_by_two_step_lookup_model")
            if uclass[0] in ("twice", "deferred"):
                vkind = {"twice": "chained_twice_through_unwrapping",
                         "deferred": "type_predicate_deferred_behind_unwrapping"}[uclass[0]]
                ctx.violation(vkind, uclass[1], case,
                              f"request={req} dir={direction} got={digits(got)} expected={expected}; consultation "
                              f"log got={fmt_log(raw_log) if logged else 'n/a'} (N / Ann = the field's request at "
                              f"the wrapper level, int = the request the unwrapping provider sends again from "
                              f"offset 0) expected for the field location={fmt_log(ref_log)}; recipe={top.seq}")
                return
            explained = "two_step_lookup_of_wrapped_field_other"
        # localise the root cause: does the equivalent flat ``Retort(recipe=...)`` disagree as well (-> routing), or
        # only the construction route (extend / replace / class recipes)?  is the other direction wrong as well?
        where = feature
        if feature in ("cls", "ops"):
            flat = {"dir": direction, "req": req, "recipe": [e.raw for e in top.seq], "logged": logged,
                    "strict": top.strict, "debug": top.debug}
            where = "routing" if not agrees(flat) else feature
        elif feature == "plain_retort":
            where = "routing"
        elif feature == "derived":  # does it take the earlier use of the original retort?
            d = plan.derived
            fresh = d["pre"] == "none" or not agrees(dict(case, derived=dict(d, pre="none")))
            where = (f"derived:{'whatever_was_done_with_the_original' if fresh else 'only_after_pre=' + d['pre']}"
                     f":final={'direct' if d['wrap'] == 'DIRECT' else 'nested'}")
        if req in REC_REQS:
            where += ":recursive_type"
        other = dict(case, dir="dump" if direction == "load" else "load")
        dirs = "both_directions" if not agrees(other) else f"{direction}_only"
        got_txt = "ProviderNotFoundError" if status == "not_found" else \
            digits(got) if kind == "value" else "a loader/dumper was produced"
        ctx.violation("resolution_mismatch", (explained, diff, where, dirs), case,
                      f"request={req} dir={direction} outcome got={got_txt} expected={expected}; "
                      f"consultation log got={fmt_log(got_log) if logged else 'n/a'} expected={fmt_log(ref_log)}"
                      f"{' (only membership is asserted on a failing path)' if kind != 'value' else ''}; "
                      f"flattened reference recipe={top.seq}")
        return
    if log_rep:
        ctx.count("unspecified_sub_request_sent_more_than_once")
    if uclass is not None and logged:  # (unlogged: a difference in consultations only is not observable)
        ctx.count("two_step_lookup_model_predicted_a_difference_but_reference_held")
    if affected and logged:
        ctx.count("known_defect_model_predicted_a_difference_but_reference_held")
    if kind == "not_found" and logged and any(len(g) != len(set(g)) for sends in got_log.values() for g in sends):
        ctx.count("unspecified_reconsultation_after_a_chaining_entry_found_no_next")
    if kind != "value":
        return

    # ---- options of the serving retort (load only; informative when retorts with different options are involved)
    if direction == "load" and (len(ctxs) > 1 or any(op == "replace" for op, _ in plan.ops) or case.get("optprobe")):
        for d in option_data(req):
            ctx.count("option_probes")
            try:
                exp = ("ok", ref.run(tree, d))
            except RefLoadError as e:
                exp = ("load_error", e.aggregate)
            try:
                act = ("ok", func(d))
            except LoadError as e:
                act = ("load_error", isinstance(e, AggregateLoadError))
            except Exception as e:  # noqa: BLE001
                ctx.violation("call_failed", (type(e).__name__, exc_site(e), direction), case,
                              f"datum={d!r}: {describe(e)}")
                continue
            ok = exp[0] == act[0] and (same_value(exp[1], act[1]) if exp[0] == "ok" else exp[1] in (None, act[1]))
            if not ok:
                ctx.violation("options_mismatch", (exp[0], act[0], feature), case,
                              f"datum={d!r} expected={_fmt_outcome(exp)} got={_fmt_outcome(act)} (strict_coercion / "
                              f"debug_trail of the retort whose builtin provider serves the location must apply); "
                              f"reference recipe={top.seq} options strict={top.strict} debug={top.debug}")


def _unbound_stub_error(e, depth=0) -> bool:
    """TypeError("'NoneType' object is not callable"), possibly inside the exception groups of debug_trail=ALL"""
    if isinstance(e, TypeError) and "'NoneType' object is not callable" in str(e):
        return True
    return depth < 8 and any(_unbound_stub_error(x, depth + 1) for x in getattr(e, "exceptions", ()))


def _use(builder, retort, direction, req, datum, call):
    """-> (status, value, {stack: [sequence per send]}, loader-or-dumper);
    status: 'ok' | 'not_found' (the facade raised ProviderNotFoundError) | (violation kind, exception)"""
    tp = REQ_TYPES[req]
    start = len(builder.log)
    try:
        func = retort.get_loader(tp) if direction == "load" else retort.get_dumper(tp)
    except ProviderNotFoundError:
        return "not_found", None, per_send(builder.log[start:]), None
    except Exception as e:  # noqa: BLE001 -- resolution either succeeds or reports ProviderNotFoundError
        return ("resolution_failed", e), None, None, None
    creation_log = builder.log[start:]
    if not call:  # the outcome "a loader / dumper was produced" is all that is compared
        return "ok", None, per_send(creation_log), func
    try:
        got = func(datum)
    except Exception as e:  # noqa: BLE001 -- markers and builtin providers accept the main datum by construction
        return ("call_failed", e), None, None, None
    if len(builder.log) - start != len(creation_log):
        return ("consulted_at_call_time", env.HarnessError("providers consulted while loading/dumping")), None, None, None
    return "ok", got, per_send(creation_log), func


def run_real(plan: Plan, direction, req, logged, datum, call=True, pre_call=False):
    """Build the retort(s) of the case and use the final one -> result of ``_use``.
    ``derived``: the original retort A is built, placed in a holder's recipe and / or used (``plan.pre_result``),
    THEN B = A.extend(...) / A.replace(...) is derived and placed in a fresh holder (or used directly)."""
    builder = Builder(direction, logged)
    d = plan.derived
    if d is None:
        return _use(builder, builder.retort(plan), direction, req, datum, call)
    original = builder.base_retort(plan)
    plan.pre_result = None
    if d["pre"] == "place":  # building the holder is what asks the original for its request handlers
        builder.holder(plan, plan.w_pre, plan.pre_wrap(), original)
    elif d["pre"] == "nest_use":
        plan.pre_result = _use(builder, builder.holder(plan, plan.w_pre, plan.pre_wrap(), original), direction, req,
                               datum, pre_call)
    elif d["pre"] == "direct_use":
        plan.pre_result = _use(builder, original, direction, req, datum, pre_call)
    derived = builder.apply_ops(original, plan)
    final = derived if d["wrap"] == "DIRECT" else builder.holder(plan, plan.w_fin, d["wrap"], derived)
    return _use(builder, final, direction, req, datum, call)


def agrees(case) -> bool:
    """Plain verdict of the main oracle (outcome + consultation log) on a derived case; used to localise a mismatch."""
    direction, req, logged = case["dir"], case["req"], case.get("logged", True)
    plan = Plan(case)
    top = plan.reference_ctx()
    kind, tree, ref = reference(top, direction, req)
    by_idx = {e.idx: e for c in plan.all_ctx(top) for e in c.seq}
    datum = main_datum(req, direction)
    status, got, got_log, _ = run_real(plan, direction, req, logged, datum, call=kind == "value")
    if status not in ("ok", "not_found"):
        return False
    got_log, _ = prepare_got(req, got_log)
    return compare(kind, tree, ref, by_idx, status, got, got_log, logged, datum,
                   optional_stacks(req, per_stack(ref.log)))[0]


def _fmt_outcome(o):
    return f"value {o[1]!r}" if o[0] == "ok" else f"LoadError(aggregate={o[1]})"


def _max_compose(node):
    """Largest number of user functions composed along one leaf path at one location."""
    tag = node[0]
    if tag == "plain":
        return 1
    if tag in ("first", "last"):
        return 1 + _max_compose(node[2])
    if tag in ("b_int", "b_none", "cut"):
        return 0
    if tag in ("b_M", "b_Node"):
        return max(_max_compose(node[2]), _max_compose(node[3]))
    return _max_compose(node[1])


def _cmp_logs(got, exp, failed=(), matches=None, optional=frozenset()):
    """-> (agrees, some sub-request was sent more than once).  Every send of a location must show exactly the
    reference's consultation sequence; the top-level request is sent once by the harness; how often a builtin
    provider sends the same sub-request is not specified (counted).
    Locations in ``failed`` (nothing can serve them): a chaining / delegating entry whose rest of the recipe fails is
    treated as declining by the request bus, which then scans the same rest again -- not specified, so only
    membership (every consulted entry's predicate matches) and the first consulted entry are asserted there.
    Locations in ``optional`` (self-referential requests, see ``optional_stacks``) may be absent."""
    if not (set(exp) - optional <= set(got) <= set(exp)):
        return False, False
    rep = False
    for stack, sends in got.items():
        e = exp[stack]
        if stack in failed:
            if any(g[0] != e[0] or not all(matches(stack, i) for i in g) for g in sends):
                return False, False
        elif any(g != e for g in sends):
            return False, False
        if len(sends) > 1:
            if len(stack) == 1:
                return False, False
            rep = True
    return True, rep


def _log_diff(got, exp, optional=frozenset()):
    """Primary class of a consultation-log disagreement (one word, so that one cause gives few buckets)."""
    kinds = set()
    for stack in set(got) | set(exp):
        if stack in optional and stack not in got:
            continue
        e = exp.get(stack, [])
        for g in got.get(stack, [[]]):
            if g == e:
                continue
            if set(g) - set(e):
                kinds.add("consulted_entry_that_must_not_be")
            elif set(e) - set(g):
                kinds.add("skipped_entry")
            elif sorted(g) == sorted(e):
                kinds.add("wrong_order")
            elif any(g.count(i) > 1 for i in set(g)):
                kinds.add("consulted_twice")
        if len(stack) == 1 and len(got.get(stack, [])) > 1:
            kinds.add("top_level_sent_twice")
    for k in ("wrong_order", "consulted_entry_that_must_not_be", "skipped_entry", "consulted_twice",
              "top_level_sent_twice"):
        if k in kinds:
            return k
    return "other"


# ----------------------------------------------------------------------------------- known-finding switch
def known_open(known_id=KNOWN_ID) -> bool:
    return any(e.get("id") == known_id and e.get("status") == "open" for e in runner.load_known(PROP))


def exclusion_active() -> bool:
    """Generators avoid the class affected by the finding only while it is open
    (VERIF_C09_NO_EXCLUDE=1 switches the avoidance off, e.g. to validate a candidate fix on the whole domain)."""
    return KNOWN_OPEN and os.environ.get("VERIF_C09_NO_EXCLUDE") != "1"


def is_affected(case) -> bool:
    top = Plan(case).reference_ctx()
    ka, ta, a = reference(top, case["dir"], case["req"])
    kb, tb, b = reference(top, case["dir"], case["req"], defect="stale")
    return (ka, ta) != (kb, tb) or a.log != b.log


def wrapped_class(case):
    """Request MW: which open finding on wrapped fields a case runs into (pure data) -> None | 'twice' | 'deferred'
    | 'other'."""
    plan = Plan(case)
    top = plan.reference_ctx()
    if any(e.pred in UNSPEC_ON_WRAPPED for c in plan.all_ctx(top) for e in c.seq):
        return None
    _, tree, a = reference(top, case["dir"], "MW")
    _, bug_tree, b = reference(top, case["dir"], "MW", defect="unwrap")
    by_idx = {e.idx: e for c in plan.all_ctx(top) for e in c.seq}
    u = unwrap_class(plan, tree, per_stack(a.log), bug_tree, b.log, by_idx)
    return None if u is None else u[0]


def excluded_wrapped(case, salt) -> bool:
    """Exclusion by construction while the two findings on wrapped fields are open: 7/8 of the cases that run into
    one of them are left out (the rest are the probes behind the KNOWN-FINDING lines)."""
    if case["req"] != "MW":
        return False
    cls = wrapped_class(case)
    if cls == "twice" and EXCLUDE_TWICE or cls == "deferred" and EXCLUDE_DEFER:
        return runner.h64([salt, case["recipe"], case["dir"]]) % 8 != 0
    return False


def repair_recipe(raw):
    """Exclusion by construction: make every run of exact-origin entries that the router would close with ONE
    element two elements long, by inserting a never-matching exact-origin entry (``loader(str, f)``, or
    ``loader(bool, f)`` behind a ``str`` entry) behind it.  A part (extend recipe, instance recipe, class level,
    inner recipe) never ends in a one-element run, so the seams between parts cannot create one either."""
    out, run = [], set()

    def close():
        nonlocal run
        if len(run) == 1:
            out.append(["bool" if "str" in run else "str", "plain"])
        run = set()

    for r in raw:
        r = list(r)
        if r[1] == "retort":
            r[2] = dict(r[2], recipe=repair_recipe(r[2].get("recipe", [])))
        o = PREDS[r[0]][1]
        if o is None or o in run:
            close()
            out.append(r)
        else:
            run.add(o)
            out.append(r)
    close()
    return out


def repair_case(case):
    c = dict(case)
    c["recipe"] = repair_recipe(case.get("recipe", []))
    if case.get("ops"):
        c["ops"] = [{"extend": repair_recipe(op["extend"])} if "extend" in op else op for op in case["ops"]]
    if case.get("cls"):
        c["cls"] = dict(case["cls"], levels=[repair_recipe(lv) for lv in case["cls"]["levels"]])
    c["repaired"] = True
    return c


# ----------------------------------------------------------------------------------- strategies
def _weights(pairs):
    return st.sampled_from([v for v, w in pairs for _ in range(w)])


ST_KIND = _weights([("plain", 3), ("first", 6), ("last", 5), ("decline", 5), ("pass", 4)])


@st.composite
def st_recipe(draw, req, min_size, max_size, depth):
    """Block grammar: runs of exact-class predicates (which the router merges into one table) that grow with distinct
    origins, are closed by a repeated origin or by a non-groupable predicate, and start again behind it; predicates
    are biased towards those that match a location reached from ``req`` so that entries are actually consulted."""
    n = draw(st.integers(min_size, max_size))
    out, prev_exact, run = [], False, []
    relevant = RELEVANT[req]
    rel_exact = [p for p in relevant if PREDS[p][1] is not None]
    rel_non = [p for p in relevant if PREDS[p][1] is None]
    nonexact = NONEXACT_PREDS if req != "MW" else [p for p in NONEXACT_PREDS if p not in UNSPEC_ON_WRAPPED]
    for _ in range(n):
        exact = draw(st.integers(0, 9)) < (7 if prev_exact else 5)
        if exact:
            mode = draw(st.integers(0, 9))
            origins = {PREDS[p][1] for p in run}
            fresh = [p for p in EXACT_PREDS if PREDS[p][1] not in origins]
            fresh_rel = [p for p in rel_exact if PREDS[p][1] not in origins]
            if run and mode < 2:
                pred = draw(st.sampled_from(run))  # repeat an origin of the current run -> the table must be closed
            elif fresh_rel and mode < 5:
                pred = draw(st.sampled_from(fresh_rel))
            elif fresh and mode < 9:
                pred = draw(st.sampled_from(fresh))  # grows the table (never-matching members included)
            else:
                pred = draw(st.sampled_from(rel_exact))
            if PREDS[pred][1] in origins:
                run = []  # closed by the repeat; the repeated entry itself stays outside of a table
            else:
                run.append(pred)
        else:
            pred = draw(st.sampled_from(rel_non)) if draw(st.integers(0, 9)) < 7 else draw(
                st.sampled_from(nonexact))
            run = []
        prev_exact = exact
        if depth > 0 and draw(st.integers(0, 19)) == 0:
            inner = {"recipe": draw(st_recipe(req, 0, 4, depth - 1)), "strict": draw(st.booleans()),
                     "debug": draw(st.integers(0, 2))}
            if draw(st.booleans()):
                out.append(["BARE", "retort", inner])
                run, prev_exact = [], False
            else:
                out.append([pred, "retort", inner])
            continue
        out.append([pred, draw(ST_KIND)])
    return out


@st.composite
def st_case(draw):
    req = draw(_weights([("int", 3), ("M", 3), ("List[int]", 3), ("Optional[int]", 3), ("FR", 3), ("List[FR]", 2),
                         ("bare Literal", 1), ("bare Union", 1), ("object 5", 1), ("list['Missing']", 1), ("None", 1),
                         ("Node", 3), ("List[Node]", 2), ("MW", 2)]))
    case = {"dir": draw(st.sampled_from(["load", "load", "dump"])), "req": req,
            "logged": draw(st.integers(0, 4)) > 0, "strict": draw(st.booleans()), "debug": draw(st.integers(0, 2))}
    shape = draw(_weights([("long", 6), ("ops", 3), ("cls", 3), ("nested", 3),
                           ("derived", 3 if req != "MW" else 0)]))
    depth = 2 if shape == "nested" else 0
    lo, hi = (5, 10) if shape == "long" else (1, 6)
    case["recipe"] = draw(st_recipe(req, lo, hi, depth))
    if shape == "nested" and not any(r[1] == "retort" for r in case["recipe"]):
        inner = {"recipe": draw(st_recipe(req, 0, 4, 1)), "strict": draw(st.booleans()), "debug": draw(st.integers(0, 2))}
        pos = draw(st.integers(0, len(case["recipe"])))
        pred = draw(st.sampled_from(["BARE", *RELEVANT[req]]))
        case["recipe"].insert(pos, [pred, "retort", inner])
    if shape in ("ops", "derived"):
        ops = []
        for _ in range(draw(st.integers(1, 2))):
            if draw(st.booleans()):
                ops.append({"extend": draw(st_recipe(req, 1, 3, 0))})
            else:
                ops.append({"replace": {"strict": draw(st.sampled_from([None, True, False])),
                                        "debug": draw(st.sampled_from([None, 0, 1, 2]))}})
        case["ops"] = ops
    if shape == "cls":
        if draw(st.booleans()):
            case["cls"] = {"shape": "chain", "levels": [draw(st_recipe(req, 0, 3, 0))
                                                        for _ in range(draw(st.integers(1, 3)))]}
        else:
            case["cls"] = {"shape": "diamond", "levels": [draw(st_recipe(req, 0, 2, 0)) for _ in range(3)]}
        if draw(st.integers(0, 3)) == 0:
            case["ops"] = [{"extend": draw(st_recipe(req, 1, 2, 0))}]
    if shape == "derived":
        if draw(st.integers(0, 3)) == 0:
            case["cls"] = {"shape": "chain", "levels": [draw(st_recipe(req, 0, 2, 0))
                                                        for _ in range(draw(st.integers(1, 2)))]}
        case["derived"] = {"pre": draw(_weights([("none", 1), ("place", 3), ("nest_use", 4), ("direct_use", 2)])),
                           "wrap": draw(st.sampled_from(["BARE", "BARE", "DIRECT", *RELEVANT[req]])),
                           "strict": draw(st.booleans()), "debug": draw(st.integers(0, 2))}
    probe = draw(st.integers(0, 15)) == 0
    if EXCLUDE_KNOWN and not probe and is_affected(case):
        case = repair_case(case)
    if excluded_wrapped(case, "sampled"):
        case = dict(case, req="M", repaired=True)  # the twin model with plain int fields
    return case


# ----------------------------------------------------------------------------------- exploration
CORE = [("int", "plain"), ("int", "first"), ("int", "last"), ("int", "decline"), ("int", "pass"),
        ("str", "plain"), ("bool", "first"), ("None", "plain"), ("None", "first"),
        ("M", "plain"), ("M", "first"), ("M", "decline"),
        ("list", "last"), ("list", "pass"),
        ("a", "plain"), ("a", "first"), ("P[M].a", "last"),
        ("~P[M].a", "first"), ("~P[M].a", "decline"),
        ("P.ANY", "plain"), ("P.ANY", "first"), ("P.ANY", "last"), ("Integral", "first")]
FULL_PREDS = ("int", "str", "None", "M", "list", "P[int]", "List[int]", "Integral", "a", "[ab]", "P[M].a", "~P[M].a",
              "P.ANY", "~P[int]", "and(int,ANY)")
FULL = [(p, k) for p in FULL_PREDS for k in KINDS]

FIXED = [
    # the tutorial's statements as cases: priority, chaining directions, extend, replace, combination
    {"dir": "load", "req": "int", "recipe": [["int", "first"], ["int", "last"]]},
    {"dir": "dump", "req": "int", "recipe": [["int", "last"], ["int", "first"], ["int", "plain"], ["int", "plain"]]},
    {"dir": "load", "req": "M", "recipe": [["a", "first"]], "ops": [{"extend": [["P[M].a", "plain"]]}]},
    {"dir": "load", "req": "M", "recipe": [["int", "first"]], "ops": [{"replace": {"strict": False, "debug": 0}}],
     "optprobe": True},
    {"dir": "load", "req": "M", "recipe": [["M", "retort", {"recipe": [["a", "last"]], "strict": False, "debug": 0}]],
     "strict": True, "debug": 2},
    {"dir": "load", "req": "M", "recipe": [["BARE", "retort", {"recipe": [], "strict": False, "debug": 1}],
                                           ["P.ANY", "plain"]]},
    {"dir": "dump", "req": "List[int]", "recipe": [["int", "pass"]],
     "cls": {"shape": "diamond", "levels": [[["int", "first"]], [["int", "last"]], [["int", "decline"]]]}},
    {"dir": "load", "req": "Optional[int]", "recipe": [],
     "cls": {"shape": "chain", "levels": [[["int", "first"]], [["Integral", "last"]], [["P.ANY", "first"]]]}},
    # a type that cannot be normalised has no origin: entries keyed by a class (None included) never serve it, whether
    # the router keeps them in a hash table ([None, str]) or as single items ([None] + the builtin None provider)
    *[{"dir": d, "req": r, "recipe": rc}
      for d in ("load", "dump") for r in UNNORMALISABLE
      for rc in ([], [["None", "plain"], ["str", "plain"]], [["None", "plain"]], [["str", "first"], ["None", "first"]],
                 [["None", "plain"], ["str", "plain"], ["P.ANY", "last"], ["~P[int]", "plain"]],
                 [["int", "plain"], ["None", "pass"], ["P.ANY", "first"], ["P.ANY", "decline"]])],
    {"dir": "load", "req": "FR", "recipe": [["BARE", "retort", {"recipe": [["None", "plain"], ["bool", "plain"]]}],
                                            ["P.ANY", "plain"]]},
    {"dir": "load", "req": "None", "recipe": [["str", "plain"], ["None", "pass"], ["P.ANY", "decline"]]},
    {"dir": "dump", "req": "None", "recipe": [["None", "decline"], ["None", "plain"], ["P.ANY", "plain"]]},
    # a chaining entry composes exactly once at EVERY nesting level of a self-referential model (field / model itself)
    {"dir": "load", "req": "Node", "recipe": [["P[Node].nxt", "first"]]},
    {"dir": "load", "req": "Node", "recipe": [["nxt", "last"]]},
    {"dir": "dump", "req": "Node", "recipe": [["P[Node].nxt", "last"]]},
    {"dir": "load", "req": "List[Node]", "recipe": [["Node", "first"], ["nxt", "last"]]},
    {"dir": "dump", "req": "List[Node]", "recipe": [["Node", "last"]]},
    # a nested retort entered inside the cycle (crashed with a never-bound recursion stub until 56bd981)
    {"dir": "load", "req": "List[Node]", "recipe": [["nxt", "retort", {"recipe": [["int", "first"]], "strict": False}]]},
    {"dir": "dump", "req": "List[Node]", "recipe": [["Optional[Node]", "retort", {"recipe": [["a", "last"]]}]]},
    # a retort derived by extend() / replace() from one that has already been placed in a recipe serves from its OWN
    # recipe and options when it is placed in a recipe itself
    {"dir": "load", "req": "int", "recipe": [["int", "plain"]], "ops": [{"extend": [["int", "plain"]]}],
     "derived": {"pre": "nest_use", "wrap": "BARE", "strict": True, "debug": 2}},
    {"dir": "load", "req": "int", "recipe": [], "strict": True, "ops": [{"replace": {"strict": False, "debug": None}}],
     "derived": {"pre": "place", "wrap": "BARE", "strict": True, "debug": 2}},
    {"dir": "dump", "req": "M", "recipe": [["a", "first"]], "ops": [{"extend": [["P[M].a", "last"]]}],
     "derived": {"pre": "direct_use", "wrap": "M", "strict": False, "debug": 0}},
    # fields typed NewType / Annotated: type entries serve them once (after the unwrapping); the entries keyed by the
    # field location are the probes of the two open findings
    {"dir": "load", "req": "MW", "recipe": [["int", "first"], ["Integral", "last"]]},
    {"dir": "dump", "req": "MW", "recipe": [["P[int]", "last"], ["int", "plain"]]},
    {"dir": "load", "req": "MW", "recipe": [["a", "plain"], ["MW", "first"]]},
    {"dir": "load", "req": "MW", "recipe": [["a", "first"]]},
    {"dir": "dump", "req": "MW", "recipe": [["b", "last"]]},
    {"dir": "load", "req": "MW", "recipe": [["P[MW].a", "first"]]},
    {"dir": "load", "req": "MW", "recipe": [["[ab]", "pass"]]},
    {"dir": "load", "req": "MW", "recipe": [["P.ANY", "first"]]},
    {"dir": "load", "req": "MW", "recipe": [["int", "plain"], ["a", "plain"]]},
    {"dir": "dump", "req": "MW", "recipe": [["int", "first"], ["b", "plain"]]},
]

# alphabets of the additional enumerations
REC_PREDS = ("Node", "nxt", "P[Node].nxt", "Optional[Node]", "a", "int", "P.ANY", "list")
REC = [(p, k) for p in REC_PREDS for k in KINDS]
WR_PREDS = ("a", "[ab]", "P[MW].a", "int", "Integral", "P.ANY", "MW")
WR = [(p, k) for p in WR_PREDS for k in KINDS]
DER_BASE = ([], [["int", "plain"]], [["int", "first"]], [["a", "last"]], [["P.ANY", "first"]],
            [["int", "decline"], ["P.ANY", "last"]])
DER_EXT = ([["int", "plain"]], [["int", "first"]], [["P.ANY", "last"]], [["a", "plain"]])
DER_WRAPS = ("BARE", "P.ANY", "int", "DIRECT")
DER_PRE = ("none", "place", "nest_use", "direct_use")
DER_REQS = ("int", "M", "List[int]", "Optional[int]")


def der_ops(strict, debug):
    """extend / replace sequences; replace() always changes the option it names"""
    flip_s = {"replace": {"strict": not strict, "debug": None}}
    flip_d = {"replace": {"strict": None, "debug": (debug + 1) % 3}}
    flip_sd = {"replace": {"strict": not strict, "debug": (debug + 2) % 3}}
    return [*([{"extend": e}] for e in DER_EXT), [flip_s], [flip_d],
            [{"extend": [["int", "last"]]}, flip_sd], [flip_s, {"extend": [["int", "first"]]}],
            [{"extend": [["int", "first"]]}, {"extend": [["int", "last"]]}]]


def _enumerate(ctx, alphabet, max_len, name, dump_every=1, skip_at_max_len=()):
    """All recipes over ``alphabet`` of length 0..max_len x all requests x load (and dump for every
    ``dump_every``-th recipe); sharded by recipe index."""
    i = 0
    for n in range(max_len + 1):
        for combo in itertools.product(alphabet, repeat=n):
            i += 1
            if i % ctx.nshards != ctx.shard:
                continue
            if ctx.out_of_time():
                return False
            recipe = [list(x) for x in combo]
            dirs = ("load", "dump") if (i // ctx.nshards) % dump_every == 0 else ("load",)
            for req in REQS:
                if n == max_len and req in skip_at_max_len:
                    continue
                for d in dirs:
                    case = {"dir": d, "req": req, "recipe": recipe, "logged": True,
                            "strict": bool(i & 1), "debug": i % 3}
                    if EXCLUDE_KNOWN and n > 2 and runner.h64([recipe, req, d]) % 16 and is_affected(case):
                        ctx.count("excluded_known")
                        continue
                    ctx.label(f"src:{name}")
                    check_case(ctx, case)
    return True


def _enumerate_small(ctx, alphabet, max_len, reqs, name):
    """All recipes over ``alphabet`` of length 0..max_len x ``reqs`` x (load, dump); sharded by recipe index."""
    i = 0
    for n in range(max_len + 1):
        for combo in itertools.product(alphabet, repeat=n):
            i += 1
            if i % ctx.nshards != ctx.shard:
                continue
            if ctx.out_of_time():
                return False
            recipe = [list(x) for x in combo]
            for req in reqs:
                if req != "List[Node]" and any(x[0] == "list" for x in recipe):
                    continue  # never matches there; the recipe without it is enumerated anyway
                for d in ("load", "dump"):
                    case = {"dir": d, "req": req, "recipe": recipe, "logged": True,
                            "strict": bool(i & 1), "debug": i % 3}
                    if excluded_wrapped(case, name):
                        ctx.count("excluded_known")
                        continue
                    ctx.label(f"src:{name}")
                    check_case(ctx, case)
    return True


def _enumerate_derived(ctx, thorough):
    """original recipe x extend / replace sequence x what was done with the original before x how the derived retort
    is used x request x direction"""
    i = 0
    for base in DER_BASE:
        for k in range(len(der_ops(True, 0))):
            for wrap in DER_WRAPS:
                for pre in DER_PRE:
                    i += 1
                    if i % ctx.nshards != ctx.shard:
                        continue
                    if ctx.out_of_time():
                        return False
                    strict, debug = bool(i & 1), i % 3
                    for req in DER_REQS + (REC_REQS if thorough else ()):
                        for d in ("load", "dump"):
                            case = {"dir": d, "req": req, "recipe": base, "logged": bool((i // 2 + len(req)) % 4),
                                    "strict": strict, "debug": debug, "ops": der_ops(strict, debug)[k],
                                    "derived": {"pre": pre, "wrap": wrap, "strict": bool(i & 2),
                                                "debug": (i // 3) % 3}}
                            ctx.label("src:exhaustive_derived")
                            check_case(ctx, case)
    return True


def explore(ctx: runner.Ctx):
    thorough = ctx.tier == "thorough"
    excl = (f" except a 15/16 share of the length>=3 cases affected by the open finding {KNOWN_ID} "
            "(counted as excluded_known)") if EXCLUDE_KNOWN else ""
    if ctx.shard == 0:
        for case in FIXED:
            ctx.label("src:fixed")
            check_case(ctx, case)
        for case in validator_cases():
            runner.guarded(ctx, lambda c: check_case(ctx, c), case)
    # thorough: the longest length leaves out List[FR] (same reference behaviour as FR) to keep the run <= ~10 min
    skip = ("List[FR]",) if thorough else ()
    note = f"; at the longest length without the request {skip[0]}" if skip else ""
    n_core = 4 if thorough else 3
    if _enumerate(ctx, CORE, n_core, "exhaustive_core", skip_at_max_len=skip):
        ctx.mark_exhaustive(f"all recipes of length 0..{n_core} over the core alphabet ({len(CORE)} (predicate, "
                            f"handler) entries) x requests {REQS} x (load, dump)" + note + excl)
    n_full = 3 if thorough else 2
    if _enumerate(ctx, FULL, n_full, "exhaustive_full", dump_every=4 if thorough else 1, skip_at_max_len=skip):
        ctx.mark_exhaustive(f"all recipes of length 0..{n_full} over the full product alphabet ({len(FULL_PREDS)} "
                            f"predicates x {len(KINDS)} handler kinds = {len(FULL)} entries) x requests x "
                            + ("load (dump: every 4th recipe only, not exhaustive)" if thorough else "(load, dump)")
                            + note + excl)

    n_rec = 3 if thorough else 2
    if _enumerate_small(ctx, REC, n_rec, REC_REQS, "exhaustive_recursive"):
        ctx.mark_exhaustive(f"self-referential models: all recipes of length 0..{n_rec} over {len(REC_PREDS)} "
                            f"predicates x {len(KINDS)} handler kinds = {len(REC)} entries x requests {REC_REQS} x "
                            f"(load, dump), probe data {NODE_LEVELS} levels deep")
    n_wr = 3 if thorough else 2
    if _enumerate_small(ctx, WR, n_wr, ("MW",), "exhaustive_wrapped_fields"):
        ctx.mark_exhaustive(f"fields typed NewType / Annotated: all recipes of length 0..{n_wr} over {len(WR_PREDS)} "
                            f"predicates x {len(KINDS)} handler kinds = {len(WR)} entries x request MW x (load, dump)"
                            + (f" except a 7/8 share of the cases that run into the open findings {KNOWN_TWICE_ID} / "
                               f"{KNOWN_DEFER_ID} (counted as excluded_known)" if EXCLUDE_TWICE or EXCLUDE_DEFER
                               else ""))
    if _enumerate_derived(ctx, thorough):
        ctx.mark_exhaustive(f"derived retorts: {len(DER_BASE)} original recipes x {len(der_ops(True, 0))} extend / "
                            f"replace sequences x final use {DER_WRAPS} x earlier use of the original {DER_PRE} x "
                            f"requests {DER_REQS + (REC_REQS if thorough else ())} x (load, dump)")

    def sampled(case):
        ctx.label("src:sampled")
        check_case(ctx, case)
    ctx.given(st_case(), sampled, ctx.budget(14000, 240000))


KNOWN_OPEN = known_open()
EXCLUDE_KNOWN = exclusion_active()
# the two open findings on fields typed NewType / Annotated: avoided by construction only while their entry is open
EXCLUDE_TWICE = known_open(KNOWN_TWICE_ID) and os.environ.get("VERIF_C09_NO_EXCLUDE") != "1"
EXCLUDE_DEFER = known_open(KNOWN_DEFER_ID) and os.environ.get("VERIF_C09_NO_EXCLUDE") != "1"

RULE = ("case = (direction, request type, instance recipe of (predicate, handler kind) entries [+ extend()/replace() "
        "operations, class-level recipes (chain / diamond), retorts nested in the recipe, 'derived': the original "
        "retort is placed in a recipe / used first and the retort derived from it by the operations is then placed in "
        "a fresh holder retort or used directly], logged or raw providers, strict_coercion, debug_trail); request "
        "types: int, a model, List, Optional, types that cannot be normalised, a self-referential model (and a list "
        "of it; probe data 3 levels deep), a model with NewType / Annotated fields; short recipes enumerated "
        "exhaustively, long ones sampled. Non-trivial = some location reached by the request (top level or "
        "sub-request) is matched by >= 2 recipe entries, or its first match declines / passes through / chains, or "
        "the request type cannot be normalised and the recipe holds an exact-class entry (which must never serve it), "
        "or a chaining entry is consulted at the location where a type cycle comes round, or (derived) serving from "
        "the original retort would give a different reference outcome than serving from the derived one; distinct by "
        "the whole case.")

if __name__ == "__main__":
    raise SystemExit(runner.main(
        PROP, explore=explore, check_case=check_case, strategy=st_case(), rule=RULE,
        assumptions=[
            "predicate semantics of the alphabet are taken from the tutorial's 'Predicate system' (C10 decides them "
            "in general); int / M / List[int] / Optional[int] / None are servable by the builtin providers, whose data "
            "behaviour on the probe data is transcribed in the reference; request types normalize_type refuses "
            "(ForwardRef('Missing'), List[ForwardRef], list['Missing'], bare Literal / Union, the object 5) have no "
            "origin: no exact-class predicate (None included) matches them, P.ANY and negations do, and if no matching "
            "entry serves them the facade must raise ProviderNotFoundError",
            "on a path where nothing can serve the request a chaining / delegating entry counts as declining and the "
            "request bus scans the rest again: there only membership (consulted => predicate matches) and the first "
            "consulted entry are asserted; a nested retort that cannot serve the request makes the outcome unspecified "
            "(terminal vs non-terminal failure is undocumented): counted, membership still asserted",
            "how often a builtin provider asks for the same sub-loader is not specified: k>=2 repetitions of the "
            "reference consultation sequence are accepted for sub-requests (counted); the top-level request must be "
            "consulted exactly as the reference says",
            "terminal CannotProvide raised by user providers and non-located request classes are not generated",
            "self-referential request types: every predicate used with them looks at the last two locations only, so "
            "the reading 'each location of the (infinite) location tree is resolved by first match' (the reference, "
            "unrolled as deep as the 3-level probe data go) and adaptix's reading 'the inner request is answered by "
            "the request in progress' cannot differ in the VALUE, which is asserted at every nesting level; whether a "
            "request of its own is sent for a location at or below the point where the cycle comes round (a location "
            "whose stack holds a type twice) is not specified: such a location may be missing from the consultation "
            "log (adaptix answers it through the recursion stub without consulting anybody), a request that WAS sent "
            "for it must show exactly the reference's consultation sequence",
            "NewType / Annotated field types are transparent for the reference (docs: 'All NewType's are treated as "
            "origin types ... also applies to user-defined providers', 'Annotated ... processed the same as wrapped "
            "types'): the field location is resolved once and int predicates match it; the real sends for the wrapper "
            "level and for the inner type of one field are read as one resolution (sequences concatenated); a negated "
            "type predicate (~P[int]) on such a field is unspecified (not evaluated); the predicate NewType itself is "
            "not generated",
        ],
    ))
