"""C20 -- load, dump and convert are pure with respect to their arguments.

Oracle per generated (type, recipe, input):
  * deep structural snapshot (vkit.tspec.canon: exact types, container contents) of the argument before == after;
  * the call is repeated with the *same* argument object: results are canon-equal;
  * alias scan: the ids of mutable containers reachable from result 1, result 2 and the argument are pairwise disjoint,
    except below positions whose type is Any / object (documented: passed as is); the walk is type-directed, so the
    harness knows those positions;
  * collected extras (extra_in = field / kwargs / saturator): the mapping handed over is not the input mapping and not
    shared between two calls;
  * converters: source unchanged, results equal, fresh model instances, and element-wise coerced containers are new.
"""
from __future__ import annotations

import collections
import copy
import dataclasses
import typing

from vkit import env, runner
from vkit.errors import describe, exc_site

env.import_adaptix()

from hypothesis import strategies as st  # noqa: E402

from adaptix import DebugTrail, ExtraKwargs, ProviderNotFoundError, Retort, name_mapping  # noqa: E402
from adaptix.conversion import get_converter  # noqa: E402
from props.c01_roundtrip import build_recipe, recipe_admissible, st_recipe  # noqa: E402
from props.c04_only_loaderror import PROVS, build_provs  # noqa: E402
from vkit import codec, soup, tspec  # noqa: E402

PROP = "C20"
DEBUG = [DebugTrail.DISABLE, DebugTrail.FIRST, DebugTrail.ALL]
GEN = tspec.TypeGen(max_depth=4)
MUTABLE = (list, dict, set, collections.deque, bytearray)


# --------------------------------------------------------------------------------- id collection
def all_mutable_ids(o, out=None, seen=None):
    """ids of every mutable container reachable from plain data / objects (untyped walk, for arguments)."""
    out = {} if out is None else out
    seen = set() if seen is None else seen
    if id(o) in seen:
        return out
    seen.add(id(o))
    if isinstance(o, MUTABLE) or _is_model_instance(o):
        out[id(o)] = o
    if isinstance(o, dict):
        for k, v in o.items():
            all_mutable_ids(k, out, seen)
            all_mutable_ids(v, out, seen)
    elif isinstance(o, (list, tuple, set, frozenset, collections.deque)):
        for x in o:
            all_mutable_ids(x, out, seen)
    elif isinstance(o, (codec.CustomMapping,)):
        all_mutable_ids(o._d, out, seen)
    elif _is_model_instance(o):
        for name in _field_names(o):
            all_mutable_ids(getattr(o, name, None), out, seen)
    return out


def _is_model_instance(o):
    return (dataclasses.is_dataclass(o) and not isinstance(o, type)) or hasattr(type(o), "__attrs_attrs__")


def _field_names(o):
    if dataclasses.is_dataclass(o):
        return [f.name for f in dataclasses.fields(o)]
    return [a.name for a in type(o).__attrs_attrs__]


def typed_ids(spec, o, e, out, *, dumped: bool):  # noqa: C901, PLR0912
    """ids of mutable containers that adaptix must have built itself: type-directed walk that stops at Any/object."""
    s = tspec.strip(spec)
    tag = s[0]
    if tag in ("any", "object") or o is None:
        return
    if tag == "ref":
        s = ["model", e.specs[s[1]]]
        tag = "model"
    if isinstance(o, MUTABLE) or _is_model_instance(o):
        out[id(o)] = o
    if tag in ("list", "set", "frozenset", "vtuple", "deque", "abc"):
        inner = s[2] if tag == "abc" else s[1]
        if isinstance(o, (list, tuple, set, frozenset, collections.deque)):
            for x in o:
                typed_ids(inner, x, e, out, dumped=dumped)
    elif tag == "tuple":
        if isinstance(o, (list, tuple)):
            for ts, x in zip(s[1], o):
                typed_ids(ts, x, e, out, dumped=dumped)
    elif tag in ("dict", "mapping", "mutablemapping", "defaultdict"):
        if isinstance(o, dict):
            for k, v in o.items():
                typed_ids(s[1], k, e, out, dumped=dumped)
                typed_ids(s[2], v, e, out, dumped=dumped)
    elif tag == "optional":
        typed_ids(s[1], o, e, out, dumped=dumped)
    elif tag == "union":
        if not dumped:
            try:
                case = tspec.union_case_for_value(s, o, e)
            except LookupError:
                return
            typed_ids(case, o, e, out, dumped=dumped)
    elif tag == "model":
        ms = s[1]
        for f in ms["fields"]:
            if dumped:
                if isinstance(o, dict):
                    k = tspec.model_key(f["n"])
                    if k in o:
                        typed_ids(f["t"], o[k], e, out, dumped=True)
            elif ms["kind"] == "typeddict":
                if isinstance(o, dict) and f["n"] in o:
                    typed_ids(f["t"], o[f["n"]], e, out, dumped=False)
            else:
                typed_ids(f["t"], getattr(o, f["n"], None), e, out, dumped=False)


# --------------------------------------------------------------------------------- strategies
CONVERT_PALETTE = [
    ["dict", ["str"], ["int"], "typing"], ["dict", ["str"], ["list", ["int"], "typing"], "builtin"], ["list", ["int"], "typing"],
    ["set", ["int"], "typing"], ["deque", ["str"]], ["list", ["dict", ["str"], ["int"], "typing"], "typing"],
    ["dict", ["int"], ["optional", ["str"], "optional"], "typing"], ["dict", ["str"], ["dict", ["str"], ["int"], "typing"], "typing"],
    ["list", ["list", ["int"], "typing"], "builtin"], ["frozenset", ["str"], "typing"], ["vtuple", ["int"], "typing"],
]


@st.composite
def st_case(draw):
    what = draw(st.sampled_from(["load", "load", "dump", "dump", "extras", "extras_out", "convert", "convert"]))
    if what == "extras_out":
        return {"what": "extras_out", "how": draw(st.sampled_from(["field_dict", "field_any", "extractor", "two_fields"])),
                "own": draw(st.sampled_from(["all", "some_skipped", "all_skipped", "only_extra"])),
                "nested": draw(st.booleans()), "debug": draw(st.integers(0, 2)),
                "extra": draw(st.lists(st.tuples(st.sampled_from(["u1", "u2", "zz", "k"]),
                                                 st.sampled_from([1, "s", [1, 2], {"$": "d", "v": [["q", [1]]]}])),
                                       max_size=3, unique_by=lambda kv: kv[0]).map(lambda kv: [list(p) for p in kv]))}
    if what == "extras":
        return {"what": "extras", "how": draw(st.sampled_from(["field", "kwargs", "saturator", "two_fields"])),
                "nested": draw(st.booleans()), "debug": draw(st.integers(0, 2)),
                "extra": draw(st.lists(st.tuples(st.sampled_from(["u1", "u2", "zz", "k"]),
                                                 st.sampled_from([1, "s", [1, 2], {"$": "d", "v": [["q", [1]]]}])),
                                       max_size=3, unique_by=lambda kv: kv[0]).map(lambda kv: [list(p) for p in kv]))}
    t = draw(GEN.strategy())
    strict = True if not tspec.lax_safe(t) else draw(st.booleans())
    dbg = draw(st.integers(0, 2))
    if what == "convert":
        if draw(st.integers(0, 2)) == 0:
            # a model made of compound fields only: every field is converted item by item in the twin
            names = draw(st.lists(st.sampled_from(tspec.FIELD_NAMES), min_size=1, max_size=4, unique=True))
            t = ["model", {"name": "M0", "kind": draw(st.sampled_from(["dataclass", "attrs", "namedtuple", "typeddict"])),
                           "fields": [{"n": n, "t": draw(st.sampled_from(CONVERT_PALETTE)), "d": None} for n in names]}]
        else:
            t = draw(GEN.model_root_strategy())
        return {"what": "convert", "t": t, "v": draw(tspec.st_value(t, min_size=1)),
                "wrap": draw(st.lists(st.booleans(), min_size=8, max_size=8)), "dst_kind": draw(st.sampled_from(
                    ["dataclass", "attrs", "namedtuple", "typeddict"]))}
    recipe = draw(st_recipe(t)) if tspec.contains(t, "model") and what == "dump" and False else []
    # non-default representations (flags as lists of names, enums by name, datetimes by timestamp / format)
    provs = draw(st.lists(st.sampled_from(PROVS), min_size=1, max_size=2, unique=True)) \
        if tspec.contains(t, "enum", "datetime", "date", "literal") and draw(st.booleans()) else []
    if what == "dump":
        return {"what": "dump", "t": t, "v": draw(tspec.st_value(t, min_size=draw(st.sampled_from([0, 1])))),
                "strict": strict, "debug": dbg, "recipe": recipe, "provs": provs}
    datum, ops = draw(soup.st_near_valid(t, max_mut=draw(st.sampled_from([0, 0, 0, 1]))))
    return {"what": "load", "t": t, "datum": datum, "ops": ops, "strict": strict, "debug": dbg, "provs": provs}


def _aba_pool():
    """(type spec, strict, A, B): A is accepted by MORE THAN ONE case of the union, B only by a case that is not the first to accept A
    in at least one of the listed name orders; load A, load B, load A again -- "repeating a call with equal arguments gives equal
    results", whatever was loaded in between."""
    def m(name, names):
        return ["model", {"name": name, "kind": "dataclass", "fields": [{"n": n, "t": ["int"], "d": None} for n in names]}]
    d = lambda **kw: {"$": "d", "v": [[k, v] for k, v in kw.items()]}  # noqa: E731
    out = []
    for big, small in (("M0", "M1"), ("M1", "M0")):
        out.append((["union", [m(big, ["a", "b"]), m(small, ["a"])], "typing"], True, d(a=1, b=2), d(a=1)))
        out.append((["union", [m(big, ["a", "b"]), m(small, ["b"])], "typing"], False, d(a=1, b=2), d(b=5)))
    out += [
        (["union", [["int"], ["str"]], "typing"], False, "1", "x"),
        (["union", [["float"], ["str"]], "typing"], False, "1.5", "x"),
        (["union", [["int"], ["float"]], "typing"], False, 1.5, "1.5"),
        (["union", [["bool"], ["str"]], "typing"], False, "a", ""),
        (["union", [["date"], ["datetime"]], "typing"], True, "2024-05-01", "2024-05-01T10:00:00"),
        (["union", [["list", ["int"], "typing"], ["tuple", [["int"], ["int"]], "typing"]], "typing"], True, [1, 2], [1, 2, 3]),
        (["union", [["dict", ["str"], ["int"], "typing"], m("M0", ["a"])], "typing"], True, d(a=1), d(b=1)),
        (["union", [["decimal"], ["str"]], "typing"], True, "1.5", "x"),
        (["union", [["int"], ["decimal"], ["str"]], "typing"], False, "7", "7.5"),
    ]
    return out


ABA_POOL = _aba_pool()


@st.composite
def st_case_aba(draw):
    t, strict, a, b = draw(st.sampled_from(ABA_POOL))
    wrap = draw(st.sampled_from(["bare", "bare", "list", "dict"]))
    if wrap == "list":
        t, a, b = ["list", t, "typing"], [a, a], [b]
    elif wrap == "dict":
        t, a, b = ["dict", ["str"], t, "typing"], {"$": "d", "v": [["k", a]]}, {"$": "d", "v": [["k", b], ["j", b]]}
    return {"what": "load", "t": t, "datum": a, "between": [b] * draw(st.integers(1, 3)), "ops": ["aba", wrap], "strict": strict,
            "debug": draw(st.integers(0, 2)), "provs": []}


def n_mutable_typed(spec):
    return sum(1 for s in tspec.walk(spec) if s[0] in ("list", "dict", "set", "deque", "defaultdict", "mutablemapping",
                                                       "mapping", "model", "bytearray") or
               (s[0] == "abc" and s[1].startswith("Mutable")))


def check_case(ctx: runner.Ctx, case):  # noqa: C901
    what = case["what"]
    if what == "extras":
        return check_extras(ctx, case)
    if what == "extras_out":
        return check_extras_out(ctx, case)
    if what == "convert":
        return check_convert(ctx, case)
    if what == "default_size":
        return check_default_size(ctx, case)
    t = case["t"]
    hint, e = tspec.build_type(t)
    retort = Retort(recipe=build_provs(case.get("provs") or []) + build_recipe(case.get("recipe") or [], e),
                    strict_coercion=case["strict"],
                    debug_trail=DEBUG[case["debug"]])
    try:
        fn = retort.get_loader(hint) if what == "load" else retort.get_dumper(hint)
    except ProviderNotFoundError:
        ctx.count("not_creatable")
        return None
    arg = codec.build(case["datum"] if what == "load" else case["v"], e)
    if what == "dump":
        _move_streams(arg)   # streams in the middle of their content: dumping must neither depend on nor move the position
    before = tspec.canon(arg)
    outs = []
    for _ in range(2):
        try:
            outs.append(("ok", fn(arg)))
        except RecursionError:
            ctx.count("recursion_error_skipped")
            return None
        except BaseException as ex:  # noqa: BLE001
            outs.append(("err", ex))
    after = tspec.canon(arg)
    nmut = n_mutable_typed(t)
    nontrivial = nmut >= 1 and tspec.depth(t) >= 2 and outs[0][0] == "ok"
    ctx.case([case], nontrivial,
             sample={"what": what, "type": tspec.text(t), "input": case.get("datum", case.get("v")), "strict": case["strict"],
                     "debug": case["debug"], "outcome": outs[0][0]},
             labels=[f"what:{what}", f"outcome:{outs[0][0]}", f"mutable_typed_nodes:{min(nmut, 5)}", f"top:{t[0]}",
                     *[f"prov:{p}" for p in case.get("provs") or []]])
    head = f"{what} type={tspec.text(t)} strict={case['strict']} debug={case['debug']} input={case.get('datum', case.get('v'))!r}"
    one_shot = any(isinstance(x, dict) and x.get("$") == "gen" for x in _walk_spec(case.get("datum", case.get("v"))))
    if before != after and not one_shot:
        dd = any(isinstance(x, dict) and x.get("$") == "ddnone" for x in _walk_spec(case.get("datum", case.get("v"))))
        ctx.violation("argument_mutated", (what, t[0], *(["defaultdict_input"] if dd and what == "load" else [])), case,
                      f"{head}: before={before!r} after={after!r}")
    if outs[0][0] != outs[1][0]:
        if not one_shot:
            ctx.violation("repeat_outcome_differs", (what,), case, f"{head}: first {outs[0]!r}, second {outs[1]!r}")
        return None
    if outs[0][0] == "err":
        return None
    r1, r2 = outs[0][1], outs[1][1]
    if what == "load" and case.get("between"):
        for spec in case["between"]:
            try:
                fn(codec.build(spec, e))
            except Exception:  # noqa: BLE001, S110
                pass
        try:
            r3 = ("ok", fn(arg))
        except Exception as ex:  # noqa: BLE001
            r3 = ("err", ex)
        if r3[0] != "ok" or not tspec.canon_eq(r1, r3[1]):
            ctx.violation("repeat_result_differs_after_other_calls", (t[0], case["ops"][-1] if case.get("ops") else "-"), case,
                          f"{head}: first {r1!r}; after loading {case['between']!r} the same loader gives {r3!r}")
    same = tspec.dumped_eq(t, r1, r2, e) if what == "dump" else tspec.canon_eq(r1, r2)
    if not same and not one_shot:
        ctx.violation("repeat_result_differs", (what, t[0]), case, f"{head}: first {r1!r}, second {r2!r}")
    ids1, ids2 = {}, {}
    typed_ids(t, r1, e, ids1, dumped=(what == "dump"))
    typed_ids(t, r2, e, ids2, dumped=(what == "dump"))
    arg_ids = all_mutable_ids(arg)
    if what == "dump":
        # a dumped value is plain data; model instances / typed containers of the argument must not appear in it
        pass
    for name, a, b in (("result1~result2", ids1, ids2), ("result1~argument", ids1, arg_ids), ("result2~argument", ids2, arg_ids)):
        shared = set(a) & set(b)
        if shared:
            obj = a[next(iter(shared))]
            ctx.violation("mutable_container_shared", (what, name, type(obj).__name__), case,
                          f"{head}: {name} share {type(obj).__name__} {obj!r}")
    return None


def _move_streams(o, depth=0):
    import io  # noqa: PLC0415
    if depth > 8:
        return
    if isinstance(o, io.BytesIO):
        o.seek(len(o.getvalue()) // 2)
    elif isinstance(o, dict):
        for x in o.values():
            _move_streams(x, depth + 1)
    elif isinstance(o, (list, tuple, set, frozenset, collections.deque)):
        for x in o:
            _move_streams(x, depth + 1)
    elif _is_model_instance(o):
        for n in _field_names(o):
            _move_streams(getattr(o, n, None), depth + 1)


def _walk_spec(v):
    yield v
    if isinstance(v, list):
        for x in v:
            yield from _walk_spec(x)
    elif isinstance(v, dict):
        for x in v.values():
            yield from _walk_spec(x)


# --------------------------------------------------------------------------------- collected extras
@dataclasses.dataclass
class WithExtraField:
    a: int
    b: typing.List[int]
    extra: typing.Dict[str, typing.Any]


@dataclasses.dataclass
class WithTwoExtra:
    a: int
    b: typing.List[int]
    extra: typing.Dict[str, typing.Any]
    extra2: typing.Dict[str, typing.Any]


class WithKwargs:
    def __init__(self, a: int, b: typing.List[int], **kwargs):
        self.a, self.b, self.kwargs = a, b, kwargs


@dataclasses.dataclass
class Saturated:
    a: int
    b: typing.List[int]


def check_extras(ctx: runner.Ctx, case):  # noqa: C901
    how = case["how"]
    received = []
    nested_map = {"b": ("inner", "b")} if case["nested"] else {}
    if how == "field":
        cls, prov = WithExtraField, name_mapping(WithExtraField, extra_in="extra", map=nested_map)
    elif how == "two_fields":
        cls, prov = WithTwoExtra, name_mapping(WithTwoExtra, extra_in=["extra", "extra2"], map=nested_map)
    elif how == "kwargs":
        cls, prov = WithKwargs, name_mapping(WithKwargs, extra_in=ExtraKwargs(), map=nested_map)
    else:
        cls = Saturated

        def saturate(obj, extra):
            received.append(extra)
        prov = name_mapping(Saturated, extra_in=saturate, map=nested_map)
    retort = Retort(recipe=[prov], debug_trail=DEBUG[case["debug"]])
    datum = {"a": 1, **({"inner": {"b": [1, 2]}} if case["nested"] else {"b": [1, 2]})}
    for k, v in case["extra"]:
        datum[k] = codec.build(v)
    before = tspec.canon(datum)
    res = []
    for _ in range(2):
        res.append(retort.load(datum, cls))
    ctx.case(["extras", case], bool(case["extra"]),
             sample={"what": "extras", **case}, labels=["what:extras", f"extras:{how}", f"nested:{case['nested']}"])
    head = f"extras how={how} nested={case['nested']} debug={case['debug']} datum={datum!r}"
    if tspec.canon(datum) != before:
        ctx.violation("argument_mutated", ("extras", how), case, f"{head}: input mutated to {datum!r}")

    def extras_of(obj, i):
        if how == "field":
            return [obj.extra]
        if how == "two_fields":
            return [obj.extra, obj.extra2]
        if how == "kwargs":
            return [obj.kwargs]
        return [received[i]]
    ex1, ex2 = extras_of(res[0], 0), extras_of(res[1], 1)
    input_maps = [v for v in all_mutable_ids(datum).values() if isinstance(v, dict)]
    for m in ex1 + ex2:
        if any(m is im for im in input_maps):
            ctx.violation("extra_mapping_is_input_mapping", (how, f"nested:{case['nested']}"), case,
                          f"{head}: the collected extra mapping is an object of the input datum")
    for a in ex1:
        for b in ex2:
            if a is b:
                ctx.violation("extra_mapping_shared_between_calls", (how,), case, f"{head}: same mapping object in two results")
    if how == "two_fields" and res[0].extra is res[0].extra2:
        ctx.violation("extra_mapping_shared_between_fields", (how,), case, f"{head}: one mapping object given to two target fields")
    if res[0].b is res[1].b or res[0].b is (datum["inner"]["b"] if case["nested"] else datum["b"]):
        ctx.violation("mutable_container_shared", ("extras", "list_field"), case, f"{head}: loaded list shared")


# --------------------------------------------------------------------------------- extras merged into a dump (extra_out)
@dataclasses.dataclass
class OutAny:
    a: int
    b: typing.List[int]
    extra: typing.Any


@dataclasses.dataclass
class OnlyExtraDict:
    extra: typing.Dict[str, typing.Any]


@dataclasses.dataclass
class OnlyExtraAny:
    extra: typing.Any


def check_extras_out(ctx: runner.Ctx, case):  # noqa: C901, PLR0912
    """The dict a model dumper returns is built by adaptix (own keys merged with the extra data): it is a new object in every
    call and no object of the dumped value, whatever the extra source hands out and however few own keys the model has."""
    how, own = case["how"], case["own"]
    extra = {k: codec.build(v) for k, v in case["extra"]}
    extra2 = {"w": [1]}
    if own == "only_extra":
        if how in ("two_fields",):
            how = "field_dict"
        cls = OnlyExtraAny if how == "field_any" else OnlyExtraDict
        obj = cls(extra)
        kw = {}
    else:
        cls = {"field_dict": WithExtraField, "extractor": WithExtraField, "field_any": OutAny, "two_fields": WithTwoExtra}[how]
        obj = cls(1, [1, 2], extra, extra2) if how == "two_fields" else cls(1, [1, 2], extra)
        kw = {}
        if case["nested"] and own != "all_skipped":
            kw["map"] = {"b": ("inner", "b")}
        if own == "some_skipped":
            kw["skip"] = ["a"]
        elif own == "all_skipped":
            kw["skip"] = ["a", "b"]
    if how == "extractor":
        # the extractor hands out the mapping stored in the object (a live mapping): documented signature obj -> mapping
        prov = name_mapping(cls, extra_out=lambda o: o.extra, **{**kw, "skip": [*kw.get("skip", []), "extra"]})
    elif how == "two_fields":
        prov = name_mapping(cls, extra_out=["extra", "extra2"], **kw)
    else:
        prov = name_mapping(cls, extra_out="extra", **kw)
    retort = Retort(recipe=[prov], debug_trail=DEBUG[case["debug"]])
    before = tspec.canon(obj)
    r1 = retort.dump(obj)
    keep = copy.deepcopy(r1)
    r2 = retort.dump(obj)
    ctx.case(["extras_out", case], bool(case["extra"]) or own in ("all_skipped", "only_extra"),
             sample={"what": "extras_out", **case},
             labels=["what:extras_out", f"extras_out:{how}", f"own:{own}", f"nested:{case['nested']}"])
    head = f"extras_out how={how} own={own} nested={case['nested']} debug={case['debug']} obj={obj!r}"
    if tspec.canon(obj) != before:
        ctx.violation("argument_mutated", ("extras_out", how), case, f"{head}: object mutated by dump")
    if not isinstance(r1, dict) or not isinstance(r2, dict):
        ctx.violation("dump_form", ("extras_out", type(r1).__name__), case, f"{head}: dumped {r1!r}")
        return
    if r1 is r2:
        ctx.violation("mutable_container_shared", ("extras_out", "result1~result2", own), case,
                      f"{head}: two dumps returned the same dict object")
    if any(r1 is m for m in all_mutable_ids(obj).values()):
        ctx.violation("mutable_container_shared", ("extras_out", "result~argument", own), case,
                      f"{head}: the dumped dict is an object of the dumped value")
    if r1 != r2:
        ctx.violation("repeat_result_differs", ("extras_out", how), case, f"{head}: {r1!r} then {r2!r}")
    # a caller edits the first document in place: neither the object nor a later dump may change
    r1["__edited__"] = 1
    if tspec.canon(obj) != before:
        ctx.violation("argument_mutated", ("extras_out", "by_editing_the_result", own), case,
                      f"{head}: editing the dumped dict changed the object")
    r3 = retort.dump(obj)
    if r3 != keep:
        ctx.violation("repeat_result_differs", ("extras_out", "after_result_was_edited", own), case,
                      f"{head}: {keep!r} then {r3!r}")


# --------------------------------------------------------------------------------- converters
def twin_spec(ms, wrap, dst_kind, counter):
    """Destination twin of a model spec: other kind, fresh names, some field types wrapped into Optional."""
    fields = []
    for f in ms["fields"]:
        ft = f["t"]
        if ft[0] == "model":
            ft = ["model", twin_spec(ft[1], wrap, dst_kind, counter)]
        elif ft[0] == "list" and ft[1][0] == "model":
            ft = ["list", ["model", twin_spec(ft[1][1], wrap, dst_kind, counter)], ft[2] if len(ft) > 2 else "typing"]
        elif wrap[counter[0] % len(wrap)] and ft[0] in ("list", "set", "frozenset", "deque", "vtuple") and \
                tspec.strip(ft[1])[0] not in ("optional", "none", "any", "object", "union", "model") and \
                "none" not in tspec.shapes(ft[1], True) and not tspec.contains(ft, "ref"):
            # same container kind, other element type: converted element-wise ("builtin iterable"), container must be new
            ft = [ft[0], ["optional", ft[1], "optional"], *ft[2:]]
        elif wrap[counter[0] % len(wrap)] and ft[0] == "dict" and not tspec.contains(ft, "ref") and \
                tspec.strip(ft[2])[0] not in ("any", "object"):
            # "source and destination types are dict": converted item by item, the mapping must be new.  Two variants:
            # other value type (Optional[V]) when V allows it, else the same items under the abstract origin Mapping
            if tspec.strip(ft[2])[0] not in ("optional", "none", "union", "model") and "none" not in tspec.shapes(ft[2], True) \
                    and counter[0] % 2 == 0:
                ft = ["dict", ft[1], ["optional", ft[2], "optional"], *ft[3:]]
            else:
                ft = ["mapping", ft[1], ft[2]]
        elif wrap[counter[0] % len(wrap)] and ft[0] not in ("optional", "none", "any", "object", "union") and \
                "none" not in tspec.shapes(ft, True) and not tspec.contains(ft, "ref"):
            ft = ["optional", ft, "optional"]
        counter[0] += 1
        fields.append({"n": f["n"], "t": ft, "d": None})
    kind = dst_kind if ms["kind"] != dst_kind else ("dataclass" if dst_kind != "dataclass" else "attrs")
    return {"name": "D" + ms["name"], "kind": kind, "fields": fields}


def check_convert(ctx: runner.Ctx, case):
    t = case["t"]
    if tspec.contains(t, "ref"):
        ctx.count("convert_skipped_recursive")
        return
    if any(s[0] == "model" and s[1]["kind"] == "typeddict" and any(f.get("d") for f in s[1]["fields"]) for s in tspec.walk(t)):
        ctx.count("convert_skipped_notrequired_source_key")  # absent NotRequired key -> required field: not C20's subject
        return
    src_hint, e = tspec.build_type(t)
    dst_spec = ["model", twin_spec(t[1], case["wrap"], case["dst_kind"], [0])]
    # same environment: the enum / NewType / alias classes of the source are the destination's too (the twin models
    # have names of their own), otherwise every field mentioning one of them is a pair of unrelated classes
    src_hint, e = tspec.build_type(t, cache=False)
    dst_hint, e2 = tspec.build_type(dst_spec, env=e)
    try:
        conv = get_converter(src_hint, dst_hint)
    except ProviderNotFoundError:
        ctx.count("converter_not_creatable")
        return
    except Exception:  # noqa: BLE001  -- creation crashing with another exception is C14's subject
        ctx.count("converter_creation_crashed_left_to_C14")
        return
    src = codec.build(case["v"], e)
    before = tspec.canon(src)
    try:
        r1, r2 = conv(src), conv(src)
    except Exception as ex:  # noqa: BLE001
        ctx.violation("convert_failed", (type(ex).__name__, exc_site(ex)), case, f"convert {tspec.text(t)}: {describe(ex)}")
        return
    ctx.case(["convert", case], True, sample={"what": "convert", "src": tspec.text(t), "dst": tspec.text(dst_spec), "value": case["v"]},
             labels=["what:convert", f"dst_kind:{dst_spec[1]['kind']}", f"src_kind:{t[1]['kind']}"])
    head = f"convert {tspec.text(t)} -> {tspec.text(dst_spec)} value={case['v']!r}"
    if tspec.canon(src) != before:
        ctx.violation("argument_mutated", ("convert", t[1]["kind"]), case, f"{head}: source mutated")
    if not tspec.canon_eq(r1, r2):
        ctx.violation("repeat_result_differs", ("convert",), case, f"{head}: {r1!r} vs {r2!r}")
    if r1 is r2 or r1 is src:
        ctx.violation("mutable_container_shared", ("convert", "result_object"), case, f"{head}: result object not fresh")
    # element-wise converted positions (types differ): containers must be new
    for fs, fd in zip(t[1]["fields"], dst_spec[1]["fields"]):
        if fs["t"] != fd["t"] and fd["t"][0] in ("list", "model", "set", "deque", "dict", "mapping"):
            def get(o, n, ms):
                return o[n] if ms["kind"] == "typeddict" else getattr(o, n)
            a, b, s = get(r1, fd["n"], dst_spec[1]), get(r2, fd["n"], dst_spec[1]), get(src, fs["n"], t[1])
            if isinstance(a, MUTABLE) or _is_model_instance(a):
                if a is b or a is s:
                    ctx.violation("mutable_container_shared", ("convert", f"field:{fd['t'][0]}"), case,
                                  f"{head}: converted field {fd['n']} shares its container")


DEFAULTDICT_PROBE = {
    "what": "load", "strict": True, "debug": 2, "ops": ["probe"], "provs": [],
    "t": ["model", {"name": "M0", "kind": "dataclass", "fields": [{"n": "a", "t": ["int"], "d": None}, {"n": "b", "t": ["optional", ["int"], "optional"], "d": None}]}],
    "datum": {"$": "ddnone", "v": [["a", 1]]},
}


# ----------------------------------------------------------------- mutable default VALUES: sharing must not depend on their size
DEFAULT_SIZES = [0, 1, 3, 16, 31, 32, 33, 40, 64, 100, 257, 1000]
DEFAULT_SHAPES = ["list", "set", "dict", "list_in_tuple", "list_of_lists"]
DEFAULT_KINDS = ["namedtuple", "attrs", "plain_init"]


def default_size_cases():
    for shape in DEFAULT_SHAPES:
        for kind in DEFAULT_KINDS:
            for dbg in (0, 1, 2):
                yield {"what": "default_size", "shape": shape, "kind": kind, "debug": dbg}


def _default_of(shape, n):
    if shape == "list":
        return list(range(n))
    if shape == "set":
        return set(range(n))
    if shape == "dict":
        return {str(i): i for i in range(n)}
    if shape == "list_in_tuple":
        return (1, list(range(n)))
    return [list(range(n)), [1]]


def check_default_size(ctx, case):
    """A mutable container given as a plain default VALUE (not a factory) of a field that the input omits.  Whether two loads may return
    the very same object is the model's business for Python (the class shares it too) -- but the answer cannot depend on how many
    elements the container has: adaptix either rebuilds such defaults per load or hands the declared object over."""
    import attr  # noqa: PLC0415
    answers = {}
    for n in DEFAULT_SIZES:
        dv = _default_of(case["shape"], n)
        if case["kind"] == "namedtuple":
            cls = typing.NamedTuple("DSz", [("a", int), ("x", typing.Any)])
            cls.__new__.__defaults__ = (dv,)
            cls._field_defaults = {"x": dv}
        elif case["kind"] == "attrs":
            cls = attr.make_class("DSz", {"a": attr.ib(type=int), "x": attr.ib(type=typing.Any, default=dv)})
        else:
            def __init__(self, a: int, x: typing.Any = dv):  # noqa: N807
                self.a, self.x = a, x
            cls = type("DSz", (), {"__init__": __init__})
        retort = Retort(debug_trail=DEBUG[case["debug"]])
        try:
            r1, r2 = retort.load({"a": 1}, cls), retort.load({"a": 1}, cls)
        except Exception as ex:  # noqa: BLE001
            ctx.violation("default_size_load_failed", (case["shape"], case["kind"], type(ex).__name__), case,
                          f"{case} n={n}: load raised {describe(ex)}")
            return
        x1, x2 = r1.x, r2.x
        if x1 != dv or x2 != dv:
            ctx.violation("default_size_value_wrong", (case["shape"], case["kind"]), case, f"{case} n={n}: loaded {x1!r}, declared {dv!r}")
            return
        inner1 = x1[1] if case["shape"] == "list_in_tuple" else x1
        inner2 = x2[1] if case["shape"] == "list_in_tuple" else x2
        answers[n] = (inner1 is inner2, inner1 is (dv[1] if case["shape"] == "list_in_tuple" else dv))
    ctx.case(["default_size", case], True, sample={**case, "shared_between_loads_by_size": {str(k): v[0] for k, v in answers.items()}},
             labels=["what:default_size", f"shape:{case['shape']}"])
    if len(set(answers.values())) > 1:
        ctx.violation("default_sharing_depends_on_size", (case["shape"], case["kind"]), case,
                      f"{case}: (two loads return the same object, it is the declared default object) by number of elements: {answers}")


def explore(ctx: runner.Ctx):
    for i, c in enumerate(default_size_cases()):
        if i % ctx.nshards == ctx.shard:
            runner.guarded(ctx, lambda k: check_case(ctx, k), c)
    ctx.given(st_case_aba(), lambda c: check_case(ctx, c), ctx.budget(400, 20000), seed_offset=3)
    if ctx.shard == 0:
        # open known finding C20-defaultdict-input-mutated: probed by one fixed case, never generated (the generated mappings
        # are dicts and harness-defined mapping classes without a default factory)
        runner.guarded(ctx, lambda c: check_case(ctx, c), DEFAULTDICT_PROBE)
    ctx.given(st_case(), lambda c: check_case(ctx, c), ctx.budget(7000, 300000))


RULE = ("cases = load (near-valid dump, 0-1 mutations) / dump (canonical value) / collected-extras / convert over generated "
        "types and models; every call is made twice on the same argument object. Non-trivial = the type has >= 1 typed "
        "mutable node (list/dict/set/deque/model...) and depth >= 2 and the call succeeded (extras: >= 1 unknown key).")

if __name__ == "__main__":
    raise SystemExit(runner.main(
        PROP, explore=explore, check_case=check_case, strategy=st.one_of(st_case(), st_case_aba()), rule=RULE,
        assumptions=["sub-objects below Any/object positions are passed as is (documented) and excluded from the alias scan",
                     "converter: same-type fields are passed as is (documented); only element-wise coerced containers and "
                     "model instances must be fresh",
                     "one-shot inputs (generators, BytesIO read position) are exempt from before/after and repeat checks"],
    ))
