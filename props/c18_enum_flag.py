"""C18 -- Enum and Flag representations are bijections on their members.

Generated: enum / flag classes (pure-data specs, built with the functional Enum API plus an optional
``_missing_``) x representation provider x options.  Per (class, provider) the check enumerates
*exhaustively* every member, every OR-combination of flag members (2^n, n <= 6) and a candidate set of
representations (all dumped forms + mutations).

Oracle (DESIGN.md C18):
  * creation of loader and dumper succeeds unless the docs exclude the class
    (flag_by_exact_value: skipped bits / negative values -> ProviderNotFoundError, nothing else);
  * load(dump(m)) is m (flags: ==, same class); dump is injective on distinct members/values;
  * three-valued acceptance reference derived from the provider docstrings:
    must-accept -> loads to the expected member; must-reject -> raises LoadError (any other exception
    is a violation too); unspecified -> counted only.
"""
from __future__ import annotations

import collections
import collections.abc
import dataclasses
import enum
import itertools
import types
import typing
from decimal import Decimal

from vkit import env, runner
from vkit.errors import describe, exc_site

env.import_adaptix()

from hypothesis import strategies as st  # noqa: E402

from adaptix import (  # noqa: E402
    DebugTrail,
    NameStyle,
    ProviderNotFoundError,
    Retort,
    enum_by_exact_value,
    enum_by_name,
    enum_by_value,
    flag_by_exact_value,
    flag_by_member_names,
)
from adaptix.load_error import LoadError  # noqa: E402

PROP = "C18"
DEBUG = [DebugTrail.DISABLE, DebugTrail.FIRST, DebugTrail.ALL]

NAMES = ["A", "B", "C", "D", "E", "F", "RED", "GREEN", "BLUE", "DARK_RED", "X_1", "none", "Lower_case",
         "mixedCase", "WHITE", "AB", "A_B", "Z9", "ÜBER"]

# ----------------------------------------------------------------------------------- reference name style
_SEP = {"SNAKE": "_", "KEBAB": "-", "DOT": ".", "": ""}


def ref_style(name: str, style: NameStyle) -> str:
    """Independent transcription of the documented naming conventions for a simple snake-case name
    (words separated by single underscores, no leading/trailing underscore)."""
    kind, _, sepname = style.name.partition("_")
    words = name.split("_")

    def cap(w):
        return w[:1].upper() + w[1:].lower()
    if kind == "LOWER":
        ws = [w.lower() for w in words]
    elif kind == "UPPER":
        ws = [w.upper() for w in words]
    elif kind == "CAMEL":
        ws = [words[0].lower()] + [cap(w) for w in words[1:]]
    else:
        ws = [cap(w) for w in words]
    return _SEP[sepname].join(ws)


def _title_safe(name: str) -> bool:
    # str.title() (used by adaptix) and the reference `cap` differ on words containing digits followed by
    # letters ("x1a" -> "X1A"); such names are not generated (no doc sentence fixes either reading).
    return all(w.isalpha() or (w[:1].isalpha() is False and w.isdigit()) or w.isalnum() and not any(
        w[i].isdigit() and w[i + 1].isalpha() for i in range(len(w) - 1)) for w in name.split("_"))


# ----------------------------------------------------------------------------------- class construction
def _val(vs):
    """value spec -> python value"""
    if isinstance(vs, list):
        tag = vs[0]
        if tag == "dec":
            return Decimal(vs[1])
        if tag == "list":
            return [_val(x) for x in vs[1]]
        if tag == "tuple":
            return tuple(_val(x) for x in vs[1])
        if tag == "float":
            return float(vs[1])
        raise ValueError(vs)
    return vs


_BASES = {
    "Enum": (enum.Enum,),
    "IntEnum": (enum.IntEnum,),
    "StrEnum": (enum.StrEnum,),
    "str_Enum": (str, enum.Enum),
    "int_Enum": (int, enum.Enum),
    "Flag": (enum.Flag,),
    "IntFlag": (enum.IntFlag,),
}

_counter = itertools.count()


def build_class(spec, inherit_missing=False):
    """``inherit_missing``: the ``_missing_`` hook lives in a member-less base enum instead of the class body."""
    bases = _BASES[spec["base"]]
    hook = None
    if spec.get("missing"):
        first = spec["members"][0][0]

        def _missing_(cls, value, _first=first):
            if value == "__missing__":
                return cls[_first]
            return None
        hook = classmethod(_missing_)
        if inherit_missing:
            bns = enum.EnumMeta.__prepare__(f"EB{next(_counter)}", bases)
            bns["_missing_"] = hook
            bases = (enum.EnumMeta(f"EB{next(_counter)}", bases, bns),)
    ns = enum.EnumMeta.__prepare__(f"E{next(_counter)}", bases)
    for name, vs in spec["members"]:
        ns[name] = _val(vs)
    if hook is not None and not inherit_missing:
        ns["_missing_"] = hook
    if spec["base"] in ("Flag", "IntFlag") and spec.get("boundary"):
        return enum.EnumMeta(f"E{next(_counter)}", bases, ns, boundary=getattr(enum, spec["boundary"]))
    return enum.EnumMeta(f"E{next(_counter)}", bases, ns)


# ----------------------------------------------------------------------------------- strategies
@st.composite
def st_names(draw, n):
    return draw(st.lists(st.sampled_from(NAMES), min_size=n, max_size=n, unique=True))


@st.composite
def st_enum_spec(draw):
    base = draw(st.sampled_from(["Enum", "Enum", "IntEnum", "StrEnum", "str_Enum", "int_Enum"]))
    n = draw(st.integers(1, 5))
    names = draw(st_names(n))
    if base in ("IntEnum", "int_Enum"):
        pool = st.sampled_from([0, 1, 2, 3, -1, 10, 255, 2 ** 40])
    elif base in ("StrEnum", "str_Enum"):
        # values that coincide with (other) member names: `map` keys may be names or members, and a str-mixin member
        # is equal to its value
        pool = st.one_of(st.sampled_from(["a", "b", "A", "", "x y", "1", "True", "none", "é"]), st.sampled_from(names),
                         st.sampled_from(NAMES[:8]))
    else:
        pool = st.one_of(
            st.sampled_from([0, 1, 2, "a", "b", "1", None, True, False, 1.5, ("dec", "1.5"), ("dec", "1")]),
            st.sampled_from([["list", [1, 2]], ["list", []], ["tuple", [1, 2]], ["list", ["a"]]]),
        )
    values = [draw(pool) for _ in range(n)]
    values = [list(v) if isinstance(v, tuple) else v for v in values]
    # Python itself merges equal values into aliases (1/True/1.0 are equal) -- that is intended coverage
    missing = draw(st.booleans()) if draw(st.integers(0, 3)) == 0 else False
    return {"base": base, "members": [[a, b] for a, b in zip(names, values)], "missing": missing}


@st.composite
def st_flag_spec(draw):
    base = draw(st.sampled_from(["Flag", "IntFlag"]))
    nbits = draw(st.integers(1, 5))
    names = draw(st_names(6 + 3))
    members = []
    shape = draw(st.sampled_from(["contiguous", "contiguous", "contiguous", "skipped", "multibit_only"]))
    bits = list(range(nbits))
    if shape == "skipped" and nbits >= 2:
        drop = draw(st.integers(0, nbits - 2))
        bits = [b for b in bits if b != drop]
    # one flag class in three has its top bit far away from the others (values beyond 32 / 53 / 64 bits)
    high = draw(st.sampled_from([None, None, None, None, 31, 52, 53, 54, 63, 64, 100]))
    if high is not None and len(bits) >= 2:
        bits[-1] = high
    it = iter(names)
    if shape == "multibit_only" and nbits >= 3:
        # bits 1 and 2 are only reachable through one multi-bit member
        members.append([next(it), 1])
        members.append([next(it), 6])
        for b in bits[3:]:
            members.append([next(it), 1 << b])
    else:
        for b in bits:
            members.append([next(it), 1 << b])
    if draw(st.booleans()):  # zero-valued member
        pos = draw(st.integers(0, len(members)))
        members.insert(pos, [next(it), 0])
    singles = [v for _, v in members if v]
    ncomp = draw(st.integers(0, 2))
    for _ in range(ncomp):
        if len(singles) >= 2:
            k = draw(st.integers(2, len(singles)))
            chosen = draw(st.lists(st.sampled_from(singles), min_size=k, max_size=k, unique=True))
            v = 0
            for c in chosen:
                v |= c
            if all(v != mv for _, mv in members):
                members.append([next(it), v])
    if draw(st.integers(0, 5)) == 0 and len(members) >= 2:  # alias
        members.append([next(it), members[0][1]])
    return {"base": base, "members": members, "missing": False}


def st_style():
    return st.one_of(st.none(), st.sampled_from([s.name for s in NameStyle]))


@st.composite
def st_case(draw):
    is_flag = draw(st.booleans())
    spec = draw(st_flag_spec() if is_flag else st_enum_spec())
    names = [n for n, _ in spec["members"]]
    if is_flag:
        kind = draw(st.sampled_from(["flag_exact", "flag_names", "flag_names", "flag_names"]))
    else:
        kind = draw(st.sampled_from(["exact", "by_name", "by_name", "by_value"]))
    prov = {"kind": kind}
    if kind in ("by_name", "flag_names"):
        prov["name_style"] = draw(st_style())
        nmap = {}
        if draw(st.booleans()):
            for n in draw(st.lists(st.sampled_from(names), min_size=1, max_size=3, unique=True)):
                nmap[n] = [draw(st.sampled_from(["name", "member"])),
                           draw(st.sampled_from(["m1", "m2", "m 3", "", "A", "B"]))]
        prov["map"] = nmap
    if kind == "flag_names":
        prov["allow_single_value"] = draw(st.booleans())
        prov["allow_duplicates"] = draw(st.booleans())
        prov["allow_compound"] = draw(st.booleans())
    if kind == "by_value":
        prov["tp"] = draw(st.sampled_from(["auto", "auto", "int", "str", "Decimal"]))
    # the provider may be bound by several predicates at once (the class under test first, in the middle or last)
    prov["multi"] = draw(st.sampled_from([None, None, 0, 1, 2]))
    if kind == "exact" and prov["multi"] is not None:
        prov["explicit"] = True
    return {"cls": spec, "prov": prov, "strict": draw(st.booleans()), "debug": draw(st.integers(0, 2))}


class _OtherEnumA(enum.Enum):
    P = "p"


class _OtherEnumB(enum.Enum):
    Q = 7


class _OtherFlagA(enum.Flag):
    P = 1


class _OtherFlagB(enum.Flag):
    Q = 1
    R = 2


def _preds(cls, prov):
    """The predicates the provider is bound by: the class alone, or together with two unrelated classes."""
    pos = prov.get("multi")
    if pos is None:
        return [cls]
    others = [_OtherFlagA, _OtherFlagB] if issubclass(cls, enum.Flag) else [_OtherEnumA, _OtherEnumB]
    others.insert(pos, cls)
    return others


# ----------------------------------------------------------------------------------- provider + reference
def canonical_members(cls):
    return list(cls)  # definition order, aliases excluded (Flag: only canonical single/multi-bit, 3.11+: no 0/compound?)


def all_named(cls):
    """(name, member) for every non-alias name, incl. zero and compound flag members."""
    out = []
    seen = set()
    for name, m in cls.__members__.items():
        if m.name == name and id(m) not in seen:
            seen.add(id(m))
            out.append((name, m))
    return out


def mapped_names(cls, prov, members):
    """member -> outer name according to the documented precedence map (by member / by name) > name_style > name."""
    style = NameStyle[prov["name_style"]] if prov.get("name_style") else None
    res = {}
    by_canonical = {}
    for key_name, (how, target) in prov.get("map", {}).items():
        if how == "member":
            by_canonical.setdefault(cls[key_name].name, []).append(target)  # an alias denotes the same member
        elif cls[key_name].name == key_name:
            by_canonical.setdefault(key_name, []).append(target)
        # a *string* key naming an alias matches no member name: documented keys are "member names"
    for name, m in members:
        ent = by_canonical.get(name)
        if ent is not None:
            if len(ent) > 1:
                return None  # same member mapped twice (by name and by instance): precedence is not documented
            res[name] = ent[0]
        elif style is not None:
            res[name] = ref_style(name, style)
        else:
            res[name] = name
    return res


class MapKeysCollide(Exception):
    pass


def make_provider(cls, prov):
    k = prov["kind"]
    preds = _preds(cls, prov)
    if k == "exact":
        return enum_by_exact_value(*preds) if prov.get("explicit", True) else None
    if k == "flag_exact":
        return flag_by_exact_value(*preds)
    if k in ("by_name", "flag_names"):
        style = NameStyle[prov["name_style"]] if prov.get("name_style") else None
        nmap = {}
        for name, (how, target) in prov.get("map", {}).items():
            nmap[cls[name] if how == "member" else name] = target
        if len(nmap) != len(prov.get("map", {})):
            # a str-mixin member equals its value: a member key and a string key of the user's dict collapsed into one
            # entry before adaptix ever sees the mapping -- not a configuration adaptix can honour
            raise MapKeysCollide
        if k == "by_name":
            return enum_by_name(*preds, name_style=style, map=nmap or None)
        return flag_by_member_names(
            *preds, allow_single_value=prov["allow_single_value"], allow_duplicates=prov["allow_duplicates"],
            allow_compound=prov["allow_compound"], name_style=style, map=nmap or None,
        )
    if k == "by_value":
        return enum_by_value(*preds, tp=_value_tp(cls, prov))
    raise ValueError(k)


def _value_tp(cls, prov):
    tp = prov["tp"]
    if tp == "auto":
        types = {type(m.value) for m in cls}
        if len(types) == 1:
            return next(iter(types))
        return object
    return {"int": int, "str": str, "Decimal": Decimal}[tp]


def is_power_of_two(v):
    return v > 0 and v & (v - 1) == 0


SOUP = [None, True, False, 0, 1, 2, -1, 7, 255, 2 ** 70, 1.0, 0.0, 1.5, float("nan"), "", "a", "A", "b", "1",
        "__missing__", "RED", "red", b"a", (), [], {}, [1], ["a"], ["A"], ("A",), {"A": 1}, {"A"}, [[]], [None],
        Decimal("1"), Decimal("1.5"), 1 + 0j, object(), ["A", ["B"]], [{}], "A,B", ["A", 1]]


def mut_name(s):
    out = {s.lower(), s.upper(), s + "_", " " + s, s[:-1], s.swapcase()}
    out.discard(s)
    return out


# ----------------------------------------------------------------------------------- the oracle
def check_shared_case(ctx: runner.Ctx, case):
    """One provider instance (no class predicate) in one retort serves TWO classes whose members have pairwise equal
    values (mixed-in members hash and compare by value): each class must keep its own names and members."""
    specs = [case["cls"], case["cls2"]]
    try:
        classes = [build_class(sp) for sp in specs]
    except Exception:  # noqa: BLE001
        ctx.count("class_rejected_by_python")
        return
    prov = case["prov"]
    style = NameStyle[prov["name_style"]] if prov.get("name_style") else None
    if prov["kind"] == "by_name":
        provider = enum_by_name(name_style=style)
    else:
        provider = flag_by_member_names(name_style=style, allow_single_value=prov.get("allow_single_value", False))
    retort = Retort(recipe=[provider], strict_coercion=case["strict"], debug_trail=DEBUG[case["debug"]])
    ctx.case(["shared", case], True, sample={"shared_provider": True, "classes": specs, "provider": prov},
             labels=["kind:shared_provider", f"kind:{prov['kind']}"])
    order = [0, 1] if case.get("order", True) else [1, 0]
    for i in order:
        cls, sp = classes[i], specs[i]
        named = all_named(cls)
        if style is not None and not all(n.isascii() and "__" not in n and _title_safe(n) for n, _ in named):
            ctx.count("skipped_name_not_convertible")
            return
        mp = {n: (ref_style(n, style) if style else n) for n, _ in named}
        if len(set(mp.values())) != len(mp):
            ctx.count("skipped_user_mapping_collides")
            return
        for n, m in named:
            if prov["kind"] != "by_name" and (m.value == 0 or not is_power_of_two(m.value)):
                continue
            try:
                d = retort.dump(m, cls)
            except Exception as e:  # noqa: BLE001
                ctx.violation("dump_crashed", ("shared_provider", type(e).__name__, exc_site(e)), case, f"{m!r}: {describe(e)}")
                continue
            exp = mp[n] if prov["kind"] == "by_name" else [mp[n]]
            if d != exp:
                ctx.violation("dump_form", ("shared_provider", prov["kind"]), case,
                              f"class #{i} {sp['members']}: dump({m!r}) = {d!r}, expected {exp!r} (other class: {specs[1 - i]['members']})")
                continue
            try:
                back = retort.load(d, cls)
            except Exception as e:  # noqa: BLE001
                ctx.violation("roundtrip_failed", ("shared_provider", type(e).__name__), case, f"load({d!r}) for {m!r}: {describe(e)}")
                continue
            if not (back is m or (isinstance(m, enum.Flag) and back == m and type(back) is type(m))):
                ctx.violation("roundtrip_differs", ("shared_provider",), case, f"load(dump({m!r})) = {back!r} of {type(back).__name__}")


def check_case(ctx: runner.Ctx, case):  # noqa: C901, PLR0912, PLR0915
    if case.get("shared"):
        return check_shared_case(ctx, case)
    spec, prov = case["cls"], case["prov"]
    try:
        cls = build_class(spec)
    except Exception:  # noqa: BLE001  -- Python itself refuses the class (e.g. invalid flag definition)
        ctx.count("class_rejected_by_python")
        return
    kind = prov["kind"]
    is_flag = issubclass(cls, enum.Flag)
    named = all_named(cls)
    if not named:
        ctx.count("class_without_members")
        return
    names = [n for n, _ in named]
    feats = []
    has_alias = len(cls.__members__) != len(named)
    if has_alias:
        feats.append("alias")
    if is_flag:
        if any(m.value == 0 for _, m in named):
            feats.append("zero_member")
        if any(m.value and not is_power_of_two(m.value) for _, m in named):
            feats.append("compound_member")
    if spec.get("missing"):
        feats.append("custom_missing")
    if any(isinstance(v, list) for _, v in spec["members"]):
        feats.append("unhashable_value")
    nondefault = (kind in ("by_name", "by_value") or
                  (kind == "flag_names" and (prov.get("name_style") or prov.get("map") or prov["allow_single_value"]
                                             or not prov["allow_duplicates"] or not prov["allow_compound"])))
    nontrivial = bool(feats) or bool(nondefault)
    key = [spec, prov, case["strict"], case["debug"]]

    def viol(vkind, discr, detail):
        ctx.violation(vkind, (kind, *discr), case, detail)

    # ---- applicability of the generated configuration (avoid zones the docs leave to the user)
    if kind in ("by_name", "flag_names"):
        if prov.get("name_style") and not all(n.isascii() and "_" * 2 not in n and _title_safe(n) for n in names):
            ctx.count("skipped_name_not_convertible")
            return
        mp = mapped_names(cls, prov, named)
        if mp is None:
            ctx.count("skipped_member_mapped_twice")
            return
        if kind == "flag_names" and not prov["allow_compound"]:
            usable = {n: v for n, v in mp.items() if cls[n].value == 0 or is_power_of_two(cls[n].value)}
        else:
            usable = mp
        if len(set(usable.values())) != len(usable):
            ctx.count("skipped_user_mapping_collides")
            return
    if kind == "by_value":
        tp = _value_tp(cls, prov)
        if tp is object or any(type(m.value) is not tp for m in cls):
            # docs: "This type must cover all enum members for the correct operation"
            ctx.count("skipped_tp_does_not_cover_members")
            return

    # ---- creation
    documented_exclusion = False
    if kind == "flag_exact":
        mask = 0
        for _, m in named:
            mask |= m.value
        documented_exclusion = mask < 0 or mask != 2 ** mask.bit_length() - 1
        if documented_exclusion:
            feats.append("excluded_by_docs")
    try:
        the_provider = make_provider(cls, prov)
    except MapKeysCollide:
        ctx.count("skipped_user_map_dict_keys_collide")
        return
    retort = Retort(recipe=[p for p in [the_provider] if p is not None],
                    strict_coercion=case["strict"], debug_trail=DEBUG[case["debug"]])
    created = {}
    for what in ("loader", "dumper"):
        try:
            created[what] = retort.get_loader(cls) if what == "loader" else retort.get_dumper(cls)
        except ProviderNotFoundError as e:
            if documented_exclusion and what == "loader":
                ctx.count("creation_refused_as_documented")
            else:
                viol("creation_refused", (what, "+".join(sorted(feats)) or "plain"), describe(e))
        except Exception as e:  # noqa: BLE001
            viol("creation_crashed", (what, type(e).__name__, exc_site(e)), describe(e))
    ctx.case(key, nontrivial, sample={"class": spec, "provider": prov, "strict": case["strict"],
                                      "debug": case["debug"], "features": feats},
             labels=[f"kind:{kind}", *[f"feat:{f}" for f in feats]])
    if "loader" not in created or "dumper" not in created:
        return
    loader, dumper = created["loader"], created["dumper"]

    # ---- the value domain: members, and for flags every OR-combination
    if is_flag:
        singles = [m for _, m in named]
        values = {}
        for r in range(len(singles) + 1):
            for combo in itertools.combinations(singles, r):
                v = cls(0)
                for c in combo:
                    v |= c
                values.setdefault(v.value, v)
        domain = list(values.values())
        if kind == "flag_names" and not prov["allow_compound"]:
            # a value whose bits are not all individually named has no representation once compound names are
            # switched off by the user (allow_compound=False): it is outside the domain of the bijection
            single_bits = 0
            for n in usable:
                single_bits |= cls[n].value
            before = len(domain)
            domain = [v for v in domain if v.value & ~single_bits == 0]
            ctx.count("values_unrepresentable_without_compound_names", before - len(domain))
    else:
        domain = [m for _, m in named]

    dumped = []
    for v in domain:
        ctx.count("values_enumerated")
        try:
            d = dumper(v)
        except Exception as e:  # noqa: BLE001
            viol("dump_crashed", (type(e).__name__, exc_site(e)), f"value={v!r}: {describe(e)}")
            continue
        if isinstance(d, list) and kind == "flag_names":
            # a caller may edit a dumped document in place: the representation of the member must not change with it
            # (the list of names is built by the dumper; an exact-value dumper hands out the member's own value)
            keep = list(d)
            d.append("__edited__")
            try:
                again = dumper(v)
            except Exception as e:  # noqa: BLE001
                viol("dump_crashed", (type(e).__name__, exc_site(e)), f"value={v!r} (second dump): {describe(e)}")
                continue
            if again != keep:
                viol("dump_changes_after_result_was_edited", (kind,), f"value={v!r} first={keep!r} second={again!r}")
            d = keep
        dumped.append((v, d))
        # documented outer form
        if kind in ("exact", "flag_exact"):
            if not (type(d) is type(v.value) and (d == v.value or d != d)):
                viol("dump_form", ("exact_value",), f"value={v!r} dumped={d!r}")
        elif kind == "by_name":
            exp = mp[v.name]
            if d != exp or type(d) is not str:
                viol("dump_form", ("by_name",), f"value={v!r} dumped={d!r} expected={exp!r}")
        elif kind == "flag_names":
            allowed = set(usable.values())
            if not isinstance(d, list) or any(x not in allowed for x in d):
                viol("dump_form", ("flag_names",), f"value={v!r} dumped={d!r} allowed={sorted(allowed)!r}")
            elif not prov["allow_duplicates"] and len(set(d)) != len(d):
                viol("dump_form", ("flag_names_duplicates",), f"value={v!r} dumped={d!r}")
        # round trip
        try:
            back = loader(d)
        except Exception as e:  # noqa: BLE001
            viol("roundtrip_failed", (type(e).__name__, "+".join(sorted(feats)) or "plain"),
                 f"value={v!r} dumped={d!r}: {describe(e)}")
            continue
        ok = (back == v and type(back) is type(v)) if is_flag else (back is v)
        if not ok:
            viol("roundtrip_differs", ("+".join(sorted(feats)) or "plain",),
                 f"value={v!r} dumped={d!r} loaded={back!r}")
    # ---- the same representation inside Optional / List / Dict / a model field (falsy members are the interesting ones:
    # Flag(0), a member with value 0 or '')
    falsy_first = sorted(dumped, key=lambda vd: bool(vd[0].value))[:6]
    if falsy_first:
        holder = dataclasses.make_dataclass(f"H_{cls.__name__}", [("f", typing.Optional[cls]), ("g", typing.List[cls])])
        for v, d in falsy_first:
            if d is None:
                ctx.count("skipped_member_dumped_as_None_inside_Optional")   # overlaps with the None case of the Optional
                continue
            for label, tp, val, exp in (
                ("optional", typing.Optional[cls], v, d), ("list", typing.List[cls], [v, v], [d, d]),
                ("dict", typing.Dict[str, cls], {"k": v}, {"k": d}), ("model", holder, holder(v, [v]), {"f": d, "g": [d]}),
            ):
                try:
                    got = retort.dump(val, tp)
                    back = retort.load(got, tp)
                except Exception as e:  # noqa: BLE001
                    viol("wrapped_roundtrip_failed", (label, type(e).__name__), f"value={v!r} in {label}: {describe(e)}")
                    continue
                if repr(got) != repr(exp):
                    viol("wrapped_dump_form", (label, "falsy" if not v.value else "truthy"),
                         f"value={v!r} in {label}: dumped {got!r}, the bare dumper gives {d!r}")
                if back != val:
                    viol("wrapped_roundtrip_differs", (label,), f"value={v!r} in {label}: loaded {back!r}")
    # injectivity
    for (v1, d1), (v2, d2) in itertools.combinations(dumped, 2):
        same = (sorted(map(repr, d1)) == sorted(map(repr, d2))) if kind == "flag_names" and isinstance(d1, list) \
            and isinstance(d2, list) else (type(d1) is type(d2) and d1 == d2)
        if same and v1 != v2:
            viol("dump_not_injective", ("+".join(sorted(feats)) or "plain",), f"{v1!r} and {v2!r} both dump to {d1!r}")

    # ---- a _missing_ hook inherited from a member-less base enum behaves like the same hook in the class body (nothing is
    # claimed about what the hook does: the two classes are compared with each other)
    if spec.get("missing") and kind in ("exact", "by_value") and not is_flag:
        try:
            twin = build_class(spec, inherit_missing=True)
            twin_prov = make_provider(twin, prov)
            twin_loader = Retort(recipe=[p for p in [twin_prov] if p is not None], strict_coercion=case["strict"],
                                 debug_trail=DEBUG[case["debug"]]).get_loader(twin)
        except Exception as e:  # noqa: BLE001
            viol("inherited_missing_hook", ("creation", type(e).__name__), describe(e))
        else:
            def shape(fn, cand):
                try:
                    return ("ok", fn(cand).name)
                except LoadError as e:
                    return ("load_error", type(e).__name__)
                except Exception as e:  # noqa: BLE001
                    return ("error", type(e).__name__)
            for cand in ["__missing__", *[d for _, d in dumped], *SOUP[:12]]:
                a, b = shape(loader, cand), shape(twin_loader, cand)
                if a != b:
                    viol("inherited_missing_hook", (a[0], b[0]),
                         f"candidate={cand!r}: hook in the class body -> {a!r}; the same hook inherited from a base enum -> {b!r}")
    # ---- candidate representations: must-accept / must-reject / unspecified
    cands = list(SOUP)
    for _, d in dumped:
        cands.append(d)
        if isinstance(d, str):
            cands.extend(mut_name(d))
        if isinstance(d, list):
            cands.append(tuple(d))
            cands.append(d + d)
            cands.append(d + ["__nope__"])
            cands.append(list(reversed(d)))
            cands.append(",".join(map(str, d)))
            if len(d) == 1:
                cands.append(d[0])
            cands.append({x: 1 for x in d})
            cands.append(collections.OrderedDict((x, 1) for x in d))
            cands.append(types.MappingProxyType({x: 1 for x in d}))
            cands.append(collections.ChainMap({x: 1 for x in d}))
            # "the loader takes any iterable": one-shot iterators, generators, views and containers that are no list
            for how in (_It.HOWS if kind == "flag_names" else ()):
                cands.append(_It(how, d))
                cands.append(_It(how, d + d))
                cands.append(_It(how, d + ["__nope__"]))
        if isinstance(d, int) and not isinstance(d, bool):
            cands.extend([d + 1, -d - 1, float(d), str(d), d + 2 ** 20])
    if kind == "flag_exact":
        top = 0
        for _, m in named:
            top |= m.value
        if 0 <= top < 64:
            cands.extend(range(top + 2))   # every value of the range, also those holding a bit no single member declares
    if kind == "flag_names":
        for n, m in named:
            cands.append([mp[n]])
            cands.append(mp[n])
            cands.append([n])
    if kind == "by_name":
        for n in cls.__members__:
            cands.append(n)

    for cand_ in cands:
        lazy = isinstance(cand_, _It)
        # the reference sees the items of a lazily made iterable as a list; the loader gets a fresh iterable every time
        verdict, expected = reference(cls, kind, prov, case["strict"], named, list(cand_.items) if lazy else cand_,
                                      mp if kind in ("by_name", "flag_names") else None,
                                      usable if kind in ("by_name", "flag_names") else None, spec)
        cand = cand_.make() if lazy else cand_
        if lazy:
            ctx.count(f"candidates_iterable_{cand_.how}")
        ctx.count(f"candidates_{verdict}")
        if verdict == "unspecified":
            # nothing is claimed about acceptance, but whatever the loader does it must not leak a foreign exception
            try:
                loader(cand)
            except LoadError:
                pass
            except Exception as e:  # noqa: BLE001
                viol("non_loaderror", (type(e).__name__, exc_site(e)), f"candidate={cand!r}: {describe(e)}")
            continue
        try:
            got = loader(cand)
        except LoadError:
            if verdict == "accept":
                viol("rejected_valid_representation", ("+".join(sorted(feats)) or "plain",),
                     f"candidate={cand!r} expected={expected!r}")
            continue
        except Exception as e:  # noqa: BLE001
            viol("non_loaderror", (type(e).__name__, exc_site(e)), f"candidate={cand!r}: {describe(e)}")
            continue
        if lazy:
            cand = cand_   # for the report: the pane of a consumed iterator says nothing
        if verdict == "reject":
            viol("accepted_non_representation", (type(cand).__name__, "+".join(sorted(feats)) or "plain"),
                 f"candidate={cand!r} loaded={got!r}")
        elif not (got == expected and type(got) is type(expected)):
            viol("loaded_wrong_member", ("+".join(sorted(feats)) or "plain",),
                 f"candidate={cand!r} loaded={got!r} expected={expected!r}")


def reference(cls, kind, prov, strict, named, cand, mp, usable, spec):  # noqa: C901, PLR0911, PLR0912
    """Three-valued reference: ('accept', member) | ('reject', None) | ('unspecified', None)."""
    members = [m for _, m in named]
    if kind == "exact":
        if isinstance(cand, enum.Enum):
            return "unspecified", None
        exact = [m for m in members if type(cand) is type(m.value) and _eq(cand, m.value)]
        if exact:
            return "accept", exact[0]
        loose = [m for m in members if _eq(cand, m.value)]
        if loose:
            return "unspecified", None  # equal but differently typed (True for 1, 1.0 for 1 ...)
        if spec.get("missing") and cand == "__missing__":
            return "unspecified", None
        return "reject", None
    if kind == "by_name":
        if type(cand) is str:
            hit = [m for n, m in named if usable[n] == cand]
            if hit:
                return "accept", hit[0]
            if cand in cls.__members__:
                return "unspecified", None  # alias name / original name hidden behind a mapping
            return "reject", None
        if isinstance(cand, str):
            return "unspecified", None
        return "reject", None
    if kind == "by_value":
        tp = _value_tp(cls, prov)
        if isinstance(cand, enum.Enum):
            return "unspecified", None
        if type(cand) is tp:
            hit = [m for m in members if _eq(cand, m.value)]
            if hit:
                return "accept", hit[0]
            if spec.get("missing") and cand == "__missing__":
                return "unspecified", None
            return "reject", None
        if strict and tp in (int, str) and not isinstance(cand, tp):
            return "reject", None
        return "unspecified", None  # lax coercion / Decimal from str etc.: governed by the tp loader (C02)
    if kind == "flag_exact":
        mask = 0
        for m in members:
            mask |= m.value
        if type(cand) is int:
            if cand < 0 or cand > mask:
                return "reject", None
            # is it an OR of members?
            reach = {0}
            for m in members:
                reach |= {r | m.value for r in reach}
            if cand in reach:
                return "accept", cls(cand)
            return "unspecified", None  # pseudo-member inside the mask
        if isinstance(cand, (int, float, Decimal, complex)) and not isinstance(cand, bool) and cand == cand \
                and cand in range(0, mask + 1):
            return "unspecified", None
        if isinstance(cand, bool):
            return "unspecified", None
        return "reject", None
    if kind == "flag_names":
        name_to_member = {usable[n]: cls[n] for n in usable}
        if type(cand) is str:
            if not prov["allow_single_value"]:
                return "reject", None
            if cand in name_to_member:
                return "accept", name_to_member[cand]
            return "reject", None
        if isinstance(cand, str):
            return "unspecified", None
        if isinstance(cand, collections.abc.Mapping):
            # "the loader takes any iterable excluding str and Mapping" under strict coercion: every Mapping, not only dict
            return ("reject", None) if strict else ("unspecified", None)
        if isinstance(cand, (list, tuple, set, frozenset)):
            items = list(cand)
            if any(type(x) is not str for x in items):
                if any(_unhashable(x) for x in items) and not prov["allow_duplicates"]:
                    return "reject", None
                if all((type(x) is not str) or x in name_to_member for x in items) and \
                        any(isinstance(x, str) for x in items if type(x) is not str):
                    return "unspecified", None
                return "reject", None
            if any(x not in name_to_member for x in items):
                return "reject", None
            if not prov["allow_duplicates"] and len(set(items)) != len(items):
                return "reject", None
            v = cls(0)
            for x in items:
                v |= name_to_member[x]
            return "accept", v
        return "reject", None
    raise ValueError(kind)


class _It:
    """An iterable that is made anew for every use (one-shot iterators can not be stored in a candidate list)."""
    HOWS = ("iter", "gen", "map", "keys_view", "deque", "nolen")

    def __init__(self, how, items):
        self.how, self.items = how, list(dict.fromkeys(items) if how == "keys_view" else items)

    def make(self):
        items = list(self.items)
        if self.how == "iter":
            return iter(items)
        if self.how == "gen":
            return (x for x in items)
        if self.how == "map":
            return map(lambda x: x, items)
        if self.how == "keys_view":      # sized, iterable, not a Mapping; can not hold duplicates
            return dict.fromkeys(items).keys()
        if self.how == "deque":
            return collections.deque(items)
        return _NoLen(items)

    def __repr__(self):
        return f"<{self.how} over {self.items!r}>"


class _NoLen:
    def __init__(self, items):
        self._items = items

    def __iter__(self):
        return iter(self._items)


def _unhashable(x):
    try:
        hash(x)
    except TypeError:
        return True
    return False


def _eq(a, b):
    try:
        return bool(a == b)
    except Exception:  # noqa: BLE001
        return False


# ----------------------------------------------------------------------------------- exploration
FIXED_CLASSES = [
    {"base": "Flag", "members": [["NONE", 0], ["A", 1], ["B", 2]], "missing": False},
    {"base": "Flag", "members": [["A", 1], ["B", 2], ["C", 4], ["WHITE", 7]], "missing": False},
    {"base": "IntFlag", "members": [["A", 1], ["B", 2], ["AB", 3], ["C", 4]], "missing": False},
    {"base": "Flag", "members": [["A", 1], ["C", 4]], "missing": False},
    {"base": "Enum", "members": [["A", 1], ["B", 1], ["C", "a"]], "missing": False},
    {"base": "Enum", "members": [["A", ["list", [1]]], ["B", ["list", []]]], "missing": False},
    {"base": "IntEnum", "members": [["A", 0], ["B", 1]], "missing": True},
    {"base": "StrEnum", "members": [["A", "a"], ["DARK_RED", "dark red"]], "missing": False},
]


def fixed_cases():
    for spec in FIXED_CLASSES:
        flag = spec["base"] in ("Flag", "IntFlag")
        for strict in (True, False):
            for dbg in (0, 2):
                if flag:
                    yield {"cls": spec, "prov": {"kind": "flag_exact"}, "strict": strict, "debug": dbg}
                    for s, d, c in itertools.product((False, True), repeat=3):
                        for style in (None, "LOWER_KEBAB"):
                            yield {"cls": spec, "prov": {"kind": "flag_names", "name_style": style, "map": {},
                                                         "allow_single_value": s, "allow_duplicates": d,
                                                         "allow_compound": c}, "strict": strict, "debug": dbg}
                else:
                    yield {"cls": spec, "prov": {"kind": "exact"}, "strict": strict, "debug": dbg}
                    yield {"cls": spec, "prov": {"kind": "by_value", "tp": "auto"}, "strict": strict, "debug": dbg}
                    for style in (None, "CAMEL", "UPPER_DOT"):
                        yield {"cls": spec, "prov": {"kind": "by_name", "name_style": style, "map": {}},
                               "strict": strict, "debug": dbg}


@st.composite
def st_shared_case(draw):
    flag = draw(st.booleans())
    base = draw(st.sampled_from(["IntFlag", "Flag"] if flag else ["IntEnum", "StrEnum", "str_Enum", "int_Enum", "Enum"]))
    n = draw(st.integers(1, 4))
    if flag:
        values = [1 << i for i in range(n)]
    elif base in ("IntEnum", "int_Enum", "Enum"):
        values = draw(st.lists(st.sampled_from([0, 1, 2, 3, 10]), min_size=n, max_size=n, unique=True))
    else:
        values = draw(st.lists(st.sampled_from(["a", "b", "c", "x y"]), min_size=n, max_size=n, unique=True))
    names = draw(st_names(2 * n))
    spec1 = {"base": base, "members": [[a, v] for a, v in zip(names[:n], values)], "missing": False}
    spec2 = {"base": base, "members": [[a, v] for a, v in zip(names[n:], values)], "missing": False}
    prov = {"kind": "flag_names" if flag else "by_name", "name_style": draw(st_style()), "map": {}}
    if flag:
        prov["allow_single_value"] = draw(st.booleans())
    return {"shared": True, "cls": spec1, "cls2": spec2, "prov": prov, "strict": draw(st.booleans()),
            "debug": draw(st.integers(0, 2)), "order": draw(st.booleans())}


def explore(ctx: runner.Ctx):
    if ctx.shard == 0:
        for case in fixed_cases():
            check_case(ctx, case)
        ctx.mark_exhaustive("per generated (class, provider, options): every member, every OR-combination of "
                            "flag members (2^n, n<=9 named members) and the full candidate set are enumerated")
    n = ctx.budget(20000, 400000)
    ctx.given(st_case(), lambda case: check_case(ctx, case), int(n * 0.9))
    ctx.given(st_shared_case(), lambda case: check_case(ctx, case), max(1, int(n * 0.1)), seed_offset=1)


RULE = ("cases = generated (enum/flag class spec, provider, options, strict_coercion, debug_trail); for each, all "
        "members / all 2^n flag combinations / all candidate representations are enumerated. Non-trivial = class "
        "has an alias, a zero member, a compound member, an unhashable value or a custom _missing_, or the provider "
        "has a non-default option; distinct by (class spec, provider spec, strict, debug).")

if __name__ == "__main__":
    raise SystemExit(runner.main(
        PROP, explore=explore, check_case=check_case, strategy=st.one_of(st_case(), st_shared_case()), rule=RULE,
        assumptions=[
            "equal-but-differently-typed data (True for 1), pseudo-members inside a flag mask, alias names, "
            "custom _missing_ hits and lax-coercion mappings are treated as unspecified (counted, not asserted)",
            "user name mappings that make two members collide are skipped (configuration error, not adaptix)",
        ],
    ))
