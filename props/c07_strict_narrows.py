"""C07 -- strict_coercion only narrows the accepted inputs.

(1) inclusion: whatever the strict retort accepts, the otherwise identical lax retort accepts too, and loads to an
    equal value of the same type -- unless the type contains a union / Literal whose cases may overlap under the lax
    rules (then only acceptance is asserted: docs, "any accepting case may win");
(2) strict soundness, checked positionally (type and datum are walked together): if the strict loader accepts, then at
    every node whose type is in the documented "allowed strict origins" table the datum's exact type is in the row; no
    str / Mapping where an iterable, constant-length tuple or list-layout model is expected; no bool for an int
    Literal member and vice versa.
"""
from __future__ import annotations

import collections.abc
from decimal import Decimal
from fractions import Fraction

from vkit import env, runner
from vkit.errors import describe

env.import_adaptix()

from hypothesis import strategies as st  # noqa: E402

from adaptix import DebugTrail, ProviderNotFoundError, Retort  # noqa: E402
from props.c04_only_loaderror import build_layouts, model_names  # noqa: E402
from vkit import codec, soup, tspec  # noqa: E402

PROP = "C07"
DEBUG = [DebugTrail.DISABLE, DebugTrail.FIRST, DebugTrail.ALL]
GEN = tspec.TypeGen(max_depth=3, dumpable_unions=False, disjoint_unions=False, unhashable_set_elems=True)
GEN_NEAR = tspec.TypeGen(max_depth=3)

STRICT_ORIGINS = {  # docs/loading-and-dumping/specific-types-behavior.rst, "Allowed strict origins"
    "int": (int,), "float": (float, int), "str": (str,), "bool": (bool,), "decimal": (str, Decimal),
    "fraction": (str, Fraction), "complex": (str, complex), "literalstring": (str,),
}


@st.composite
def st_case(draw):
    near = draw(st.integers(0, 9)) < 7   # inclusion is vacuous unless strict accepts: weight near-valid data
    if near:
        t = draw(GEN_NEAR.strategy())
        datum, ops = draw(soup.st_near_valid(t, max_mut=2))
    else:
        t = draw(GEN.strategy())
        if tspec.has_set_node(t) and tspec.near_valid_possible(t) and draw(st.booleans()):
            # aimed data for sets, also for sets whose elements load to unhashable values: a near-valid dump of the
            # same type with lists in place of the sets
            datum, ops = draw(soup.st_near_valid(tspec.listify_sets(t)))
            ops = ["listified_sets", *ops]
        else:
            datum, ops = draw(soup.st_soup()), ["soup"]
    layouts = {}
    for n in model_names(t):
        if draw(st.integers(0, 4)) == 0:
            layouts[n] = "as_list" if not near else "forbid"
    return {"t": t, "datum": datum, "ops": ops, "debug": draw(st.integers(0, 2)), "layouts": layouts}


def run(fn, arg):
    try:
        return ("ok", fn(arg))
    except RecursionError:
        return ("skip", None)
    except BaseException as ex:  # noqa: BLE001
        return ("err", ex)


class Unsound(Exception):
    def __init__(self, where, detail):
        super().__init__(detail)
        self.where = where


def positional(spec, datum, e, layouts, path="$"):  # noqa: C901, PLR0912
    """Walk type and (accepted) datum together; raise Unsound on a documented strict-origin breach.
    Only structure the docs pin is followed; anything else stops the walk at that node."""
    s = tspec.strip(spec)
    tag = s[0]
    if tag in STRICT_ORIGINS:
        if type(datum) not in STRICT_ORIGINS[tag]:
            raise Unsound(f"{tag}<-{type(datum).__name__}", f"at {path}: {tag} accepted {datum!r} of type {type(datum).__name__}")
        return
    if tag == "none":
        if datum is not None:
            raise Unsound("none", f"at {path}: None loader accepted {datum!r}")
        return
    if tag in ("list", "set", "frozenset", "vtuple", "deque", "abc", "tuple"):
        if type(datum) is str or isinstance(datum, collections.abc.Mapping):
            raise Unsound(f"iterable<-{'str' if type(datum) is str else 'Mapping'}",
                          f"at {path}: {tag} accepted {type(datum).__name__} {datum!r}")
        if isinstance(datum, (list, tuple, collections.deque)):
            items = list(datum)
            if tag == "tuple":
                if len(items) == len(s[1]):
                    for i, (ts, x) in enumerate(zip(s[1], items)):
                        positional(ts, x, e, layouts, f"{path}[{i}]")
            else:
                inner = s[2] if tag == "abc" else s[1]
                for i, x in enumerate(items):
                    positional(inner, x, e, layouts, f"{path}[{i}]")
        return
    if tag in ("dict", "mapping", "mutablemapping", "defaultdict"):
        if isinstance(datum, dict):
            for k, v in datum.items():
                positional(s[1], k, e, layouts, f"{path}.key({k!r})")
                positional(s[2], v, e, layouts, f"{path}[{k!r}]")
        return
    if tag == "optional":
        if datum is not None:
            positional(s[1], datum, e, layouts, path)
        return
    if tag == "literal":
        vals = [codec.build({k: v for k, v in x.items() if k != "spec"} if isinstance(x, dict) else x, e) for x in s[1]]
        plain = [v for v in vals if isinstance(v, (bool, int)) and not hasattr(v, "name")]
        if isinstance(datum, (bool, int)) and type(datum) in (bool, int) and plain and \
                all(not hasattr(v, "value") for v in vals):
            # "the loader will distinguish equal bool and int instances"
            if any(datum == v for v in plain) and not any(type(datum) is type(v) and datum == v for v in plain) \
                    and not any(datum == v for v in vals if v not in plain):
                raise Unsound("literal-bool-int", f"at {path}: Literal{vals!r} accepted {datum!r} ({type(datum).__name__})")
        return
    if tag == "model":
        ms = s[1]
        if layouts.get(ms["name"]) == "as_list" and all(f.get("d") is None for f in ms["fields"]):
            if type(datum) is str or isinstance(datum, collections.abc.Mapping):
                raise Unsound(f"list-model<-{'str' if type(datum) is str else 'Mapping'}",
                              f"at {path}: list-layout model accepted {type(datum).__name__} {datum!r}")
            if isinstance(datum, (list, tuple)) and len(datum) >= len(ms["fields"]):
                for i, f in enumerate(ms["fields"]):
                    positional(f["t"], datum[i], e, layouts, f"{path}[{i}]")
            return
        if isinstance(datum, dict) and layouts.get(ms["name"]) in (None, "forbid"):
            for f in ms["fields"]:
                k = tspec.model_key(f["n"])
                if k in datum:
                    positional(f["t"], datum[k], e, layouts, f"{path}.{k}")
        return
    # unions, enums, paths ...: no positional rule in the strict-origins table


def excluded_variants(t, datum_spec):
    """Targeted variants of the datum: every iterable-typed position at the root or one level below is replaced by a
    str and by a Mapping (the documented strict exclusions)."""
    out = []
    s = tspec.strip(t)
    iterable = ("list", "set", "frozenset", "vtuple", "deque", "abc", "tuple")
    if s[0] in iterable:
        out += ["ab", "", {"$": "d", "v": [["k", 1]]}, {"$": "custmap", "v": [["k", 1]]}, {"$": "strsub", "s": "ab"}]
    if isinstance(datum_spec, list) and s[0] in ("list", "vtuple", "deque", "set", "frozenset", "abc"):
        inner = tspec.strip(s[2] if s[0] == "abc" else s[1])
        if inner[0] in iterable and datum_spec:
            out += [[*datum_spec[:-1], "ab"], [{"$": "d", "v": [["k", 1]]}, *datum_spec[1:]]]
    if isinstance(datum_spec, dict) and datum_spec.get("$") == "d":
        children = {}
        if s[0] in ("dict", "mapping", "mutablemapping", "defaultdict"):
            children = {k if not isinstance(k, dict) else None: s[2] for k, _ in datum_spec["v"]}
        elif s[0] == "model":
            children = {tspec.model_key(f["n"]): f["t"] for f in s[1]["fields"]}
        for i, (k, _) in enumerate(datum_spec["v"]):
            ct = children.get(k if not isinstance(k, dict) else None)
            if ct is not None and tspec.strip(ct)[0] in iterable:
                for repl in ("ab", {"$": "d", "v": [["k", 1]]}):
                    v2 = [list(p) for p in datum_spec["v"]]
                    v2[i][1] = repl
                    out.append({"$": "d", "v": v2})
    return out


def check_case(ctx: runner.Ctx, case):
    if not ctx.replaying and case.get("variants", True):
        for v in excluded_variants(case["t"], case["datum"])[:6]:
            check_one(ctx, {**case, "datum": v, "ops": ["excluded_variant"], "variants": False})
    return check_one(ctx, case)


def check_one(ctx: runner.Ctx, case):  # noqa: C901
    t = case["t"]
    hint, e = tspec.build_type(t)
    recipe = build_layouts(case.get("layouts", {}), e)
    outs = {}
    for strict in (True, False):
        retort = Retort(recipe=recipe, strict_coercion=strict, debug_trail=DEBUG[case["debug"]])
        try:
            ld = retort.get_loader(hint)
        except ProviderNotFoundError:
            ctx.count("not_creatable")
            return
        outs[strict] = run(ld, codec.build(case["datum"], e))
    if outs[True][0] == "skip" or outs[False][0] == "skip":
        ctx.count("recursion_error_skipped")
        return
    strict_ok = outs[True][0] == "ok"
    lax_ok = outs[False][0] == "ok"
    overlap = not tspec.lax_safe(t)
    ctx.case([case], strict_ok,
             sample={"type": tspec.text(t), "datum": case["datum"], "debug": case["debug"], "layouts": case.get("layouts"),
                     "strict": outs[True][0], "lax": outs[False][0]},
             labels=[f"strict:{outs[True][0]}", f"lax:{outs[False][0]}", f"debug:{case['debug']}",
                     "src:" + ("soup" if case["ops"] == ["soup"] else "excluded_variant" if case["ops"] == ["excluded_variant"]
                               else f"near{len(case['ops'])}"), f"top:{t[0]}",
                     *(["lax_overlapping_union"] if overlap else [])])
    head = f"type={tspec.text(t)} debug={case['debug']} layouts={case.get('layouts')} datum={case['datum']!r}"
    if not strict_ok:
        return
    if not lax_ok:
        ex = outs[False][1]
        from vkit.errors import all_nodes, exc_site  # noqa: PLC0415
        import collections.abc as cabc  # noqa: PLC0415
        if overlap and any(getattr(n, "expected_type", None) is cabc.Hashable for n in all_nodes(ex)):
            # the laxer rules make the cases of a union overlap, "any accepting case may win" (docs) -- here one that yields an
            # unhashable value (a deque for a str) inside a set: the rejection is a consequence of the documented free choice
            ctx.count("unspecified_lax_union_case_yields_unhashable_set_element")
            return
        ctx.violation("lax_rejects_strict_accepted", (type(ex).__name__, exc_site(ex)), case,
                      f"{head}: strict -> {outs[True][1]!r}; lax raised {describe(ex)}")
    elif overlap:
        ctx.count("unspecified_value_under_overlapping_lax_union")
    elif not tspec.canon_eq(outs[True][1], outs[False][1]) and not (
            tspec.has_unordered_input(case["datum"])
            and tspec.unordered(tspec.canon(outs[True][1])) == tspec.unordered(tspec.canon(outs[False][1]))):
        # (a set fed into an ordered target: each mode loads a fresh build of the datum, and the iteration order of a set
        # with identity-hashed members differs between builds; equal up to order is all that can be asked)
        ctx.violation("lax_value_differs", (_first_diff_tag(t, outs[True][1], outs[False][1], e),), case,
                      f"{head}: strict -> {outs[True][1]!r}; lax -> {outs[False][1]!r}")
    try:
        positional(t, codec.build(case["datum"], e), e, case.get("layouts", {}))
    except Unsound as u:
        ctx.violation("strict_accepts_outside_allowed_origins", (u.where,), case, f"{head}: {u}")


def _first_diff_tag(t, a, b, e):
    from props.c01_roundtrip import first_diff  # noqa: PLC0415
    return first_diff(t, a, b, e)


def explore(ctx: runner.Ctx):
    # the Literal table of C02 (bool/int look-alikes, enum and bytes members) through this property's own oracle
    from props.c02_nonmodel_reference import literal_table_cases  # noqa: PLC0415
    n_lit = 0
    for i, c in enumerate(literal_table_cases()):
        n_lit += 1
        if i % ctx.nshards == ctx.shard:
            for dbg in ((0, 1, 2) if ctx.tier == "thorough" else (i % 3,)):
                runner.guarded(ctx, lambda k: check_case(ctx, k),
                               {"t": c["t"], "datum": c["datum"], "ops": ["table"], "debug": dbg, "layouts": {}})
    ctx.mark_exhaustive(f"Literal table: {n_lit} (Literal, datum) pairs compared between strict and lax coercion")
    # the list-layout table of C04 (mappings with integer keys, strings, bytes, one-shot iterators ... for a model loaded from a
    # list, at the root and one level down): a mapping whose keys happen to be 0..n-1 is too rare a draw to leave to sampling
    from props.c04_only_loaderror import list_layout_table_cases  # noqa: PLC0415
    n_ll = 0
    for i, c in enumerate(k for k in list_layout_table_cases() if k["strict"]):
        n_ll += 1
        if i % ctx.nshards == ctx.shard:
            runner.guarded(ctx, lambda k: check_case(ctx, k),
                           {"t": c["t"], "datum": c["datum"], "ops": ["table"], "debug": c["debug"], "layouts": c["layouts"],
                            "variants": False})
    ctx.mark_exhaustive(f"list-layout table: {n_ll} (list-layout model, root container, debug mode) triples under strict and lax")
    ctx.given(st_case(), lambda c: check_case(ctx, c), ctx.budget(8000, 400000))


RULE = ("cases = (type spec, datum, debug mode, layouts) evaluated under strict and lax coercion on fresh copies of the "
        "datum; datum = near-valid mutation of a valid dump (70%, look-alike swaps among the mutations) or arbitrary soup. "
        "Non-trivial = the strict loader accepted (the inclusion is vacuous otherwise).")

if __name__ == "__main__":
    raise SystemExit(runner.main(
        PROP, explore=explore, check_case=check_case, strategy=st_case(), rule=RULE,
        assumptions=["value equality between modes is asserted only when no union/Literal of the type can overlap under "
                     "the lax rules (docs: undefined which case wins)",
                     "positional strict soundness follows only structure the docs pin (lists/tuples/dicts/default and "
                     "list-layout models); exotic containers stop the walk"],
    ))
