"""C12, cold-process part: two threads race on the FIRST model loader / dumper creation of the interpreter.

State that adaptix initialises lazily once per process (class-level tables, module-level caches) is raced only by the very
first requests of a process, so the in-process exploration of props/c12_concurrency.py -- whose reference run warms the
process up before any race -- cannot reach it.  Here every schedule runs in a fresh interpreter:

* ``--child '{"mode": "profile"}'``: run the two-thread program sequentially with line events on EVERY file of the adaptix
  package, once cold and once more on a fresh retort (warm); print the global yield indices of the lines that only the cold
  run executed (first index per distinct line) -- the code that runs once per process.
* ``--child '{"mode": "run", "cp": k, "what": "load"|"dump"}'``: thread 0 is parked at its k-th yield point, thread 1 runs its
  whole call, thread 0 resumes; both outcomes, and later calls on the raced retort, are compared with a single-threaded run on
  a fresh retort made AFTER the race (the property's oracle).  Prints one JSON line.

The parent side (``explore_cold``) is called from props/c12_concurrency.py.
"""
import dataclasses
import enum
import json
import os
import random
import subprocess
import sys
from typing import Dict, List, Optional

HERE = os.path.dirname(os.path.dirname(os.path.abspath(__file__)))


class Color(enum.Enum):
    RED = 1


@dataclasses.dataclass
class Leaf:
    c: Color
    t: Optional[str] = None


@dataclasses.dataclass
class Settings:          # with name_mapping(skip=...) its layout is EMPTY
    debug: bool = False


@dataclasses.dataclass
class Point:
    x: int
    y: int


@dataclasses.dataclass
class Node:
    value: int
    leaf: Leaf
    children: List["Node"]
    tags: Dict[str, int] = dataclasses.field(default_factory=dict)


# ------------------------------------------------------------------------------------------------ child side
def _child(arg: dict) -> dict:  # noqa: C901, PLR0915
    sys.path.insert(0, HERE)
    from vkit import env  # noqa: PLC0415
    env.import_adaptix()
    import adaptix  # noqa: PLC0415
    from adaptix import Retort  # noqa: PLC0415
    from adaptix.load_error import LoadError  # noqa: PLC0415
    from vkit.sched import Scheduler  # noqa: PLC0415

    pkg = os.path.dirname(adaptix.__file__)
    traced = frozenset(os.path.join(d, n) for d, _, names in os.walk(pkg) for n in names if n.endswith(".py"))
    datum = {"value": 1, "leaf": {"c": 1}, "children": [{"value": 2, "leaf": {"c": 1, "t": "x"}, "children": [], "tags": {"a": 1}}]}
    obj = Node(1, Leaf(Color.RED), [Node(2, Leaf(Color.RED, "x"), [], {"a": 1})])
    bad = {"value": 1, "leaf": {"c": 5}, "children": [{"value": "x", "leaf": {"c": 1}, "children": []}]}
    what = arg.get("what", "load")

    def outcome(fn):
        try:
            return ["ok", repr(fn())]
        except BaseException as ex:  # noqa: BLE001
            def flat(e):
                if isinstance(e, BaseExceptionGroup):
                    return [type(e).__name__, sorted(json.dumps(flat(s)) for s in e.exceptions)]
                return [type(e).__name__, str(e)[:120] if not isinstance(e, LoadError) else ""]
            return ["err", flat(ex)]

    program = arg.get("program", "same_model")

    def make_retort():
        if program == "two_models":
            from adaptix import name_mapping  # noqa: PLC0415
            # two models whose name layouts differ in every option a layout maker could remember between two calls
            return Retort(recipe=[name_mapping(Point, as_list=True), name_mapping(Settings, skip=["debug"])])
        return Retort()

    def calls(retort, i=0):
        if program == "two_models":
            if i == 0:
                return [lambda: retort.dump(Settings(), Settings), lambda: retort.load({}, Settings)]
            return [lambda: retort.dump(Point(1, 2), Point), lambda: retort.load([1, 2], Point), lambda: retort.load({}, Point)]
        if what == "load":
            return [lambda: retort.load(datum, Node), lambda: retort.load(bad, Node)]
        return [lambda: retort.dump(obj, Node)]

    def race(retort, schedule, record):
        outs = [None, None]

        def body(sched, i):
            outs[i] = [outcome(c) for c in calls(retort, i)]

        sched = Scheduler([body, body], schedule, traced_files=traced, no_yield=frozenset({"generate_idx"}),
                          grace=3.0, block_detect=0.2, max_steps=3_000_000, record=record, engine="monitoring")
        res = sched.run()
        return outs, res

    if arg["mode"] == "profile_all":
        # every distinct line the first thread executes (no cold / warm distinction): for state shared between requests through
        # objects that outlive a request (providers of the class-level recipe ...)
        _, res = race(make_retort(), {"prio": arg.get("prio", [0, 1]), "cp": []}, True)
        first = arg.get("prio", [0, 1])[0]
        seen, points = set(), []
        for g, (idx, name, line) in enumerate(res.log):
            if idx == first and (name, line) not in seen:
                seen.add((name, line))
                points.append([g, name, line])
        return {"status": res.status, "points": points, "steps": len(res.log)}
    if arg["mode"] == "profile":
        _, res_cold = race(Retort(), {"prio": [0, 1], "cp": []}, True)
        _, res_warm = race(Retort(), {"prio": [0, 1], "cp": []}, True)
        warm = {(name, line) for _, name, line in res_warm.log}
        seen, points = set(), []
        for g, (idx, name, line) in enumerate(res_cold.log):
            if idx == 0 and (name, line) not in warm and (name, line) not in seen:
                seen.add((name, line))
                points.append([g, name, line])
        return {"status": res_cold.status, "points": points, "cold_steps": len(res_cold.log), "warm_steps": len(res_warm.log)}

    retort = make_retort()
    outs, res = race(retort, {"prio": arg.get("prio", [0, 1]), "cp": [int(arg["cp"])]}, False)
    if res.status != "ok":
        return {"status": res.status, "ok": True, "inconclusive": True}
    later = [[outcome(c) for c in calls(retort, i)] for i in (0, 1)]
    fresh = make_retort()
    ref = [[outcome(c) for c in calls(fresh, i)] for i in (0, 1)]
    where = [[sw.func, sw.line] for sw in res.switches][:2]
    diffs = []
    for name, got, exp in (("thread0", outs[0], ref[0]), ("thread1", outs[1], ref[1]), ("later0", later[0], ref[0]),
                           ("later1", later[1], ref[1])):
        if got != exp:
            diffs.append({"who": name, "got": got, "expected": exp})
    return {"status": "ok", "ok": not diffs, "diffs": diffs[:2], "switched": bool(res.switches), "where": where,
            "errors": [repr(e) for _, e in res.errors][:1]}


def _child_main(raw: str):
    try:
        out = _child(json.loads(raw))
    except BaseException as ex:  # noqa: BLE001
        import traceback  # noqa: PLC0415
        out = {"status": "child_crashed", "error": "".join(traceback.format_exception(type(ex), ex, ex.__traceback__))[-1500:]}
    print(json.dumps(out), flush=True)
    os._exit(0)


# ------------------------------------------------------------------------------------------------ parent side
def run_child(arg: dict, timeout: float = 120.0) -> dict:
    cmd = [sys.executable, "-m", "props.cold12", "--child", json.dumps(arg)]
    try:
        p = subprocess.run(cmd, cwd=HERE, capture_output=True, text=True, timeout=timeout, check=False)  # noqa: S603
    except subprocess.TimeoutExpired:
        return {"status": "timeout"}
    for line in reversed(p.stdout.splitlines()):
        if line.startswith("{"):
            return json.loads(line)
    return {"status": "no_output", "stderr": p.stderr[-400:]}


def check_cold_case(ctx, case):
    """case = {"cold": True, "what": "load"|"dump", "cp": k, "func": name, "line": n[, "program": "two_models", "prio": [..]]}"""
    out = run_child({"mode": "run", "cp": case["cp"], "what": case["what"], "program": case.get("program", "same_model"),
                     "prio": case.get("prio", [0, 1])})
    status = out.get("status")
    if status != "ok" or out.get("inconclusive"):
        ctx.count(f"cold_inconclusive:{status}")
        return
    prog = case.get("program", "same_model")
    ctx.case(["cold", prog, case["what"], case["cp"], case.get("prio")], bool(out.get("switched")),
             sample={"cold": True, "program": prog, "what": case["what"], "preempted_at": [case.get("func"), case.get("line")]},
             labels=["part:cold_process" if prog == "same_model" else "part:two_models_all_files", f"cold:{case['what']}",
                     *(["cold:switched"] if out.get("switched") else [])])
    if not out["ok"]:
        d = out["diffs"][0]
        got = d["got"]
        exc = next((o[1][0] for o in got if o and o[0] == "err" and o not in d["expected"]), "value")
        if prog == "two_models":
            ctx.violation("two_models_race", (str(exc), d["who"].rstrip("01")), case,
                          f"fresh interpreter, one shared retort, one thread dumps / loads Settings (empty layout), the other Point "
                          f"(list layout); the first thread was parked at yield point {case['cp']} ({case.get('func')}:"
                          f"{case.get('line')}) while the other ran all its calls: {d['who']} got {d['got']!r}, a single thread "
                          f"gets {d['expected']!r}")
            return
        ctx.violation("cold_first_use_race", (case["what"], str(exc), str(case.get("func"))), case,
                      f"fresh interpreter, two threads {case['what']} the same model for the first time in the process; thread 0 "
                      f"parked at yield point {case['cp']} ({case.get('func')}:{case.get('line')}) while thread 1 ran its whole "
                      f"call: {d['who']} got {d['got']!r}, a single thread gets {d['expected']!r}")


def explore_cold(ctx, per_shard: int):
    """Profile once (per shard: shards are separate processes), then this shard's slice of the cold-only lines."""
    for what in ("load", "dump"):
        prof = run_child({"mode": "profile", "what": what})
        if prof.get("status") != "ok":
            ctx.note(f"cold profile ({what}) failed: {prof.get('status')} {str(prof.get('error') or prof.get('stderr'))[-300:]}")
            ctx.count("cold_profile_failed")
            continue
        points = prof["points"]
        ctx.count(f"cold_only_lines_{what}", len(points) if ctx.shard == 0 else 0)
        order = list(range(len(points)))
        random.Random(ctx.base_seed * 1000003 + (0 if what == "load" else 1)).shuffle(order)
        n = max(1, per_shard // 2)
        mine = order[ctx.shard * n:(ctx.shard + 1) * n]
        for i in mine:
            if ctx.out_of_time():
                return
            g, name, line = points[i]
            check_cold_case(ctx, {"cold": True, "what": what, "cp": g, "func": name, "line": line})
    # two DIFFERENT models on one retort, line events on every file: a sample of all distinct lines of the first thread
    for prio in ([0, 1], [1, 0]):
        prof = run_child({"mode": "profile_all", "program": "two_models", "prio": prio})
        if prof.get("status") != "ok":
            ctx.count("two_models_profile_failed")
            continue
        points = prof["points"]
        ctx.count("two_models_distinct_lines", len(points) if ctx.shard == 0 else 0)
        order = list(range(len(points)))
        random.Random(ctx.base_seed * 7919 + prio[0]).shuffle(order)
        n = max(1, per_shard // 2)
        for i in order[ctx.shard * n:(ctx.shard + 1) * n]:
            if ctx.out_of_time():
                return
            g, name, line = points[i]
            check_cold_case(ctx, {"cold": True, "program": "two_models", "what": "both", "cp": g, "func": name, "line": line,
                                  "prio": prio})
    ctx.note("cold-process part: every schedule in a fresh interpreter, line events on every file of the adaptix package; "
             "preemption points = lines executed only by the first (cold) creation of the process, a seed-dependent sample")


if __name__ == "__main__":
    if len(sys.argv) >= 3 and sys.argv[1] == "--child":
        _child_main(sys.argv[2])
