"""C12, cold-process part: two threads race on the FIRST model loader / dumper creation of a process.

State that adaptix initialises lazily once per process (class-level tables such as ``Overlay._mergers``, module-level caches,
one-element memos of providers living in the class-level recipe) is raced only by the very first requests of a process, so the
in-process exploration of props/c12_concurrency.py -- whose reference run warms the process up before any race -- cannot reach
it.  Here every schedule runs in a process that has never built a retort.

What is explored is the product  SCENARIO x thread order x preemption point:

* a *scenario* (``SCENARIOS``, pure data) = models + a retort recipe + the calls of the two threads.  The recipes are chosen so
  that the RESULT of the calls depends on every piece of process-wide lazily initialised state the first request touches: all
  three overlay classes of the name layout (structure: chained ``name_mapping(map=...)`` providers whose maps must be
  concatenated, skip / only / name_style / trim_trailing_underscore / as_list; sieves: omit_default; extra policies: extra_in /
  extra_out), overlays merged along a provider chain and along the MRO of the model, several models per retort.  A lost or
  half-built merge table is then visible as a wrong key / a wrong policy, not only as an exception.
* preemption points come from a line profile with line events on EVERY file of the adaptix package: the lines that a cold
  sequential run of the scenario executes and a warm one (same process, fresh retort) does not -- the code that runs once per
  process, wherever it lives.  Quick: the first occurrence of every such line (exhaustive) plus a seed-dependent sample of the
  later occurrences; thorough: every occurrence.  Scenarios marked ``all_lines`` (two DIFFERENT models on the two threads: state
  shared through objects that outlive a request) use all distinct lines of the first thread instead.

Oracle (the property's): both threads finish; every call made during the race, every later call on the raced retort and every
call on a fresh retort made after the race has the outcome of a single-threaded run -- taken from a clean process that never ran
two threads (so a race that corrupts process-wide state for good cannot corrupt the reference as well).

Processes: a *zygote* (``--zygote``) imports adaptix, defines the models and then only forks: every request (profile, reference,
one schedule) runs in a fork of that never-used image, ~8x cheaper than a fresh interpreter.  At the start of every shard one
profile is also taken in a really fresh interpreter (``--child``) and must be identical to the zygote's.  A hang is confirmed in
a fresh interpreter with a longer grace period before it is reported.

The parent side (``explore_cold`` / ``check_cold_case``) is called from props/c12_concurrency.py.
"""
import atexit
import json
import os
import random
import re
import select
import signal
import subprocess
import sys
import time
import types

HERE = os.path.dirname(os.path.dirname(os.path.abspath(__file__)))


# ------------------------------------------------------------------------------------------------ models
# Source, not classes: it is executed twice, into the modules cold12_models_a (the models every schedule uses) and
# cold12_models_b (equal but distinct classes: what a process that is already warm does when it meets NEW types)
MODELS_SRC = '''
import dataclasses
import enum
from typing import Dict, Generic, List, Literal, NamedTuple, Optional, TypedDict, TypeVar, Union


class Color(enum.Enum):
    RED = 1


@dataclasses.dataclass
class Leaf:
    c: Color
    t: Optional[str] = None


@dataclasses.dataclass
class Settings:          # with name_mapping(skip=...) its layout is EMPTY
    debug: bool = False


@dataclasses.dataclass
class Point:
    x: int
    y: int


@dataclasses.dataclass
class Node:
    value: int
    leaf: Leaf
    children: List["Node"]
    tags: Dict[str, int] = dataclasses.field(default_factory=dict)


@dataclasses.dataclass
class Pair:
    a: int
    b: int
    c_: int = 0


@dataclasses.dataclass
class Doc:
    title: str
    body_text: str = ""
    page_count: int = 0
    secret: str = "s"
    tags_: List[str] = dataclasses.field(default_factory=list)
    class_: str = "c"
    rest: dict = dataclasses.field(default_factory=dict)


@dataclasses.dataclass
class Base:
    id: int
    kind: str = "k"
    sort_key: int = 0


@dataclasses.dataclass
class Child(Base):
    name: str = ""


@dataclasses.dataclass
class Box:
    pair: Pair
    docs: List[Doc] = dataclasses.field(default_factory=list)


T = TypeVar("T")


@dataclasses.dataclass
class Gen(Generic[T]):
    item: T
    items: List[T] = dataclasses.field(default_factory=list)


class NT(NamedTuple):
    p: int
    q: str = "q"


class TD(TypedDict, total=False):
    k: int
    l_: str


@dataclasses.dataclass
class Zoo:
    lit: Literal["a", "b"]
    uni: Union[int, str]
    nt: NT
    td: TD
    gen: Gen[int]
    color: Color = Color.RED
    opt: Optional[Pair] = None
'''


# ------------------------------------------------------------------------------------------------ scenarios (pure data)
def _dump(tp, src):
    return ["dump", tp, src]


def _load(tp, src):
    return ["load", tp, src]


_NODE_DATUM = ("{'value': 1, 'leaf': {'c': 1}, 'children': [{'value': 2, 'leaf': {'c': 1, 't': 'x'}, 'children': [], "
               "'tags': {'a': 1}}]}")
_NODE_BAD = "{'value': 1, 'leaf': {'c': 5}, 'children': [{'value': 'x', 'leaf': {'c': 1}, 'children': []}]}"
_NODE_OBJ = "Node(1, Leaf(Color.RED), [Node(2, Leaf(Color.RED, 'x'), [], {'a': 1})])"

# three links that apply to Doc, each sets some options, several options are set by more than one link (the first wins, maps are
# concatenated): every field of the three overlay classes is merged at least once with both sides present
_POLICY_RECIPE = (
    "[name_mapping(Doc, map={'title': 'Title'}, omit_default=True),"
    " name_mapping(Doc, skip=['secret', 'rest'], map=[('body_text', 'Body')], extra_in=ExtraForbid(), extra_out='rest',"
    "              omit_default=False, name_style=NameStyle.UPPER_SNAKE),"
    " name_mapping(name_style=NameStyle.CAMEL, trim_trailing_underscore=False, map={'tags_': 'labels', 'title': 'T'},"
    "              extra_in=ExtraSkip(), extra_out=ExtraSkip(), skip=['c_'])]"
)
_DOC_FULL = "Doc('t', 'b', 3, 'x', ['k'], 'd', {'z': 1})"
_DOC_MIN = "Doc('t')"
_DOC_CALLS_A = [_dump("Doc", _DOC_FULL), _dump("Doc", _DOC_MIN), _load("Doc", "{'Title': 't', 'zzz': 1}")]
_DOC_CALLS_B = [_load("Doc", "{'Title': 't', 'Body': 'b', 'PAGE_COUNT': 2, 'labels': ['x']}"), _load("Doc", "{'T': 't'}"),
                _load("Doc", "{'Title': 't'}"), _dump("Doc", _DOC_FULL)]

_ZOO_OBJ = "Zoo('a', 'u', NT(1), {'k': 1, 'l_': 'x'}, Gen(1, [2]), Color.RED, Pair(1, 2, 3))"
_ZOO_DATUM = ("{'lit': 'b', 'uni': 5, 'nt': [1, 'z'], 'td': {'k': 2}, 'gen': {'item': 1, 'items': [2, 3]}, 'color': 1, "
              "'opt': {'A': 1, 'B': 2}}")
_ZOO_BAD = "{'lit': 'c', 'uni': None, 'nt': [1], 'td': {'k': 'x'}, 'gen': {'item': 'x'}, 'opt': {'a': 1, 'b': 2}}"

SCENARIOS: dict = {
    # the default recipe only (plain Retort()), one recursive model with an enum, Optional, List, Dict
    "plain_load": {"recipe": "[]", "threads": [[_load("Node", _NODE_DATUM), _load("Node", _NODE_BAD)]] * 2},
    "plain_dump": {"recipe": "[]", "threads": [[_dump("Node", _NODE_OBJ)]] * 2},
    # two models whose name layouts differ in every option a layout maker could remember between two calls
    "two_models": {
        "recipe": "[name_mapping(Point, as_list=True), name_mapping(Settings, skip=['debug'])]",
        "threads": [[_dump("Settings", "Settings()"), _load("Settings", "{}")],
                    [_dump("Point", "Point(1, 2)"), _load("Point", "[1, 2]"), _load("Point", "{}")]],
        "points": "all_lines", "orders": [[0, 1], [1, 0]],
    },
    # two name_mapping(map=...) providers apply to one model: the maps must be concatenated, not replaced
    "chained_maps": {
        "recipe": "[name_mapping(Pair, map={'a': 'A'}), name_mapping(map={'b': 'B'})]",
        "threads": [[_dump("Pair", "Pair(1, 2, 3)"), _load("Pair", "{'A': 1, 'B': 2, 'c': 5}")],
                    [_load("Pair", "{'A': 1, 'B': 2}"), _load("Pair", "{'a': 1, 'b': 2}"), _dump("Pair", "Pair(1, 2)")]],
        "orders": [[0, 1], [1, 0]],
    },
    # every option of every overlay class set by chained providers (see _POLICY_RECIPE)
    "policies": {"recipe": _POLICY_RECIPE, "threads": [_DOC_CALLS_A, _DOC_CALLS_B], "orders": [[0, 1], [1, 0]]},
    # overlays merged along the MRO of the model and along the chain
    "inherited": {
        "recipe": ("[name_mapping(Child, map={'name': 'Name'}, only=['id', 'name', 'sort_key']), name_mapping(Base, map={'id': 'ID'},"
                   " name_style=NameStyle.CAMEL, omit_default=True), name_mapping(map={'kind': 'Kind', 'id': 'Id'},"
                   " only=['id', 'kind'], omit_default=False, name_style=NameStyle.UPPER_DOT)]"),
        "threads": [[_dump("Child", "Child(1, 'q', 5, 'n')"), _load("Base", "{'ID': 1, 'sortKey': 2}"), _dump("Child", "Child(1)")],
                    [_load("Child", "{'Id': 1, 'Kind': 'k', 'Name': 'n', 'SORT.KEY': 3}"), _load("Child", "{'ID': 1}"),
                     _dump("Base", "Base(1, 'q', 7)")]],
        "orders": [[0, 1], [1, 0]],
    },
    # the chained policies of one model race with the chained maps of another model nested in a third one
    "nested_two_chains": {
        "recipe": "[name_mapping(Pair, map={'a': 'A'}), name_mapping(Box, map={'pair': 'P'}), *" + _POLICY_RECIPE + "]",
        "threads": [[_dump("Box", "Box(Pair(1, 2), [" + _DOC_FULL + "])"),
                     _load("Box", "{'P': {'A': 1, 'b': 2}, 'docs': [{'Title': 't'}]}")],
                    [*_DOC_CALLS_B[:2], _dump("Pair", "Pair(1, 2)"), _load("Box", "{'P': {'A': 1, 'B': 2}}")]],
        "points": "all_lines", "orders": [[0, 1], [1, 0]],
    },
    # many kinds of types and shapes in the first request of the process (Literal, Union, NamedTuple, TypedDict, generic model,
    # enum, Optional model) under a chained recipe
    "zoo": {
        "recipe": "[name_mapping(Pair, map={'a': 'A'}), name_mapping(TD, map={'l_': 'L'}), name_mapping(map={'b': 'B'})]",
        "threads": [[_dump("Zoo", _ZOO_OBJ), _load("Zoo", _ZOO_BAD)], [_load("Zoo", _ZOO_DATUM), _dump("Zoo", _ZOO_OBJ)]],
        "orders": [[0, 1], [1, 0]],
    },
}
_OLD_PROGRAMS = {("same_model", "load"): "plain_load", ("same_model", "dump"): "plain_dump", ("two_models", "both"): "two_models"}


def scenario_of(case: dict) -> str:
    if "scenario" in case:
        return case["scenario"]
    return _OLD_PROGRAMS[(case.get("program", "same_model"), case.get("what", "load"))]   # cases recorded by older versions


# ------------------------------------------------------------------------------------------------ child side
_ENV = {}


def _prepare() -> dict:
    """Imports only: nothing here may build a retort or ask adaptix for anything (the image must stay cold)."""
    if _ENV:
        return _ENV
    sys.path.insert(0, HERE)
    from vkit import env  # noqa: PLC0415
    env.import_adaptix()
    import adaptix  # noqa: PLC0415
    from adaptix.load_error import LoadError  # noqa: PLC0415
    from vkit.errors import leaves  # noqa: PLC0415
    from vkit.sched import Scheduler  # noqa: PLC0415

    pkg = os.path.dirname(adaptix.__file__)
    spaces = {}
    for tag in ("a", "b"):
        mod = types.ModuleType(f"cold12_models_{tag}")
        sys.modules[mod.__name__] = mod
        exec(compile(MODELS_SRC, f"<cold12 models {tag}>", "exec"), mod.__dict__)  # noqa: S102 -- stdlib only, no adaptix code runs
        for name in ("Retort", "name_mapping", "NameStyle", "ExtraForbid", "ExtraSkip", "ExtraCollect", "Chain", "P"):
            mod.__dict__[name] = getattr(adaptix, name)
        spaces[tag] = mod.__dict__
    _ENV.update(
        pkg=pkg, spaces=spaces, LoadError=LoadError, leaves=leaves, Scheduler=Scheduler, Retort=adaptix.Retort,
        traced=frozenset(os.path.join(d, n) for d, _, names in os.walk(pkg) for n in names if n.endswith(".py")),
    )
    return _ENV


_ADDR = re.compile(r"0x[0-9a-fA-F]+")
_NO_YIELD = frozenset({"generate_idx"})   # the body of the only real lock


def _child(arg: dict) -> dict:  # noqa: C901, PLR0915
    e = _prepare()
    spaces, LoadError, leaves, Scheduler, Retort = e["spaces"], e["LoadError"], e["leaves"], e["Scheduler"], e["Retort"]
    scen = SCENARIOS[arg["scenario"]]
    prio = arg.get("prio", [0, 1])

    def exc_struct(ex):
        if isinstance(ex, (LoadError, BaseExceptionGroup)):
            return [type(ex).__name__, sorted([repr(list(trail)), type(leaf).__name__, _ADDR.sub("0x", repr(leaf))[:160]]
                                              for trail, leaf in leaves(ex))]
        return [type(ex).__name__, _ADDR.sub("0x", str(ex))[:160]]

    def outcome(fn):
        try:
            return ["ok", repr(fn())]
        except Exception as ex:  # noqa: BLE001 -- the observed behaviour of the code under test: it becomes the outcome
            return ["err", exc_struct(ex)]

    def make_retort(tag="a"):
        return Retort(recipe=eval(scen["recipe"], spaces[tag]))  # noqa: S307

    def calls(retort, i, tag="a"):
        ns = spaces[tag]
        out = []
        for kind, tp, src in scen["threads"][i]:
            hint, datum = ns[tp], eval(src, ns)  # noqa: S307
            out.append((lambda d=datum, h=hint: retort.load(d, h)) if kind == "load" else (lambda d=datum, h=hint: retort.dump(d, h)))
        return out

    def race(retort, schedule, record, tag="a"):
        outs = [None, None]

        def body(sched, i):
            outs[i] = [outcome(c) for c in calls(retort, i, tag)]

        sched = Scheduler([body, body], schedule, traced_files=e["traced"], no_yield=_NO_YIELD,
                          grace=float(arg.get("grace", 3.0)), block_detect=0.2, max_steps=3_000_000, record=record,
                          engine="monitoring", log_files=True)
        res = sched.run()
        return outs, res

    mode = arg["mode"]
    if mode == "reference":
        # a clean single-threaded process: no second thread, no tracing
        fresh = make_retort()
        return {"status": "ok", "ref": [[outcome(c) for c in calls(fresh, i)] for i in (0, 1)]}
    if mode == "profile":
        # three sequential recorded runs (threads in priority order), each on a fresh retort: COLD process; the warm process
        # meeting NEW TYPES (equal models, distinct classes); the warm process meeting the SAME types again.
        # Per yield point of the first thread of the cold run:
        #   kind 2 = its line runs once per PROCESS (not executed again for new types), 1 = once per TYPE (executed for new types,
        #   not for known ones), 0 = every time
        _, res_cold = race(make_retort(), {"prio": prio, "cp": []}, True)
        if res_cold.status != "ok" or res_cold.fallbacks:
            return {"status": "profile_" + res_cold.status, "fallbacks": res_cold.fallbacks}
        _, res_new = race(make_retort("b"), {"prio": prio, "cp": []}, True, "b")
        _, res_warm = race(make_retort(), {"prio": prio, "cp": []}, True)
        new_types = {(name, line) for _, name, line in res_new.log}
        warm = {(name, line) for _, name, line in res_warm.log}
        first = prio[0]
        # [global yield index, file:function, line, 1 = first occurrence of the line, kind]
        seen, points = set(), []
        for g, (idx, name, line) in enumerate(res_cold.log):
            if idx != first:
                continue
            key = (name, line)
            kind = 0 if key in warm else 1 if key in new_types else 2
            new = key not in seen
            seen.add(key)
            if kind or (new and scen.get("points") == "all_lines"):
                points.append([g, name, line, int(new), kind])
        return {"status": "ok", "points": points, "cold_steps": len(res_cold.log), "new_types_steps": len(res_new.log),
                "warm_steps": len(res_warm.log), "first_steps": res_cold.per_thread_steps[first]}

    retort = make_retort()
    outs, res = race(retort, {"prio": prio, "cp": [int(arg["cp"])]}, False)
    if res.status != "ok":
        return {"status": res.status, "blocked_at": [[i, w] for i, w in res.blocked_at]}
    if res.errors:
        raise res.errors[0][1]
    later = [[outcome(c) for c in calls(retort, i)] for i in (0, 1)]
    fresh = make_retort()
    after = [[outcome(c) for c in calls(fresh, i)] for i in (0, 1)]
    return {"status": "ok", "race": outs, "later": later, "fresh_after": after, "switched": bool(res.switches),
            "fallbacks": res.fallbacks, "where": [[sw.file[len(e["pkg"]) + 1:], sw.func, sw.line] for sw in res.switches][:2]}


def _guarded_child(raw: str) -> str:
    try:
        out = _child(json.loads(raw))
    except BaseException as ex:  # noqa: BLE001 -- reported to the parent, which turns it into a harness error
        import traceback  # noqa: PLC0415
        out = {"status": "child_crashed", "error": "".join(traceback.format_exception(type(ex), ex, ex.__traceback__))[-1500:]}
    return json.dumps(out)


def _child_main(raw: str):
    print(_guarded_child(raw), flush=True)
    os._exit(0)


def _zygote_main():
    """Import, then fork once per request line; the image itself never builds a retort."""
    e = _prepare()
    # instrumenting the code objects runs no adaptix code; done once here instead of once per fork
    from vkit.sched import _Monitor  # noqa: PLC0415
    _Monitor.install(e["traced"], _NO_YIELD)
    print(json.dumps({"status": "ready"}), flush=True)
    for raw in sys.stdin:
        raw = raw.strip()
        if not raw:
            continue
        timeout = float(json.loads(raw).get("timeout", 60.0))
        r, w = os.pipe()
        pid = os.fork()
        if pid == 0:
            os.close(r)
            data = _guarded_child(raw).encode()
            while data:
                data = data[os.write(w, data):]
            os._exit(0)
        os.close(w)
        chunks, deadline, timed_out = [], time.monotonic() + timeout, False
        while True:
            left = deadline - time.monotonic()
            ready = select.select([r], [], [], max(left, 0))[0] if left > 0 else []
            if not ready:
                timed_out = True
                os.kill(pid, signal.SIGKILL)
                break
            chunk = os.read(r, 1 << 16)
            if not chunk:
                break
            chunks.append(chunk)
        os.close(r)
        os.waitpid(pid, 0)
        text = b"".join(chunks).decode()
        if timed_out or not text.startswith("{"):
            text = json.dumps({"status": "timeout" if timed_out else "no_output"})
        print(text, flush=True)


# ------------------------------------------------------------------------------------------------ parent side
def _child_env() -> dict:
    # outcomes (reprs of sets in error messages) are compared ACROSS processes: string hashing must not be randomised
    return dict(os.environ, PYTHONHASHSEED="0", PYTHONDONTWRITEBYTECODE="1")


class _Zygote:
    proc = None

    @classmethod
    def start(cls):
        if cls.proc is not None and cls.proc.poll() is None:
            return
        cls.proc = subprocess.Popen([sys.executable, "-m", "props.cold12", "--zygote"], cwd=HERE, stdin=subprocess.PIPE,  # noqa: S603
                                    stdout=subprocess.PIPE, text=True, bufsize=1, env=_child_env())
        line = cls.proc.stdout.readline()
        if '"ready"' not in line:
            cls.stop()
            raise RuntimeError(f"cold12 zygote did not start: {line!r}")

    @classmethod
    def stop(cls):
        p, cls.proc = cls.proc, None
        if p is not None:
            try:
                p.stdin.close()
                p.wait(timeout=5)
            except Exception:  # noqa: BLE001 -- cleanup of a helper process
                p.kill()

    @classmethod
    def request(cls, arg: dict) -> dict:
        cls.start()
        try:
            cls.proc.stdin.write(json.dumps(arg) + "\n")
            cls.proc.stdin.flush()
            line = cls.proc.stdout.readline()
        except (BrokenPipeError, OSError):
            line = ""
        if not line.startswith("{"):
            cls.stop()
            return {"status": "zygote_died"}
        return json.loads(line)


atexit.register(_Zygote.stop)


def run_fresh(arg: dict, timeout: float = 120.0) -> dict:
    """The same request in a really fresh interpreter."""
    cmd = [sys.executable, "-m", "props.cold12", "--child", json.dumps(arg)]
    try:
        p = subprocess.run(cmd, cwd=HERE, capture_output=True, text=True, timeout=timeout, check=False, env=_child_env())  # noqa: S603
    except subprocess.TimeoutExpired:
        return {"status": "timeout"}
    for line in reversed(p.stdout.splitlines()):
        if line.startswith("{"):
            return json.loads(line)
    return {"status": "no_output", "stderr": p.stderr[-400:]}


def run_child(arg: dict) -> dict:
    out = _Zygote.request(arg)
    if out.get("status") == "child_crashed":
        from vkit import env  # noqa: PLC0415
        raise env.HarnessError(f"cold12 child crashed on {arg!r}: {out.get('error')}")
    return out


_REFS: dict = {}


def reference(scenario: str):
    """Outcomes of all calls of the scenario in a clean single-threaded process (twice: they must not depend on the process)."""
    ref = _REFS.get(scenario)
    if ref is None:
        a = run_child({"mode": "reference", "scenario": scenario})
        b = run_child({"mode": "reference", "scenario": scenario})
        if a.get("status") != "ok" or a != b:
            from vkit import env  # noqa: PLC0415
            raise env.HarnessError(f"cold12 reference of {scenario} is not reproducible: {a!r} / {b!r}")
        ref = _REFS[scenario] = a["ref"]
    return ref


def _first_bad(got, exp):
    """-> (index of the first differing call, exception type or 'value')"""
    for k, (g, x) in enumerate(zip(got, exp)):
        if g != x:
            return k, (g[1][0] if g[0] == "err" else "value")
    return len(exp), "missing"


def check_cold_case(ctx, case):  # noqa: C901
    """case = {"cold": True, "scenario": name, "prio": [..], "cp": k, "file": .., "func": .., "line": n}"""
    scenario = scenario_of(case)
    prio = case.get("prio") or [0, 1]
    arg = {"mode": "run", "scenario": scenario, "cp": case["cp"], "prio": prio}
    out = run_child(arg)
    status = out.get("status")
    if status == "hang":
        ctx.count("cold_hang_observed")
        second = run_fresh(dict(arg, grace=9.0))
        if second.get("status") == "hang":
            ctx.violation("deadlock", ("cold", scenario, str(case.get("func"))), case,
                          f"process that never built a retort, scenario {scenario}: all unfinished threads blocked (twice, the "
                          f"second time in a fresh interpreter with a 9 s grace period): {second.get('blocked_at')!r}")
        else:
            ctx.count("cold_inconclusive:hang_not_reproduced")
        return
    if status != "ok":
        ctx.count(f"cold_inconclusive:{status}")
        return
    ref = reference(scenario)
    diffs = []
    for name, got in (("race", out["race"]), ("later", out["later"]), ("fresh_retort_after_race", out["fresh_after"])):
        for i in (0, 1):
            if got[i] != ref[i]:
                diffs.append((name, i, got[i], ref[i]))
    if diffs and out.get("fallbacks"):
        # a thread was blocked for real: the run was not a pure function of the schedule, demand the same differences again
        ctx.count("cold_runs_with_liveness_fallback")
        again = run_child(arg)
        if again.get("status") != "ok" or any(again[k] != out[k] for k in ("race", "later", "fresh_after")):
            ctx.count("cold_inconclusive:not_reproducible_after_fallback")
            return
    spec = SCENARIOS[scenario]
    where = [case.get("file"), case.get("func"), case.get("line")]
    ctx.case(["cold", scenario, prio, case["cp"]], bool(out.get("switched")),
             sample={"cold": True, "scenario": scenario, "prio": prio, "cp": case["cp"], "preempted_at": out.get("where") or where},
             labels=["part:cold_process", f"cold:{scenario}", f"cold_points:{spec.get('points', 'cold_only')}",
                     *(["cold:switched"] if out.get("switched") else []),
                     *(["cold:preempted_outside_retort_files"] if out.get("switched") and out["where"]
                       and not _in_retort_files(out["where"][0][0]) else [])])
    ctx.count("cold_calls_compared", 3 * sum(len(t) for t in spec["threads"]))
    for name, i, got, exp in diffs[:3]:
        k, exc = _first_bad(got, exp)
        op = spec["threads"][i][k] if k < len(spec["threads"][i]) else ["?", "?", "?"]
        ctx.violation("cold_first_use_race", (scenario, name, op[0], str(exc), str(case.get("func"))), case,
                      f"process that never built a retort; one shared Retort(recipe={spec['recipe']}); thread {prio[0]} was parked "
                      f"at yield point {case['cp']} ({where}) while thread {prio[1]} ran all its calls; {name}: thread {i} call "
                      f"#{k} {op[0]}({op[1]}, {op[2]}) gave {got[k] if k < len(got) else None!r}, a single-threaded run in a clean "
                      f"process gives {exp[k] if k < len(exp) else None!r}")


def _in_retort_files(rel: str) -> bool:
    rel = rel.replace(os.sep, "/")
    return rel.startswith("_internal/retort/") or rel in ("_internal/morphing/facade/retort.py", "_internal/provider/essential.py",
                                                           "_internal/code_tools/compiler.py")


def _split_func(name: str):
    file, _, func = name.rpartition(":")
    return file, func


def explore_cold(ctx, extra_per_shard: int):  # noqa: C901, PLR0912, PLR0915
    """Schedules of this shard.  A *unit* is (scenario, thread order); its profile classifies the lines of the first thread:
    once per PROCESS (a warm process does not execute them even for new types), once per TYPE, every time.

    must, quick (never sampled; first occurrence of the line): every once-per-process line in every scenario that executes it (in
    the other thread order: those that every scenario executes); every once-per-type line in one scenario (seed-dependent choice).
    must, thorough: every once-per-process / once-per-type line in every unit.
    extra (seed-dependent sample, the same share for every unit, ``extra_per_shard`` per shard; thorough: up to all): the remaining
    (unit, line) pairs, later occurrences of those lines, all distinct lines of the first thread for the ``all_lines`` scenarios.
    """
    from vkit import env  # noqa: PLC0415
    from vkit.runner import h64  # noqa: PLC0415
    names = sorted(SCENARIOS)
    quick = ctx.tier == "quick"
    t0 = time.monotonic()

    def lap(what):
        if os.environ.get("C12_TIMING"):
            print(f"[C12 timing] shard {ctx.shard}: cold/{what} at {time.monotonic() - t0:.1f}s", file=sys.stderr, flush=True)

    # the zygote's forks must be as cold as a fresh interpreter: the same profile comes out of both (quick: two shards check one
    # scenario each, thorough: every shard; the fresh interpreter runs in the background meanwhile)
    probe, fresh_proc = None, None
    if not quick or ctx.shard < 2:
        probe = names[(ctx.base_seed + ctx.shard) % len(names)]
        fresh_proc = subprocess.Popen([sys.executable, "-m", "props.cold12", "--child",  # noqa: S603
                                       json.dumps({"mode": "profile", "scenario": probe, "prio": [0, 1]})],
                                      cwd=HERE, stdout=subprocess.PIPE, stderr=subprocess.DEVNULL, text=True, env=_child_env())

    def profile_of(name, prio):
        prof = run_child({"mode": "profile", "scenario": name, "prio": prio})
        if prof.get("status") != "ok":
            ctx.note(f"cold profile of {name} prio={prio} failed: {prof.get('status')}")
            ctx.count("cold_profile_failed")
            return None
        return prof

    forward = {}
    for name in names:
        prof = profile_of(name, [0, 1])
        if prof is not None:
            forward[name] = prof
    if fresh_proc is not None:
        text = fresh_proc.communicate(timeout=300)[0]
        got = next((json.loads(ln) for ln in reversed(text.splitlines()) if ln.startswith("{")), {"status": "no_output"})
        if got.get("status") == "ok" and probe in forward:
            if got != forward[probe]:
                raise env.HarnessError(f"profile of {probe} differs between a fork of the zygote and a fresh interpreter: "
                                       f"{len(got['points'])} / {len(forward[probe]['points'])} points")
            ctx.count("cold_zygote_equals_fresh_interpreter")
        else:
            ctx.count("cold_zygote_cross_check_inconclusive")
    lap("forward profiles")

    def first_of(prof, kind):
        return [p for p in prof["points"] if p[3] and p[4] == kind]

    per_process, per_type = {}, {}   # line -> forward scenarios where it runs once per process / once per type
    for name, prof in forward.items():
        for p in first_of(prof, 2):
            per_process.setdefault((p[1], p[2]), []).append(name)
        for p in first_of(prof, 1):
            per_type.setdefault((p[1], p[2]), []).append(name)
    universal = {ln for ln, sc in per_process.items() if len(sc) == len(forward)}
    chosen = {ln: sc[(h64([ln[0], ln[1]]) + ctx.base_seed) % len(sc)] for ln, sc in per_type.items()}
    if ctx.shard == 0:
        ctx.count("cold_once_per_process_lines_distinct", len(per_process))
        ctx.count("cold_once_per_process_lines_in_every_scenario", len(universal))
        ctx.count("cold_once_per_type_lines_distinct", len(per_type))
        for name, prof in forward.items():
            ctx.count(f"cold_once_per_process_lines:{name}", len(first_of(prof, 2)))
            ctx.count(f"cold_once_per_type_lines:{name}", len(first_of(prof, 1)))

    must, must_own, extra = [], [], []

    def sort_points(name, prio, prof, strided):
        spec = SCENARIOS[name]
        for p in prof["points"]:
            item = (name, prio, p)
            ln = (p[1], p[2])
            if not p[3]:
                take = False
            elif not quick:
                take = p[4] > 0
            elif prio == [0, 1]:
                take = p[4] == 2 or (p[4] == 1 and chosen.get(ln) == name)
            else:
                take = p[4] == 2 and ln in universal
            if take:
                (must if strided else must_own).append(item)
            elif p[4] or (p[3] and spec.get("points") == "all_lines"):
                extra.append(item)

    for name, prof in forward.items():
        sort_points(name, [0, 1], prof, True)
    # the other thread order: quick -- each such unit is profiled and explored by one shard only
    others = [(name, prio) for name in names for prio in SCENARIOS[name].get("orders", [[0, 1]]) if prio != [0, 1]]
    for k, (name, prio) in enumerate(others):
        if quick and k % ctx.nshards != ctx.shard:
            continue
        prof = profile_of(name, prio)
        if prof is not None:
            sort_points(name, prio, prof, not quick)
    lap("all profiles")
    # extras: the same share for every unit (the pools differ by two orders of magnitude), seed-dependent order inside a unit;
    # a unit that every shard has profiled is strided over the shards, a unit only this shard has profiled is all its own
    pools = {}
    for item in extra:
        pools.setdefault((item[0], tuple(item[1])), []).append(item)
    rnd = random.Random(ctx.base_seed * 1000003 + 12)
    for key in sorted(pools):
        rnd.shuffle(pools[key])
        if not quick or key[1] == (0, 1):
            pools[key] = pools[key][ctx.shard::ctx.nshards]
    n_extra = sum(map(len, pools.values()))
    # round robin over the units; an all_lines unit (its whole point set is "extra") takes three per round
    width = {key: 3 if SCENARIOS[key[0]].get("points") == "all_lines" else 1 for key in pools}
    rounds = max((-(-len(pool) // width[key]) for key, pool in pools.items()), default=0)
    extra = [item for k in range(rounds) for key, pool in sorted(pools.items()) for item in pool[k * width[key]:(k + 1) * width[key]]]
    my_extra = extra[:extra_per_shard]
    mine = must[ctx.shard::ctx.nshards] + must_own + my_extra
    done_all = True
    for name, prio, (g, fn, line, _new, _cold) in mine:
        if ctx.out_of_time():
            done_all = False
            break
        file, func = _split_func(fn)
        check_cold_case(ctx, {"cold": True, "scenario": name, "prio": prio, "cp": g, "file": file, "func": func, "line": line})
    lap(f"{len(mine)} schedules")
    if done_all and quick:
        ctx.mark_exhaustive(f"cold process: every line that runs once per process ({len(per_process)} distinct lines) is preempted in "
                            f"every scenario whose first thread executes it; the {len(universal)} of them that every scenario executes "
                            f"also in the other thread order; each of the {len(per_type)} lines that run once per type in one scenario")
    elif done_all:
        ctx.mark_exhaustive(f"cold process: all single-preemption schedules at the first occurrence of every once-per-process / "
                            f"once-per-type line, all {len(names)} scenarios x thread orders ({len(must)} schedules over all shards)")
        if extra_per_shard >= n_extra:
            ctx.mark_exhaustive("cold process: all further points (later occurrences of the once-per-process / once-per-type lines; "
                                "all distinct lines of the first thread for the all_lines scenarios)")
    ctx.note("cold-process part: every schedule in a fork of an image that has imported adaptix but never built a retort (its "
             "profile is compared with a fresh interpreter's), line events on every file of the adaptix package; reference from a "
             "clean single-threaded process")
    _Zygote.stop()


if __name__ == "__main__":
    if len(sys.argv) >= 3 and sys.argv[1] == "--child":
        _child_main(sys.argv[2])
    if len(sys.argv) >= 2 and sys.argv[1] == "--zygote":
        _zygote_main()
