"""C05 -- load errors are localised: trails are exact and, in ALL mode, complete.

Generated: nested type (lists, sets, dicts, tuples, optionals, models with renamed / nested / list layouts and
ExtraForbid) -> canonical value -> reference dump (JSON-like) -> a non-empty *antichain* of fault sites is corrupted
(wrong-typed leaf, wrong container kind, missing required key, unknown key under ExtraForbid, extra / missing tuple
item, bad dict key).  The harness knows each fault's absolute trail.

Oracle:
  ALL     the multiset of absolute trails of reported leaves (UnionLoadError = one leaf; missing / unknown keys of one
          node = one error whose ``fields`` equals the planted key set) == the multiset of planted fault trails;
          every leaf's ``input_value`` is what the trail reaches from the root of the corrupted datum;
  FIRST   exactly one non-group error, its trail is the full absolute trail of one planted fault;
  DISABLE no trail on anything that is raised.
"""
from __future__ import annotations

import copy
from collections import Counter

from vkit import env, runner
from vkit.errors import all_nodes, describe, exc_site, leaves

env.import_adaptix()

from hypothesis import strategies as st  # noqa: E402

from adaptix import DebugTrail, ExtraForbid, NameStyle, Retort, name_mapping  # noqa: E402
from adaptix import load_error as le  # noqa: E402
from adaptix.struct_trail import ItemKey, get_trail  # noqa: E402
from props.c18_enum_flag import ref_style  # noqa: E402
from vkit import codec, tspec  # noqa: E402

PROP = "C05"
DEBUG = [DebugTrail.DISABLE, DebugTrail.FIRST, DebugTrail.ALL]
GEN = tspec.TypeGen(max_depth=4, unions=False, any_types=True, wrappers=True, recursive_models=True)
BAD = codec.Opaque  # an instance of a class no builtin loader accepts (except Any / object, which get no fault site)


# ------------------------------------------------------------------------------------ layouts
@st.composite
def st_layouts(draw, t):
    out = {}
    for s in tspec.walk(t):
        if s[0] != "model" or draw(st.integers(0, 1)) == 0:
            continue
        ms = s[1]
        how = draw(st.sampled_from(["rename", "style", "nested", "nested+forbid", "as_list", "forbid", "rename+forbid"]))
        lay = {"how": how}
        if how == "as_list" and not all(f.get("d") is None for f in ms["fields"]):
            how = lay["how"] = "rename"
        if "rename" in how:
            lay["map"] = {f["n"]: f"K{i}" for i, f in enumerate(ms["fields"]) if draw(st.booleans())}
        if how == "style":
            lay["style"] = draw(st.sampled_from(["CAMEL", "UPPER_KEBAB", "PASCAL_DOT", "UPPER_SNAKE"]))
        if how in ("nested", "nested+forbid"):
            # also three levels deep, so that some container ("o1", "deep") holds only other containers
            lay["nest"] = {f["n"]: draw(st.sampled_from([["outer"], ["o1", "o2"], ["grp"], ["deep", "a", "x"], ["deep", "b"]]))
                           for f in ms["fields"] if draw(st.booleans())}
        out[ms["name"]] = lay
    return out


def field_path(ms, f, lay):
    if lay is None:
        return (tspec.model_key(f["n"]),)
    if lay["how"] == "as_list":
        return (tspec.list_index(ms, f),)
    key = tspec.model_key(f["n"])
    if lay.get("style"):
        key = ref_style(key, NameStyle[lay["style"]])
    if f["n"] in lay.get("map", {}):
        return (lay["map"][f["n"]],)
    if f["n"] in lay.get("nest", {}):
        return (*lay["nest"][f["n"]], key)
    return (key,)


def build_recipe(layouts, e):
    provs = []
    for name, lay in layouts.items():
        cls = e.classes[name]
        kw = {}
        if lay["how"] == "as_list":
            kw["as_list"] = True
        if lay.get("map"):
            kw["map"] = dict(lay["map"])
        if lay.get("style"):
            kw["name_style"] = NameStyle[lay["style"]]
        if lay.get("nest"):
            kw["map"] = {n: (*p, ...) for n, p in lay["nest"].items()}
        if "forbid" in lay["how"]:
            kw["extra_in"] = ExtraForbid()
        provs.append(name_mapping(cls, **kw))
    return provs


def ref_layouts(t, layouts):
    out = {}
    for s in tspec.walk(t):
        if s[0] == "model" and s[1]["name"] in layouts:
            ms, lay = s[1], layouts[s[1]["name"]]
            out[ms["name"]] = {"as_list": True} if lay["how"] == "as_list" else \
                {"paths": {f["n"]: field_path(ms, f, lay) for f in ms["fields"]}}
    return out


# ------------------------------------------------------------------------------------ fault sites
def mutable(d):
    if isinstance(d, (list, tuple)):
        return [mutable(x) for x in d]
    if isinstance(d, dict):
        return {k: mutable(v) for k, v in d.items()}
    return d


BAD_KEY = {"str": 5, "int": "x", "bool": "x", "float": "x", "decimal": 5, "date": 5, "uuid": 5, "bytes": 5}


class Site:
    __slots__ = ("at", "kill", "kind", "apply", "expect")

    def __init__(self, at, kill, kind, apply, expect):
        self.at, self.kill, self.kind, self.apply, self.expect = at, kill, kind, apply, expect


def collect_sites(spec, data, trail, parent, key, e, layouts, out):  # noqa: C901, PLR0912, PLR0915
    """Enumerate fault sites of ``data`` (== parent[key]) for type ``spec`` in a deterministic order."""
    s = tspec.strip(spec)
    tag = s[0]

    def replace(val):
        return lambda: parent.__setitem__(key, val)

    if tag in ("any", "object"):
        return
    if tag == "ref":
        s = ["model", e.specs[s[1]]]
        tag = "model"
    if tag == "optional":
        # a union is one leaf: whatever is wrong below it is reported at the union's own position
        out.append(Site(trail, trail, "wrong_type_optional", replace(BAD()), ("leaf", trail)))
        return
    compound = tag in ("list", "set", "frozenset", "vtuple", "deque", "abc", "tuple", "dict", "mapping",
                       "mutablemapping", "defaultdict", "model")
    if not compound:
        out.append(Site(trail, trail, "wrong_type", replace(BAD()), ("leaf", trail)))
        return
    out.append(Site(trail, trail, "wrong_container", replace(5), ("leaf", trail)))
    if tag in ("list", "set", "frozenset", "vtuple", "deque", "abc", "tuple"):
        # str and Mapping are the documented *excluded* types of strict iterable loaders (ExcludedTypeLoadError)
        out.append(Site(trail, trail, "wrong_container_str", replace("ab"), ("leaf", trail)))
        out.append(Site(trail, trail, "wrong_container_map", replace({"k": 1}), ("leaf", trail)))
    if tag in ("list", "set", "frozenset", "vtuple", "deque", "abc"):
        inner = s[2] if tag == "abc" else s[1]
        for i, x in enumerate(data):
            collect_sites(inner, x, (*trail, i), data, i, e, layouts, out)
    elif tag == "tuple":
        out.append(Site(trail, trail, "extra_item", lambda: data.append(None), ("leaf", trail, "ExtraItemsLoadError")))
        if data:
            out.append(Site(trail, trail, "missing_item", lambda: data.pop(), ("leaf", trail, "NoRequiredItemsLoadError")))
        for i, (ts, x) in enumerate(zip(s[1], data)):
            collect_sites(ts, x, (*trail, i), data, i, e, layouts, out)
    elif tag in ("dict", "mapping", "mutablemapping", "defaultdict"):
        ktag = tspec.strip(s[1])[0]
        bad_key = BAD_KEY.get(ktag, BAD_KEY["str"] if ktag == "enum" else None)
        if ktag == "enum":
            bad_key = 987654.5
        if bad_key is not None and data:
            sample_val = copy.deepcopy(next(iter(data.values())))
            t2 = (*trail, ItemKey(bad_key))
            out.append(Site(trail, (*trail, "<add-key>"), "bad_dict_key",
                            lambda: data.__setitem__(bad_key, sample_val), ("leaf", t2)))
            if tspec.strip(s[2])[0] not in ("any", "object"):
                # one item whose key and value are both invalid: two errors, one at ItemKey(key) and one at key
                out.append(Site(trail, (*trail, "<add-key>"), "bad_dict_key_and_value",
                                lambda: data.__setitem__(bad_key, BAD()), ("leaves", [t2, (*trail, bad_key)])))
        for k, x in list(data.items()):
            collect_sites(s[2], x, (*trail, k), data, k, e, layouts, out)
    elif tag == "model":
        ms = s[1]
        lay = layouts.get(ms["name"])
        if lay is not None and "forbid" in lay["how"]:
            out.append(Site(trail, (*trail, "<add-extra>"), "unknown_key",
                            lambda: data.__setitem__("zz_unknown", 1), ("extra", trail, "zz_unknown")))
            # the policy holds for every container of a flattened layout, also for one that holds only other containers
            inner = set()
            for f in ms["fields"]:
                pth = field_path(ms, f, lay)
                for k in range(1, len(pth)):
                    inner.add(pth[:k])
            for pth in sorted(inner):
                cur = data
                for k in pth:
                    cur = cur.get(k) if isinstance(cur, dict) else None
                if isinstance(cur, dict):
                    out.append(Site((*trail, *pth), (*trail, *pth, "<add-extra>"), "unknown_key_in_flattened_container",
                                    (lambda c: lambda: c.__setitem__("zz_unknown", 1))(cur), ("extra", (*trail, *pth), "zz_unknown")))
        if lay is not None and lay["how"] == "as_list" and isinstance(data, list):
            # a model loaded from a list: too short, or not a sequence at all (str and Mapping answer data[0] too)
            if data:
                out.append(Site(trail, trail, "missing_item", lambda: data.pop(), ("leaf", trail, "NoRequiredItemsLoadError")))
            out.append(Site(trail, trail, "wrong_container_str", replace("ab"), ("leaf", trail)))
            out.append(Site(trail, trail, "wrong_container_map", replace({0: 1}), ("leaf", trail)))
        groups = {}
        for f in ms["fields"]:
            pth = field_path(ms, f, lay)
            if len(pth) > 1 and isinstance(data, dict) and pth[0] in data:
                groups.setdefault(pth[0], []).append(f)
        for g in groups:
            # the whole container of a flattened group is missing: reported once, at the parent, under the group's key
            out.append(Site(trail, (*trail, g), "missing_group", (lambda c, k: lambda: c.pop(k))(data, g), ("missing", trail, g)))
        for f in ms["fields"]:
            path = field_path(ms, f, lay)
            cur = data
            ok = True
            for k in path[:-1]:
                if isinstance(cur, dict) and k in cur:
                    cur = cur[k]
                else:
                    ok = False
                    break
            if not ok:
                continue
            present = (isinstance(cur, dict) and path[-1] in cur) or (isinstance(cur, list) and path[-1] < len(cur))
            if not present:
                continue
            if f.get("d") is None and isinstance(cur, dict):
                out.append(Site((*trail, *path[:-1]), (*trail, *path), "missing_required",
                                (lambda c, k: lambda: c.pop(k))(cur, path[-1]),
                                ("missing", (*trail, *path[:-1]), path[-1])))
            collect_sites(f["t"], cur[path[-1]], (*trail, *path), cur, path[-1], e, layouts, out)


def is_prefix(a, b):
    return len(a) <= len(b) and tuple(b[:len(a)]) == tuple(a)


def choose_antichain(sites, picks):
    chosen = []
    for p in picks:
        if not sites:
            break
        s = sites[p % len(sites)]
        if any(s is c for c in chosen):
            continue
        if any(is_prefix(c.kill, s.at) or is_prefix(s.kill, c.at) or c.kill == s.kill for c in chosen):
            continue
        chosen.append(s)
    return chosen


# ------------------------------------------------------------------------------------ one-shot iterables as input
# "loader takes any iterable excluding str and Mapping": the sequences of the datum may arrive as one-shot iterators or
# generators (a streaming parser, a map object).  Trails and input values stay what they are for the list of the same items.
LAZY_HOWS = [None, None, None, "iter", "gen", "map"]


def _one_shot(items, how):
    if how == "iter":
        return iter(items)
    if how == "gen":
        return (x for x in items)
    return map(lambda x: x, items)


def lazify(spec, data, how, plain_models, reg):  # noqa: PLR0911
    """Copy of the datum in which every list that sits where a homogeneous iterable is expected is a one-shot iterable.
    `reg` remembers the items behind every iterable made (an error may quote a container that holds a consumed iterator)."""
    spec = tspec.strip(spec)
    tag = spec[0]
    if tag == "optional":
        return None if data is None else lazify(spec[1], data, how, plain_models, reg)
    if tag in ("list", "set", "frozenset", "vtuple", "deque", "abc") and isinstance(data, list):
        inner = spec[2] if tag == "abc" else spec[1]
        items = [lazify(inner, x, how, plain_models, reg) for x in data]
        it = _one_shot(items, how)
        reg[id(it)] = (it, items)
        return it
    if tag in ("dict", "defaultdict", "mapping", "mutablemapping") and isinstance(data, dict):
        return {k: lazify(spec[2], v, how, plain_models, reg) for k, v in data.items()}
    if tag == "tuple" and isinstance(data, list) and len(data) == len(spec[1]):
        return [lazify(st_, x, how, plain_models, reg) for st_, x in zip(spec[1], data)]
    if tag == "model" and plain_models and isinstance(data, dict):
        ftypes = {f["n"]: f["t"] for f in spec[1]["fields"]}
        return {k: (lazify(ftypes[k], v, how, plain_models, reg) if k in ftypes else v) for k, v in data.items()}
    return data


def delazify(o, reg):
    if id(o) in reg and reg[id(o)][0] is o:
        return [delazify(x, reg) for x in reg[id(o)][1]]
    if isinstance(o, dict):
        return {k: delazify(v, reg) for k, v in o.items()}
    if isinstance(o, (list, tuple)):
        return type(o)(delazify(x, reg) for x in o)
    return o


# ------------------------------------------------------------------------------------ case strategy / oracle
@st.composite
def st_case(draw):
    t = draw(GEN.strategy().filter(lambda t: tspec.depth(t) >= 2))
    v = draw(tspec.st_value(t, min_size=draw(st.sampled_from([0, 1, 1, 2]))))
    layouts = draw(st_layouts(t)) if tspec.contains(t, "model") else {}
    npicks = draw(st.sampled_from([1, 2, 2, 3, 4, 6]))
    picks = [draw(st.one_of(st.integers(0, 6), st.integers(0, 10 ** 6))) for _ in range(npicks)]
    return {"t": t, "v": v, "layouts": layouts, "picks": picks, "lazy": draw(st.sampled_from(LAZY_HOWS))}


@st.composite
def st_case_layout(draw):
    """Focused cases: a model with a flattened (nested-group) layout and several *missing* faults at different crowns --
    the arrangement where per-crown bookkeeping of the generated ALL-mode loader matters."""
    n = draw(st.integers(3, 6))
    names = draw(st.lists(st.sampled_from(tspec.FIELD_NAMES), min_size=n, max_size=n, unique=True))
    kind = draw(st.sampled_from(["dataclass", "attrs", "namedtuple", "typeddict"]))
    fields = [{"n": nm, "t": draw(st.sampled_from([["int"], ["str"], ["bool"], ["list", ["int"], "typing"]])), "d": None}
              for nm in names]
    groups = [["g1"], ["g2"], ["deep", "er"], ["g3"]]
    nest = {}
    for nm in names:
        if draw(st.integers(0, 3)) != 0:
            nest[nm] = draw(st.sampled_from(groups))
    lay = {"how": draw(st.sampled_from(["nested", "nested", "nested+forbid"])), "nest": nest}
    if lay["how"] == "nested+forbid":
        lay["how"] = "nested"
    t = ["model", {"name": "M0", "kind": kind, "fields": fields}]
    if draw(st.booleans()):
        t = ["list", t, "typing"]
    v = draw(tspec.st_value(t, min_size=1))
    npicks = draw(st.sampled_from([2, 2, 3, 4]))
    return {"t": t, "v": v, "layouts": {"M0": lay}, "picks": [draw(st.integers(0, 40)) for _ in range(npicks)],
            "lazy": draw(st.sampled_from(LAZY_HOWS)),
            "prefer": draw(st.sampled_from([["missing_required", "missing_group"], ["missing_required", "missing_group"],
                                            ["missing_required", "missing_group", "wrong_type", "wrong_container"]]))}


@st.composite
def st_case_policy(draw):
    """Focused cases: models whose layout has a POLICY about the shape of the container (unknown keys forbidden, also inside the
    containers of a flattened layout; loaded from a list), below lists / dicts / other models, and faults against that policy
    preferred -- unknown keys, missing and extra items are otherwise a small fraction of the sites of a case."""
    def model(name, depth):
        n = draw(st.integers(1, 4))
        names = draw(st.lists(st.sampled_from(tspec.FIELD_NAMES), min_size=n, max_size=n, unique=True))
        fields = []
        for nm in names:
            leaf = draw(st.sampled_from([["int"], ["str"], ["bool"], ["list", ["int"], "typing"], ["tuple", [["int"], ["str"]], "typing"],
                                         ["dict", ["str"], ["int"], "typing"]]))
            fields.append({"n": nm, "t": leaf, "d": None})
        if depth < 2 and draw(st.integers(0, 2)) != 0:
            inner = model(f"M{depth + 1}", depth + 1)
            wrap = draw(st.sampled_from(["plain", "list", "dict"]))
            t = inner if wrap == "plain" else ["list", inner, "typing"] if wrap == "list" else ["dict", ["str"], inner, "typing"]
            fields[draw(st.integers(0, len(fields) - 1))]["t"] = t
        return ["model", {"name": name, "kind": draw(st.sampled_from(["dataclass", "attrs", "namedtuple", "typeddict"])),
                          "fields": fields}]
    t = model("M0", 0)
    layouts = {}
    for sp in tspec.walk(t):
        if sp[0] != "model":
            continue
        ms = sp[1]
        how = draw(st.sampled_from(["forbid", "as_list", "nested+forbid", "rename+forbid", "forbid", "as_list"]))
        lay = {"how": how}
        if "rename" in how:
            lay["map"] = {f["n"]: f"K{i}" for i, f in enumerate(ms["fields"]) if draw(st.booleans())}
        if how == "nested+forbid":
            lay["nest"] = {f["n"]: draw(st.sampled_from([["outer"], ["o1", "o2"], ["grp"], ["deep", "a", "x"], ["deep", "b"]]))
                           for f in ms["fields"] if draw(st.integers(0, 3)) != 0}
        layouts[ms["name"]] = lay
    wrap = draw(st.sampled_from(["plain", "list", "dict"]))
    if wrap != "plain":
        t = ["list", t, "typing"] if wrap == "list" else ["dict", ["str"], t, "typing"]
    v = draw(tspec.st_value(t, min_size=1))
    npicks = draw(st.sampled_from([1, 2, 2, 3, 4]))
    prefer = ["unknown_key", "unknown_key_in_flattened_container", "extra_item", "missing_item", "wrong_container_str",
              "wrong_container_map"]
    if draw(st.booleans()):
        prefer = [*prefer, "missing_required", "missing_group", "wrong_type", "bad_dict_key"]
    return {"t": t, "v": v, "layouts": layouts, "picks": [draw(st.integers(0, 40)) for _ in range(npicks)], "prefer": prefer}


def follow(root, trail):
    cur = root
    for el in trail:
        if isinstance(el, ItemKey):
            if el.key not in cur:
                raise LookupError(f"key {el.key!r} not in {cur!r}")
            cur = el.key
        else:
            cur = cur[el]
    return cur


def trail_key(trail):
    return tuple(("K", repr(el.key)) if isinstance(el, ItemKey) else ("E", repr(el)) for el in trail)


def check_case(ctx: runner.Ctx, case):  # noqa: C901, PLR0912, PLR0915
    t, layouts = case["t"], case.get("layouts", {})
    hint, e = tspec.build_type(t)
    x = codec.build(case["v"], e)
    with tspec.use_layouts(ref_layouts(t, layouts)):
        dumped = tspec.ref_dump(t, x, e)
    holder = [mutable(dumped)]
    sites: list[Site] = []
    collect_sites(t, holder[0], (), holder, 0, e, layouts, sites)
    # deepest sites first: generated picks are biased towards small numbers, and a fault near the root hides
    # everything below it (the interesting cases are several deep faults at once)
    sites.sort(key=lambda s: -len(s.at))
    if case.get("prefer"):
        preferred = [x for x in sites if x.kind in case["prefer"]]
        sites = preferred or sites
    chosen = choose_antichain(sites, case["picks"])
    if not chosen:
        ctx.count("no_fault_site")
        return
    for s in chosen:
        s.apply()
    datum = holder[0]
    # expected leaves
    exp = Counter()
    missing, extra = {}, {}
    for s in chosen:
        if s.expect[0] == "leaf":
            exp[trail_key(s.expect[1])] += 1
        elif s.expect[0] == "leaves":
            for tr in s.expect[1]:
                exp[trail_key(tr)] += 1
        elif s.expect[0] == "missing":
            missing.setdefault(trail_key(s.expect[1]), set()).add(s.expect[2])
        else:
            extra.setdefault(trail_key(s.expect[1]), set()).add(s.expect[2])
    for k in missing:
        exp[k] += 1
    for k in extra:
        exp[k] += 1
    kinds = sorted(s.kind for s in chosen)
    depth = max(len(s.at) for s in chosen)
    nontrivial = len(chosen) >= 2 or depth >= 3 or any(layouts.get(n, {}).get("how") in ("rename", "nested", "style",
                                                                                       "rename+forbid") for n in layouts)
    ctx.case([case], nontrivial,
             sample={"type": tspec.text(t), "layouts": layouts, "corrupted_datum": repr(datum)[:400],
                     "faults": [[s.kind, [repr(el) for el in s.expect[1]]] for s in chosen]},
             labels=[f"input:{case.get('lazy') or 'lists'}", f"faults:{min(len(chosen), 4)}", f"depth:{min(depth, 5)}", *[f"kind:{k}" for k in set(kinds)],
                     *(["model_layout"] if layouts else []), *[f"layout:{v['how']}" for v in layouts.values()]])
    recipe = build_recipe(layouts, e)
    head = f"type={tspec.text(t)} layouts={layouts} faults={[(s.kind, s.expect[1:]) for s in chosen]} datum={datum!r}"
    for dbg in (2, 1, 0):
        retort = Retort(recipe=recipe, strict_coercion=True, debug_trail=DEBUG[dbg])
        exc = None
        try:
            arg = copy.deepcopy(datum)
            lazy_reg = {}
            if case.get("lazy"):
                arg = lazify(t, arg, case["lazy"], not layouts, lazy_reg)
            retort.load(arg, hint)
        except BaseException as ex:  # noqa: BLE001
            exc = ex
        if exc is None:
            ctx.violation("fault_not_detected", (f"debug{dbg}", "+".join(kinds)), case, f"{head}: load returned normally")
            continue
        if not all(isinstance(n, le.LoadError) for n in all_nodes(exc)):
            ctx.count("non_loaderror_left_to_C04")
            continue
        if dbg == 0:
            bad = [n for n in all_nodes(exc) if len(get_trail(n))]
            if bad:
                ctx.violation("trail_attached_under_disable", (type(bad[0]).__name__, exc_site(bad[0])), case,
                              f"{head}: {describe(bad[0])} carries trail {list(get_trail(bad[0]))}")
            continue
        lv = list(leaves(exc))
        if dbg == 1:
            if len(lv) != 1 or isinstance(exc, le.AggregateLoadError):
                ctx.violation("first_mode_not_single_error", (type(exc).__name__,), case, f"{head}: {describe(exc)}")
                continue
            tk = trail_key(lv[0][0])
            if tk not in exp:
                ctx.violation("first_mode_trail_wrong", (type(lv[0][1]).__name__, exc_site(lv[0][1]), "+".join(kinds)), case,
                              f"{head}: FIRST reported trail {list(lv[0][0])} ({describe(lv[0][1])}); planted {sorted(exp)}")
            continue
        got = Counter(trail_key(tr) for tr, _ in lv)
        if got != exp:
            lost = sorted((exp - got).elements())
            spurious = sorted((got - exp).elements())
            ctx.violation("all_mode_trails_differ",
                          ("lost" if lost else "", "spurious" if spurious else "", "+".join(kinds)), case,
                          f"{head}: lost={lost} spurious={spurious}; reported="
                          f"{[(list(tr), type(l).__name__) for tr, l in lv]}")
            continue
        for tr, leaf in lv:
            tk = trail_key(tr)
            if isinstance(leaf, le.NoRequiredFieldsLoadError) and tk in missing and set(leaf.fields) != missing[tk]:
                ctx.violation("missing_fields_set_wrong", (), case, f"{head}: at {list(tr)} fields={list(leaf.fields)} planted={missing[tk]}")
            if isinstance(leaf, le.ExtraFieldsLoadError) and tk in extra and set(leaf.fields) != extra[tk]:
                ctx.violation("extra_fields_set_wrong", (), case, f"{head}: at {list(tr)} fields={list(leaf.fields)} planted={extra[tk]}")
            if hasattr(leaf, "input_value"):
                try:
                    reached = follow(datum, tr)
                except (LookupError, TypeError) as fe:
                    ctx.violation("trail_not_followable", (type(leaf).__name__, exc_site(leaf)), case,
                                  f"{head}: trail {list(tr)} cannot be followed: {fe!r}")
                    continue
                iv = delazify(leaf.input_value, lazy_reg)
                same = tspec.canon_eq(iv, reached) or (isinstance(iv, tuple) and isinstance(reached, list)
                                                      and tspec.canon_eq(list(iv), reached))
                if not same:
                    ctx.violation("input_value_not_at_trail", (type(leaf).__name__, exc_site(leaf)), case,
                                  f"{head}: trail {list(tr)} reaches {reached!r} but input_value={iv!r}")


def explore(ctx: runner.Ctx):
    n = ctx.budget(7000, 300000)
    ctx.given(st_case(), lambda c: check_case(ctx, c), int(n * 0.75))
    ctx.given(st_case_layout(), lambda c: check_case(ctx, c), max(1, int(n * 0.25)), seed_offset=1)
    ctx.given(st_case_policy(), lambda c: check_case(ctx, c), max(1, int(n * 0.25)), seed_offset=2)


RULE = ("cases = (type spec depth<=4 without non-Optional unions, canonical value, model layouts, fault picks); a non-empty "
        "antichain of fault sites of the reference dump is corrupted and the datum loaded under ALL, FIRST and DISABLE. "
        "Non-trivial = >= 2 faults, or a fault at depth >= 3, or below a renamed / nested / styled model layout.")

if __name__ == "__main__":
    raise SystemExit(runner.main(
        PROP, explore=explore, check_case=check_case, strategy=st.one_of(st_case(), st_case_layout(), st_case_policy()), rule=RULE,
        assumptions=["strict_coercion=True (a planted wrong-typed leaf must be unacceptable)",
                     "a union (Optional) is one leaf: faults below it are expected at the union's own trail",
                     "for tuple length errors input_value may be the tuple() conversion of the sub-value (pinned by the suite)"],
    ))
