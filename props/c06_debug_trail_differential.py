"""C06 -- debug_trail changes only error reporting, never what is accepted or returned.

Three independently generated programs (DISABLE / FIRST / ALL) for one specification are run on fresh copies of
the same input.  Oracle: they agree on success; on success results are deep_eq; on failure the single error of
DISABLE and of FIRST corresponds to one of the errors collected under ALL (ALL has a node that is-a type(e) and,
when e carries ``input_value``, a node of that class with an equal input value).  Same for dumping (success /
failure and results only: dumping has no error taxonomy).
"""
from __future__ import annotations

import itertools

from vkit import env, runner
from vkit.errors import all_nodes, describe, exc_site

env.import_adaptix()

from hypothesis import strategies as st  # noqa: E402

from adaptix import DebugTrail, ProviderNotFoundError, Retort, dumper, loader  # noqa: E402
from adaptix.load_error import LoadError, TypeLoadError  # noqa: E402
from props.c04_only_loaderror import _class_object_for_model, build_layouts, build_provs, model_names  # noqa: E402
from props.c04_only_loaderror import PROVS  # noqa: E402
from vkit import codec, soup, tspec  # noqa: E402

PROP = "C06"
DEBUG = [DebugTrail.DISABLE, DebugTrail.FIRST, DebugTrail.ALL]
NAMES = ["DISABLE", "FIRST", "ALL"]
GEN = tspec.TypeGen(max_depth=3, dumpable_unions=False, disjoint_unions=False, unhashable_set_elems=True)
GEN_NEAR = tspec.TypeGen(max_depth=3)


ENUM_SPEC = ["enum", {"name": "E9", "base": "Enum", "members": [["A", 1], ["B", "b"]]}]


@st.composite
def st_case_dump_focus(draw):
    """Dumping of models whose field dumpers can fail in different ways (enum lookup -> KeyError, nested TypedDict with a
    missing key -> KeyError, Decimal.__str__ on a wrong object -> TypeError ...), with optional (NotRequired) keys present:
    the three generated dumper variants guard the field *access* and the field *dumper* differently."""
    inner = ["model", {"name": "M1", "kind": "typeddict", "fields": [{"n": "k", "t": ["int"], "d": None},
                                                                     {"n": "e", "t": ENUM_SPEC, "d": None}]}]
    kind = draw(st.sampled_from(["typeddict", "typeddict", "dataclass", "attrs", "namedtuple"]))
    n = draw(st.integers(1, 4))
    names = draw(st.lists(st.sampled_from(tspec.FIELD_NAMES), min_size=n, max_size=n, unique=True))
    fields = []
    for nm in names:
        ft = draw(st.sampled_from([ENUM_SPEC, inner, ["decimal"], ["list", ENUM_SPEC, "typing"], ["int"], ["date"],
                                   ["dict", ["str"], ENUM_SPEC, "typing"], ["optional", ENUM_SPEC, "optional"]]))
        d = ["nr"] if kind == "typeddict" and draw(st.booleans()) else None
        fields.append({"n": nm, "t": ft, "d": d})
    fields = [f for f in fields if f["d"] is None] + [f for f in fields if f["d"] is not None]
    t = ["model", {"name": "M0", "kind": kind, "fields": fields}]
    val = draw(tspec.st_value(t, min_size=1))
    for f in fields:   # optional keys present: that is the interesting path
        if f["n"] not in val["f"]:
            val["f"][f["n"]] = draw(tspec.st_value(f["t"], min_size=1))
    nbad = draw(st.integers(1, 2))
    bad = [[draw(st.integers(0, 50)), draw(st.sampled_from([5, "zz", None, "__delete__", {"$": "opaque"}, [1]]))] for _ in range(nbad)]
    return {"dir": "dump", "t": t, "v": val, "bad": bad, "strict": True, "provs": [], "layouts": {}}


# ------------------------------------------------------------------ user providers that let a non-LoadError exception escape
def picky_int_loader(data):
    if type(data) is not int:
        raise TypeLoadError(int, data)
    if data < 0:
        raise ValueError(f"user loader refuses {data}")   # an UNEXPECTED error: not a LoadError
    return data


def picky_int_dumper(data):
    if data < 0:
        raise ValueError(f"user dumper refuses {data}")
    return data


def stopiter_int_loader(data):
    if type(data) is int and data < 0:
        # the classic slip ``next(x for x in pool if x.value == data)`` with no match: StopIteration escapes the user's loader
        raise StopIteration
    return data


def build_provs_c06(names):
    out = build_provs([n for n in names if n not in ("picky_int", "stopiter_int")])
    if "picky_int" in names:
        out = [loader(int, picky_int_loader), dumper(int, picky_int_dumper), *out]
    if "stopiter_int" in names:
        out = [loader(int, stopiter_int_loader), dumper(int, stopiter_int_loader), *out]
    return out


def stopiter_cases():
    """A user loader / dumper of the ITEMS of an iterable that lets StopIteration escape, for every iterable type and both directions."""
    for cont in (["list", ["int"], "typing"], ["set", ["int"], "typing"], ["vtuple", ["int"], "typing"], ["deque", ["int"], "typing"],
                 ["frozenset", ["int"], "typing"], ["abc", "Sequence", ["int"], "typing"], ["dict", ["str"], ["list", ["int"], "typing"], "typing"]):
        datum = [1, -5, 2] if cont[0] != "dict" else {"$": "d", "v": [["k", [1, -5, 2]]]}
        for strict in (True, False):
            yield {"dir": "load", "t": cont, "datum": datum, "ops": ["stopiter"], "strict": strict, "provs": ["stopiter_int"], "layouts": {}}
    for cont in (["list", ["int"], "typing"], ["vtuple", ["int"], "typing"], ["deque", ["int"], "typing"]):
        val = {"$": "t", "v": [1, -5, 2]} if cont[0] == "vtuple" else {"$": "deque", "v": [1, -5, 2]} if cont[0] == "deque" else [1, -5, 2]
        yield {"dir": "dump", "t": cont, "v": val, "bad": [], "strict": True, "provs": ["stopiter_int"], "layouts": {}}


@st.composite
def st_case_unexpected(draw):
    """A model whose int fields are loaded by a user loader that raises ValueError (not a LoadError) for negative numbers, as one
    case of a Union whose other case accepts any mapping with the same keys; data with an unexpected error in one field and,
    often, an ordinary load error in another one.  All three modes must abort (the unexpected error is not "this case does not
    match"), whichever field comes first."""
    n = draw(st.integers(2, 4))
    names = draw(st.lists(st.sampled_from(tspec.FIELD_NAMES), min_size=n, max_size=n, unique=True))
    ftypes = [draw(st.sampled_from([["int"], ["int"], ["str"], ["bool"], ["list", ["int"], "typing"]])) for _ in names]
    ftypes[draw(st.integers(0, n - 1))] = ["int"]
    a, b = draw(st.sampled_from([("M0", "M1"), ("M1", "M0")]))   # union cases are ordered by name: both orders
    kinds = ["dataclass", "attrs", "namedtuple", "typeddict"]
    picky = ["model", {"name": a, "kind": draw(st.sampled_from(kinds)),
                       "fields": [{"n": nm, "t": ft, "d": None} for nm, ft in zip(names, ftypes)]}]
    loose = ["model", {"name": b, "kind": draw(st.sampled_from(kinds)), "fields": [{"n": nm, "t": ["any"], "d": None} for nm in names]}]
    shape = draw(st.sampled_from(["union", "union", "alone", "list_of_union", "dict_of_union"]))
    t = picky if shape == "alone" else ["union", [picky, loose], "typing"]
    good = {"int": 3, "str": "s", "bool": True, "list": [1, 2]}
    wrong = {"int": "x", "str": 5, "bool": "no", "list": 7}
    items = []
    faults = [draw(st.sampled_from(["ok", "ok", "unexpected", "unexpected", "load_error"])) for _ in names]
    if "unexpected" not in faults:
        faults[draw(st.integers(0, n - 1))] = "unexpected"
    for nm, ft, fault in zip(names, ftypes, faults):
        if fault == "unexpected":
            v = -5 if ft[0] == "int" else [1, -2] if ft[0] == "list" else wrong[ft[0]]
        elif fault == "load_error":
            v = wrong[ft[0]]
        else:
            v = good[ft[0]]
        items.append([tspec.model_key(nm), v])
    datum = {"$": "d", "v": items}
    if shape == "list_of_union":
        t, datum = ["list", t, "typing"], [datum]
    elif shape == "dict_of_union":
        t, datum = ["dict", ["str"], t, "typing"], {"$": "d", "v": [["k", datum]]}
    return {"dir": "load", "t": t, "datum": datum, "ops": ["unexpected", shape, *faults], "strict": draw(st.booleans()),
            "provs": ["picky_int"], "layouts": {}}


@st.composite
def st_case(draw):
    if draw(st.integers(0, 6)) == 0:
        return draw(st_case_dump_focus())
    if draw(st.integers(0, 7)) == 0:
        return draw(st_case_unexpected())
    if draw(st.integers(0, 4)) == 0:
        # the load cases of C04 (model-rooted types with list / nested / forbidding / collecting layouts whose root container is
        # mutated structurally, sets with unhashable elements ...) through this property's differential oracle
        from props.c04_only_loaderror import st_case as st_c04_case  # noqa: PLC0415
        c = draw(st_c04_case().filter(lambda k: not k.get("user") and not any("bigint" in str(o) for o in k["ops"])))
        return {"dir": "load", "t": c["t"], "datum": c["datum"], "ops": c["ops"], "strict": c["strict"], "provs": c["provs"],
                "layouts": c["layouts"]}
    direction = "dump" if draw(st.integers(0, 2)) == 0 else "load"
    if direction == "dump":
        t = draw(GEN_NEAR.strategy())
        val = draw(tspec.st_value(t))
        nbad = draw(st.integers(0, 2))
        bad = [[draw(st.integers(0, 50)), draw(st.one_of(st.sampled_from(soup._LEAVES), st.just("__delete__")))] for _ in range(nbad)]
        return {"dir": "dump", "t": t, "v": val, "bad": bad, "strict": True,
                "provs": ["picky_int"] if draw(st.integers(0, 3)) == 0 else [], "layouts": {}}
    near = draw(st.integers(0, 9)) < 6
    if near:
        t = draw(GEN_NEAR.strategy())
        datum, ops = draw(soup.st_near_valid(t))
    else:
        t = draw(GEN.strategy())
        if tspec.has_set_node(t) and tspec.near_valid_possible(t) and draw(st.booleans()):
            # aimed data for sets, also for sets whose elements load to unhashable values: a near-valid dump of the
            # same type with lists in place of the sets
            datum, ops = draw(soup.st_near_valid(tspec.listify_sets(t)))
            ops = ["listified_sets", *ops]
        else:
            datum, ops = draw(soup.st_soup()), ["soup"]
    provs = draw(st.lists(st.sampled_from(PROVS), max_size=2, unique=True)) if not near and draw(st.integers(0, 3)) == 0 else []
    layouts = {}
    for n in model_names(t):
        if draw(st.integers(0, 3)) == 0:
            layouts[n] = draw(st.sampled_from(["as_list", "nested", "forbid"])) if not near else "forbid"
    return {"dir": "load", "t": t, "datum": datum, "ops": ops, "strict": draw(st.booleans()), "provs": provs,
            "layouts": layouts}


def corrupt_value(vspec, bad):
    """Replace the k-th leaf position (mod count) of a canonical value spec by a wrong-typed leaf."""
    for idx, leaf in bad:
        pos = [p for p in soup.positions(vspec) if p]
        if leaf == "__delete__":
            # delete one field of a model value (meaningful for TypedDict: a required key is missing while dumping)
            fpos = [p for p in pos if len(p) >= 2 and p[-2] == "f"]
            if not fpos:
                continue
            target = fpos[idx % len(fpos)]
            import copy  # noqa: PLC0415
            vspec = copy.deepcopy(vspec)
            holder = soup.get_at(vspec, target[:-1])
            holder.pop(target[-1], None)
            continue
        if not pos:
            return leaf
        vspec = soup.set_at(vspec, pos[idx % len(pos)], leaf)
    return vspec


def outcome_of(fn, arg):
    try:
        return ("ok", fn(arg))
    except RecursionError:
        return ("skip", None)
    except BaseException as ex:  # noqa: BLE001
        return ("err", ex)


def _iv(e):
    return getattr(e, "input_value", _MISSING)


_MISSING = object()


def _has_tag(v, tags) -> bool:
    if isinstance(v, list):
        return any(_has_tag(x, tags) for x in v)
    if isinstance(v, dict):
        if v.get("$") in tags:
            return True
        return any(_has_tag(x, tags) for x in v.values())
    return False


def same_multiset(a, b) -> bool:
    """Each mode gets its own copy of the input; the iteration order of a *set* input is address dependent (hash(nan)),
    so values derived from iterating it (tuple(data)) are compared as multisets."""
    try:
        return sorted(map(repr, map(tspec.canon, a))) == sorted(map(repr, map(tspec.canon, b)))
    except TypeError:
        return False


def same_value(a, b) -> bool:
    return a is b or tspec.canon_eq(a, b)


def check_case(ctx: runner.Ctx, case):  # noqa: C901, PLR0912
    t = case["t"]
    hint, e = tspec.build_type(t)
    recipe = build_provs_c06(case.get("provs", [])) + build_layouts(case.get("layouts", {}), e)
    outs = []
    for mode in DEBUG:
        retort = Retort(recipe=recipe, strict_coercion=case["strict"], debug_trail=mode)
        try:
            fn = retort.get_loader(hint) if case["dir"] == "load" else retort.get_dumper(hint)
        except ProviderNotFoundError:
            ctx.count("not_creatable")
            return
        if case["dir"] == "load":
            arg = codec.build(case["datum"], e)
        else:
            try:
                arg = codec.build(corrupt_value(case["v"], case["bad"]), e)
            except Exception:  # noqa: BLE001  -- the corrupted spec no longer builds (constructor refuses it)
                ctx.count("dump_value_not_constructible")
                return
        outs.append(outcome_of(fn, arg))
    if any(o[0] == "skip" for o in outs):
        ctx.count("recursion_error_skipped")
        return
    spec_in = case.get("datum", case.get("v"))
    if tspec.contains(t, "union") and _has_tag(spec_in, ("gen",)):
        # a one-shot iterator offered to a union is consumed by the cases that try it; how much each debug mode's
        # variant consumes before failing is not specified, so the case that finally accepts may differ
        ctx.count("unspecified_one_shot_iterator_into_union")
        return
    unordered_input = _has_tag(spec_in, ("set", "fset"))
    kinds = [o[0] for o in outs]
    failure = "err" in kinds
    dsize = len(repr(case.get("datum", case.get("v"))))
    nontrivial = failure or tspec.depth(t) >= 2
    ctx.case([case], nontrivial,
             sample={"dir": case["dir"], "type": tspec.text(t), "input": case.get("datum", case.get("v")),
                     "bad": case.get("bad"), "strict": case["strict"], "outcomes": kinds, "layouts": case.get("layouts")},
             labels=[f"dir:{case['dir']}", "outcome:" + ("fail" if failure else "ok"), f"strict:{case['strict']}",
                     f"top:{t[0]}", f"size:{min(dsize // 100, 5)}"])
    head = f"dir={case['dir']} type={tspec.text(t)} strict={case['strict']} provs={case.get('provs')} " \
           f"layouts={case.get('layouts')} input={case.get('datum', case.get('v'))!r}"

    if kinds == ["ok", "err", "err"] and "stopiter_int" in case.get("provs", []):
        # known finding (see known_findings.json): the DISABLE variants of the iterable loader / dumper feed map(item_loader, data)
        # to the container constructor, which takes a StopIteration escaping from the item loader for the end of the data
        ctx.violation("disable_mode_truncates_on_stop_iteration", (case["dir"],), case,
                      f"{head}: {[(n, k, describe(o[1]) if k == 'err' else repr(o[1])[:200]) for n, k, o in zip(NAMES, kinds, outs)]}")
        return
    if kinds == ["ok", "ok", "err"] and "picky_int" in case.get("provs", []) and not isinstance(outs[2][1], LoadError) and \
            any(isinstance(x, ValueError) and "user loader refuses" in str(x) for x in all_nodes(outs[2][1])):
        # known finding (see known_findings.json): ALL goes on after the first LoadError of a model / container and so reaches a
        # user loader that raises a non-LoadError; the plain ExceptionGroup it then raises is not a "case does not match" for the
        # enclosing Union, while DISABLE / FIRST stopped at the LoadError and went on to the next case
        ctx.violation("all_mode_reaches_unexpected_error_behind_load_error", ("union_falls_through_only_in_disable_and_first",), case,
                      f"{head}: {[(n, k, describe(o[1]) if k == 'err' else repr(o[1])[:200]) for n, k, o in zip(NAMES, kinds, outs)]}")
        return
    if case["dir"] == "load" and failure and _class_object_for_model(t, case["datum"]) and \
            any(k == "err" and any(isinstance(x, TypeError) and not isinstance(x, LoadError) for x in all_nodes(o[1]))
                for k, o in zip(kinds, outs)):
        # known finding (see known_findings.json, C04-class-object-as-model-mapping): a class object where the container of a
        # model is expected passes the duck-typed mapping / sequence test of the generated loader and leaks TypeError from
        # whichever lookup variant a debug mode uses
        ctx.violation("class_object_used_as_model_container", (case["dir"],), case,
                      f"{head}: {[(n, k, describe(o[1]) if k == 'err' else repr(o[1])[:200]) for n, k, o in zip(NAMES, kinds, outs)]}")
        return
    if len(set(kinds)) != 1:
        who = ",".join(f"{n}:{k}" for n, k in zip(NAMES, kinds))
        first_err = next(o[1] for o in outs if o[0] == "err")
        ctx.violation("acceptance_differs", (case["dir"], who, type(first_err).__name__, exc_site(first_err)), case,
                      f"{head}: {[(n, k, describe(o[1]) if k == 'err' else repr(o[1])[:200]) for n, k, o in zip(NAMES, kinds, outs)]}")
        return
    if not failure:
        for n, o in zip(NAMES[:2], outs[:2]):
            same = tspec.dumped_eq(t, o[1], outs[2][1], e) if case["dir"] == "dump" else tspec.canon_eq(o[1], outs[2][1])
            if not same and unordered_input and case["dir"] == "load":
                ctx.count("unspecified_order_of_set_input")   # separately built copies of a set input iterate differently
            elif not same:
                ctx.violation("result_differs", (case["dir"], n, t[0]), case,
                              f"{head}: {n} -> {o[1]!r} / ALL -> {outs[2][1]!r}")
        return
    if case["dir"] == "dump":
        return  # no error taxonomy for dumping
    nodes = list(all_nodes(outs[2][1]))
    for n, o in zip(NAMES[:2], outs[:2]):
        ex = o[1]
        if not isinstance(ex, LoadError) and not any(isinstance(x, type(ex)) for x in nodes):
            ctx.violation("error_class_differs", (n, type(ex).__name__, exc_site(ex)), case,
                          f"{head}: {n} raised {describe(ex)}; ALL raised {describe(outs[2][1])}")
            continue
        cands = [x for x in nodes if isinstance(x, type(ex))]
        if not cands:
            ctx.violation("error_class_differs", (n, type(ex).__name__, exc_site(ex)), case,
                          f"{head}: {n} raised {describe(ex)}; ALL has no node of that class: {describe(outs[2][1])}")
            continue
        iv = _iv(ex)
        if iv is not _MISSING and not any(_iv(x) is not _MISSING and (same_value(_iv(x), iv) or
                                                                      (unordered_input and same_multiset(_iv(x), iv)))
                                          for x in cands):
            ctx.violation("error_input_value_differs", (n, type(ex).__name__, exc_site(ex)), case,
                          f"{head}: {n} raised {describe(ex)} with input_value={iv!r}; ALL nodes of that class carry "
                          f"{[_iv(x) for x in cands][:5]!r}")


def explore(ctx: runner.Ctx):
    # the list-layout table of C04 (root containers of every wrong shape) through this property's differential oracle
    from props.c04_only_loaderror import (  # noqa: PLC0415
        duck_table_cases,
        extra_field_table_cases,
        list_layout_table_cases,
        unhashable_element_table_cases,
    )
    seen, n_ll = set(), 0
    for c in itertools.chain(list_layout_table_cases(), extra_field_table_cases(), unhashable_element_table_cases(), duck_table_cases()):
        key = (tspec.key_of(c["t"]), repr(c["datum"]), c["strict"])
        if key in seen:   # the table repeats each (type, datum, strict) per debug mode; all three modes are compared here anyway
            continue
        seen.add(key)
        n_ll += 1
        if n_ll % ctx.nshards == ctx.shard:
            runner.guarded(ctx, lambda k: check_case(ctx, k),
                           {"dir": "load", "t": c["t"], "datum": c["datum"], "ops": c["ops"], "strict": c["strict"], "provs": [],
                            "layouts": c["layouts"]})
    ctx.mark_exhaustive(f"list-layout, extra-field and unhashable-element tables of C04: {n_ll} (type, datum, strict) triples compared across the "
                        f"three debug modes")
    if ctx.shard == 0:
        for c in stopiter_cases():
            runner.guarded(ctx, lambda k: check_case(ctx, k), c)
    ctx.given(st_case(), lambda c: check_case(ctx, c), ctx.budget(8000, 300000))


RULE = ("cases = (direction, type spec, input, strict, providers, layouts) evaluated under the three debug modes on fresh "
        "copies of the input; inputs = data soup / near-valid mutations of valid dumps (load) or canonical values with "
        "0-2 positions replaced by wrong-typed leaves (dump). Non-trivial = some mode failed, or type depth >= 2.")

if __name__ == "__main__":
    raise SystemExit(runner.main(
        PROP, explore=explore, check_case=check_case, strategy=st_case(), rule=RULE,
        assumptions=["'same error class' is read as: ALL contains a node that is-a the class raised by DISABLE/FIRST "
                     "(the union loader deliberately raises bare LoadError under DISABLE; pinned by the suite)",
                     "input values are compared structurally (each mode gets its own fresh copy of the input)"],
    ))
