"""C17 -- all supported model kinds behave the same for the same logical model.

One generated logical model (field names, types, defaults, optionally one nested model) is realised as dataclass,
NamedTuple, TypedDict, attrs class, pydantic model and SQLAlchemy mapped class (where expressible: the documented
per-kind limitations are *applicability predicates* of the spec, not exceptions of the oracle).  Differential oracle over
all kind pairs: the same input loads to field-wise equal objects; field-wise equal objects dump to equal data; the same
bad input produces the same flattened error structure; the same name_mapping has the same effect; converters between
any two kinds copy every field.
"""
from __future__ import annotations

import dataclasses
import itertools
import typing
from typing import Any, List, Optional

from vkit import env, runner
from vkit.errors import all_nodes, describe, exc_site
from vkit import tspec

env.import_adaptix()

from hypothesis import strategies as st  # noqa: E402

from adaptix import DebugTrail, ExtraForbid, NameStyle, P, ProviderNotFoundError, Retort, name_mapping  # noqa: E402
from adaptix.conversion import get_converter  # noqa: E402
from adaptix.struct_trail import get_trail  # noqa: E402
from props.c18_enum_flag import ref_style  # noqa: E402

PROP = "C17"
DEBUG = [DebugTrail.DISABLE, DebugTrail.FIRST, DebugTrail.ALL]
KINDS = ["dataclass", "namedtuple", "typeddict", "attrs", "pydantic", "sqlalchemy"]
FIELD_NAMES = ["a", "b", "c", "value", "data", "from_", "x1", "name", "some_long_name"]
TYPES = {"int": int, "str": str, "bool": bool, "opt_int": Optional[int], "list_int": List[int]}
VALID = {"int": [0, 1, -5, 2 ** 40], "str": ["", "s", "é"], "bool": [True, False], "opt_int": [None, 3], "list_int": [[], [1, 2]]}
INVALID = {"int": ["x", None, True, 1.5], "str": [1, None, ["s"]], "bool": [1, "True", None], "opt_int": ["x", True, []],
           "list_int": [5, "ab", ["x"], {"a": 1}, [1, "x", None]]}
DEFAULTS = {"int": [0, 7], "str": ["", "dflt"], "bool": [False, True], "opt_int": [None, 0], "list_int": []}

_uid = itertools.count()


# ------------------------------------------------------------------------------------ logical model -> classes
def applicable(spec, kind) -> bool:
    fields = spec["fields"]
    if kind == "typeddict":                               # TypedDict has no defaults (also not in the nested model)
        return not any(f["d"] for f in fields) and not any(f["d"] for f in spec.get("nested", {}).get("fields", []))
    if kind == "sqlalchemy":
        # no generics / nested models as plain columns; nullable columns are optional input (no default object);
        # the order of mapped fields is not registered (as_list excluded below)
        return all(f["t"] in ("int", "str", "bool") for f in fields) and not spec.get("nested")
    if kind == "namedtuple":
        return True
    return True


def build_kind(spec, kind, nested_cls=None):  # noqa: C901
    """Realise the logical model in one kind.  The first field ``key: str`` is required (primary key for SQLAlchemy)."""
    name = f"K{next(_uid)}_{kind}"
    fields = spec["fields"]
    ns: dict = {"typing": typing, "Optional": Optional, "List": List, "Any": Any, "dataclasses": dataclasses}
    if nested_cls is not None:
        ns["Nested"] = nested_cls

    def ann(f):
        return "Nested" if f["t"] == "nested" else {"int": "int", "str": "str", "bool": "bool", "opt_int": "Optional[int]",
                                                    "list_int": "List[int]"}[f["t"]]
    lines = []
    if kind == "dataclass":
        lines += ["@dataclasses.dataclass", f"class {name}:"]
        for f in fields:
            if f.get("kw"):   # keyword-only field declared in the middle: field order != constructor parameter order
                opts = ["kw_only=True"] + ([f"default={f['d'][0]!r}"] if f["d"] else [])
                lines.append(f"    {f['n']}: {ann(f)} = dataclasses.field({', '.join(opts)})")
            else:
                lines.append(f"    {f['n']}: {ann(f)}" + (f" = {f['d'][0]!r}" if f["d"] else ""))
    elif kind == "namedtuple":
        lines += [f"class {name}(typing.NamedTuple):"]
        for f in fields:
            lines.append(f"    {f['n']}: {ann(f)}" + (f" = {f['d'][0]!r}" if f["d"] else ""))
    elif kind == "typeddict":
        lines += [f"class {name}(typing.TypedDict):"]
        for f in fields:
            lines.append(f"    {f['n']}: {ann(f)}")
    elif kind == "attrs":
        import attrs  # noqa: PLC0415
        ns["attrs"] = attrs
        lines += ["@attrs.define", f"class {name}:"]
        for f in fields:
            if f.get("kw"):
                opts = ["kw_only=True"] + ([f"default={f['d'][0]!r}"] if f["d"] else [])
                lines.append(f"    {f['n']}: {ann(f)} = attrs.field({', '.join(opts)})")
            else:
                lines.append(f"    {f['n']}: {ann(f)}" + (f" = {f['d'][0]!r}" if f["d"] else ""))
    elif kind == "pydantic":
        import pydantic  # noqa: PLC0415
        ns["pydantic"] = pydantic
        lines += [f"class {name}(pydantic.BaseModel):"]
        if nested_cls is not None:
            lines.append("    model_config = pydantic.ConfigDict(arbitrary_types_allowed=True)")
        for f in fields:
            lines.append(f"    {f['n']}: {ann(f)}" + (f" = {f['d'][0]!r}" if f["d"] else ""))
    elif kind == "sqlalchemy":
        from sqlalchemy.orm import Mapped, mapped_column, registry  # noqa: PLC0415
        reg = registry()
        ns.update(Mapped=Mapped, mapped_column=mapped_column, reg=reg)
        lines += ["@reg.mapped", f"class {name}:", f"    __tablename__ = 't_{name}'"]
        for i, f in enumerate(fields):
            opts = []
            if i == 0:
                opts.append("primary_key=True")
            if f["d"]:
                opts.append(f"default={f['d'][0]!r}")
            lines.append(f"    {f['n']}: Mapped[{ann(f)}] = mapped_column({', '.join(opts)})")
    src = "\n".join(lines) + "\n"
    exec(compile(src, f"<c17 {name}>", "exec", dont_inherit=True), ns)  # noqa: S102
    return ns[name]


def get_field(obj, kind, fname):
    if kind == "typeddict":
        return obj.get(fname, "<absent>")
    return getattr(obj, fname)


def fieldwise(obj, kind, spec, nested_kind_spec=None):
    out = []
    for f in spec["fields"]:
        v = get_field(obj, kind, f["n"])
        if f["t"] == "nested" and v not in (None, "<absent>"):
            looks_like_model = isinstance(v, dict) if kind == "typeddict" else \
                all(hasattr(v, g["n"]) for g in spec["nested"]["fields"])
            if not looks_like_model:     # a wrong object in the nested position is a difference, not a harness error
                out.append((f["n"], ("not_a_model", tspec.canon(v))))
                continue
            v = fieldwise(v, kind, spec["nested"])
            out.append((f["n"], ("nested", v)))
        else:
            out.append((f["n"], tspec.canon(v)))
    return tuple(out)


def construct(cls, kind, spec, values, nested_cls=None):
    kw = {}
    for f in spec["fields"]:
        if f["n"] in values:
            v = values[f["n"]]
            if f["t"] == "nested":
                v = construct(nested_cls, kind, spec["nested"], v)
            kw[f["n"]] = v
    return cls(**kw)


# ------------------------------------------------------------------------------------ strategies
@st.composite
def st_fields(draw, n_min=1, n_max=4, allow_nested=False):
    n = draw(st.integers(n_min, n_max))
    names = draw(st.lists(st.sampled_from(FIELD_NAMES), min_size=n, max_size=n, unique=True))
    fields = [{"n": "key", "t": "str", "d": None}]
    simple = draw(st.booleans())
    for nm in names:
        t = draw(st.sampled_from(["int", "str", "bool"] if simple else ["int", "str", "bool", "opt_int", "list_int"]))
        d = None
        if draw(st.integers(0, 2)) == 0 and DEFAULTS[t]:
            d = [draw(st.sampled_from(DEFAULTS[t]))]
        fields.append({"n": nm, "t": t, "d": d})
    req = [f for f in fields if not f["d"]]
    opt = [f for f in fields if f["d"]]
    fields = req + opt
    # some required fields become keyword-only in the kinds that know the notion (dataclass, attrs); placed before the
    # positional ones they make the declaration order differ from the constructor's parameter order
    for f in fields[1:]:
        if draw(st.integers(0, 4)) == 0 and not f["d"]:
            f["kw"] = True
    return fields


@st.composite
def st_case(draw):
    fields = draw(st_fields())
    spec = {"fields": fields}
    if draw(st.integers(0, 3)) == 0:
        spec["nested"] = {"fields": draw(st_fields(1, 2))}
        pos = len([f for f in fields if not f["d"]])
        fields.insert(pos, {"n": "inner", "t": "nested", "d": None})
    recipe = {}
    r = draw(st.sampled_from(["none", "none", "rename", "style", "omit_default", "as_list", "skip", "forbid", "mixed"]))
    names = [f["n"] for f in fields]
    if r in ("rename", "mixed"):
        recipe["map"] = {n: f"K_{i}" for i, n in enumerate(names) if draw(st.booleans())}
    if r in ("style", "mixed"):
        recipe["style"] = draw(st.sampled_from(["CAMEL", "UPPER_SNAKE", "PASCAL_DOT", "LOWER_KEBAB"]))
    if r in ("omit_default", "mixed"):
        recipe["omit_default"] = True
    if r == "as_list":
        recipe["as_list"] = True
    if r == "skip":
        opt = [f["n"] for f in fields if f["d"]]
        if opt:
            recipe["skip"] = [draw(st.sampled_from(opt))]
    if r == "forbid":
        recipe["forbid"] = True

    def draw_values(flds, nested_spec):
        vals = {}
        for f in flds:
            if f["d"] and draw(st.integers(0, 2)) == 0:
                continue
            if f["t"] == "nested":
                vals[f["n"]] = draw_values(nested_spec["fields"], None)
            else:
                vals[f["n"]] = draw(st.sampled_from(VALID[f["t"]]))
        return vals
    values = draw_values(fields, spec.get("nested"))
    nfaults = draw(st.sampled_from([0, 0, 1, 1, 2, 3]))
    faults = []
    for _ in range(nfaults):
        f = draw(st.sampled_from([x for x in fields if x["t"] != "nested"]))
        how = draw(st.sampled_from(["bad_value", "bad_value", "missing", "extra"]))
        faults.append({"f": f["n"], "how": how, "v": draw(st.integers(0, 9))})
    return {"spec": spec, "recipe": recipe, "values": values, "faults": faults, "debug": draw(st.integers(0, 2)),
            "strict": draw(st.booleans())}


def outer_key(f, recipe):
    if f["n"] in recipe.get("map", {}):
        return recipe["map"][f["n"]]
    k = tspec.model_key(f["n"])
    if recipe.get("style"):
        k = ref_style(k, NameStyle[recipe["style"]])
    return k


def build_recipe(cls, recipe):
    kw = {}
    if recipe.get("map"):
        kw["map"] = dict(recipe["map"])
    if recipe.get("style"):
        kw["name_style"] = NameStyle[recipe["style"]]
    if recipe.get("omit_default"):
        kw["omit_default"] = True
    if recipe.get("as_list"):
        kw["as_list"] = True
    if recipe.get("skip"):
        kw["skip"] = list(recipe["skip"])
    if recipe.get("forbid"):
        kw["extra_in"] = ExtraForbid()
    return [name_mapping(cls, **kw)] if kw else []


def build_input(spec, recipe, values, faults):
    """Input datum for the *logical* model under the recipe (dict layout; list layout when as_list)."""
    fields = spec["fields"]
    if recipe.get("as_list"):
        out: Any = []
        for f in fields:
            v = values.get(f["n"])
            if f["t"] == "nested":
                v = {tspec.model_key(g["n"]): values[f["n"]][g["n"]] for g in spec["nested"]["fields"] if g["n"] in values[f["n"]]}
            out.append(v)
        for ft in faults:
            idx = [f["n"] for f in fields].index(ft["f"])
            f = fields[idx]
            if ft["how"] == "bad_value":
                out[idx] = INVALID[f["t"]][ft["v"] % len(INVALID[f["t"]])]
        return out
    out = {}
    for f in fields:
        if f["n"] not in values or f["n"] in recipe.get("skip", []):
            continue
        v = values[f["n"]]
        if f["t"] == "nested":
            v = {tspec.model_key(g["n"]): v[g["n"]] for g in spec["nested"]["fields"] if g["n"] in v}
        out[outer_key(f, recipe)] = v
    for ft in faults:
        f = next(x for x in fields if x["n"] == ft["f"])
        if f["n"] in recipe.get("skip", []):
            continue
        k = outer_key(f, recipe)
        if ft["how"] == "bad_value":
            out[k] = INVALID[f["t"]][ft["v"] % len(INVALID[f["t"]])]
        elif ft["how"] == "missing":
            out.pop(k, None)
        else:
            out[f"zz_extra_{ft['v']}"] = 1
    return out


def flat_error(exc):
    return tuple(sorted((type(n).__name__, tuple(repr(t) for t in get_trail(n)),
                         tuple(sorted(map(repr, getattr(n, "fields", ())))) if hasattr(n, "fields") else ())
                        for n in all_nodes(exc)))


def check_case(ctx: runner.Ctx, case):  # noqa: C901, PLR0912, PLR0915
    if case.get("renamed"):
        return check_renamed(ctx, case)
    if case.get("inherit"):
        return check_inherit(ctx, case)
    spec, recipe = case["spec"], case["recipe"]
    kinds = [k for k in KINDS if applicable(spec, k)]
    if recipe.get("as_list"):
        kinds = [k for k in kinds if k not in ("typeddict", "sqlalchemy")]   # no defined field order (documented)
        if any(f["d"] for f in spec["fields"]):
            kinds = []
    if recipe.get("skip"):
        # a skipped field is left to the model's own constructor; SQLAlchemy applies column defaults at flush time only
        kinds = [k for k in kinds if k != "sqlalchemy"]
    if len(kinds) < 2:
        ctx.count("fewer_than_two_applicable_kinds")
        return
    classes, nested = {}, {}
    for k in kinds:
        try:
            if spec.get("nested"):
                nested[k] = build_kind(spec["nested"], k)
            classes[k] = build_kind(spec, k, nested.get(k))
        except Exception as ex:  # noqa: BLE001
            raise env.HarnessError(f"cannot build kind {k}: {ex!r} for {spec}") from ex
    datum = build_input(spec, recipe, case["values"], case["faults"])
    faulty = bool(case["faults"])
    ctx.case([case], len(kinds) >= 3 and (bool(recipe) or faulty),
             sample={"spec": spec, "recipe": recipe, "input": datum, "kinds": kinds, "debug": case["debug"]},
             labels=[f"kinds:{len(kinds)}", *[f"kind:{k}" for k in kinds], *[f"recipe:{k}" for k in recipe],
                     f"faults:{len(case['faults'])}", *(["nested"] if spec.get("nested") else [])])
    head = f"spec={spec} recipe={recipe} debug={case['debug']} strict={case['strict']} input={datum!r}"
    outcomes = {}
    loaded = {}
    for k in kinds:
        rec = build_recipe(classes[k], recipe)
        retort = Retort(recipe=rec, strict_coercion=case["strict"], debug_trail=DEBUG[case["debug"]])
        try:
            obj = retort.load(datum, classes[k])
        except ProviderNotFoundError as ex:
            outcomes[k] = ("not_creatable", describe(ex.__cause__ or ex)[:200])
            continue
        except BaseException as ex:  # noqa: BLE001
            outcomes[k] = ("err", flat_error(ex))
            continue
        loaded[k] = obj
        outcomes[k] = ("ok", fieldwise(obj, k, spec))
    base = kinds[0]
    for k in kinds[1:]:
        a, b = outcomes[base], outcomes[k]
        if a[0] == "not_creatable" or b[0] == "not_creatable":
            if a[0] != b[0]:
                ctx.violation("loader_creatable_differs", (f"{base}~{k}", "+".join(sorted(recipe))), case, f"{head}: {base} -> {a!r}; {k} -> {b!r}")
            continue
        if a[0] != b[0]:
            ctx.violation("load_acceptance_differs", (f"{base}~{k}", "+".join(sorted(recipe))), case, f"{head}: {base} -> {a!r}; {k} -> {b!r}")
        elif a[0] == "ok" and a[1] != b[1]:
            ctx.violation("loaded_fields_differ", (f"{base}~{k}", "+".join(sorted(recipe))), case, f"{head}: {base} -> {a[1]!r}; {k} -> {b[1]!r}")
        elif a[0] == "err" and case["debug"] != 2 and len({(ft["f"], ft["how"]) for ft in case["faults"]}) >= 2:
            ctx.count("unspecified_which_fault_is_reported_first")   # kinds process fields in different orders
        elif a[0] == "err" and _norm_err(a[1]) != _norm_err(b[1]):
            ctx.violation("error_structure_differs", (f"{base}~{k}", "+".join(sorted(recipe))), case, f"{head}: {base} -> {a[1]!r}; {k} -> {b[1]!r}")
    # dumping: field-wise equal objects -> equal data
    full = {}
    for f in spec["fields"]:
        if f["t"] == "nested":
            full[f["n"]] = {g["n"]: case["values"][f["n"]].get(g["n"], g["d"][0] if g["d"] else None)
                            for g in spec["nested"]["fields"]}
        else:
            full[f["n"]] = case["values"].get(f["n"], f["d"][0] if f["d"] else None)
    dumps = {}
    for k in kinds:
        rec = build_recipe(classes[k], recipe)
        retort = Retort(recipe=rec, debug_trail=DEBUG[case["debug"]])
        try:
            obj = construct(classes[k], k, spec, full, nested.get(k))
        except Exception as ex:  # noqa: BLE001
            raise env.HarnessError(f"direct construction of {k} failed: {ex!r}") from ex
        try:
            dumps[k] = ("ok", tspec.canon(retort.dump(obj, classes[k])))
        except ProviderNotFoundError as ex:
            dumps[k] = ("not_creatable", describe(ex.__cause__ or ex)[:200])
        except BaseException as ex:  # noqa: BLE001
            dumps[k] = ("err", type(ex).__name__, exc_site(ex))
    for k in kinds[1:]:
        if dumps[base] != dumps[k]:
            if recipe.get("omit_default") and "sqlalchemy" in (base, k):
                ctx.count("unspecified_omit_default_sqlalchemy")
                continue
            ctx.violation("dumped_data_differ", (f"{base}~{k}", "+".join(sorted(recipe))), case,
                          f"{head}: values={full!r}: {base} -> {dumps[base]!r}; {k} -> {dumps[k]!r}")
    # converters between kinds copy every field
    if not recipe and not faulty:
        for ks, kd in itertools.permutations(kinds, 2):
            if ctx.evaluations % 3 and (ks, kd) != (kinds[0], kinds[-1]):
                continue
            recipe_conv = []
            if spec.get("nested"):
                pass
            try:
                conv = get_converter(classes[ks], classes[kd], recipe=recipe_conv)
            except ProviderNotFoundError as ex:
                ctx.violation("converter_not_creatable", (f"{ks}->{kd}",), case, f"{head}: {describe(ex.__cause__ or ex)}")
                continue
            src = construct(classes[ks], ks, spec, full, nested.get(ks))
            try:
                res = conv(src)
            except Exception as ex:  # noqa: BLE001
                ctx.violation("convert_failed", (f"{ks}->{kd}", type(ex).__name__), case, f"{head}: {describe(ex)}")
                continue
            ctx.count("conversions")
            if fieldwise(res, kd, spec) != fieldwise(src, ks, spec):
                ctx.violation("converter_dropped_or_changed_field", (f"{ks}->{kd}",), case,
                              f"{head}: source {fieldwise(src, ks, spec)!r}; result {fieldwise(res, kd, spec)!r}")


# ------------------------------------------------------------------------------------ parameter name != field id
# attrs strips the underscore of a private attribute for the constructor parameter (``_secret`` -> ``secret``) and knows
# explicit aliases; a pydantic field with an alias is passed by the alias.  Loader and converter must call the
# constructor with the *parameter* name, which only matters where the argument goes by keyword: a keyword-only
# attribute, or one that follows an optional attribute left out of the call.
RENAMED_MODELS = {
    "dc_plain": ("@dataclasses.dataclass\nclass {n}:\n    a: int\n    _secret: int\n", {"a": "a", "_secret": "_secret"}),
    "dc_kw": ("@dataclasses.dataclass\nclass {n}:\n    a: int\n    _secret: int = dataclasses.field(kw_only=True)\n",
              {"a": "a", "_secret": "_secret"}),
    "attrs_pos": ("@attrs.define\nclass {n}:\n    a: int\n    _secret: int\n", {"a": "a", "_secret": "_secret"}),
    "attrs_kw": ("@attrs.define\nclass {n}:\n    a: int\n    _secret: int = attrs.field(kw_only=True)\n",
                 {"a": "a", "_secret": "_secret"}),
    "attrs_after_optional": ("@attrs.define\nclass {n}:\n    a: int\n    opt: int = 5\n    _secret: int = 0\n",
                             {"a": "a", "_secret": "_secret"}),
    "attrs_alias_kw": ("@attrs.define\nclass {n}:\n    a: int\n    _secret: int = attrs.field(alias='ex', kw_only=True)\n",
                       {"a": "a", "_secret": "_secret"}),
    "pydantic_alias": ("class {n}(pydantic.BaseModel):\n    a: int\n    secret_: int = pydantic.Field(alias='secretAlias')\n",
                       {"a": "a", "_secret": "secret_"}),
    "pydantic_alias_default": ("class {n}(pydantic.BaseModel):\n    a: int\n"
                               "    secret_: int = pydantic.Field(default=0, alias='secretAlias')\n",
                               {"a": "a", "_secret": "secret_"}),
}


def _renamed_class(key):
    import attrs  # noqa: PLC0415
    import pydantic  # noqa: PLC0415
    name = f"R{next(_uid)}_{key}"
    ns = {"dataclasses": dataclasses, "attrs": attrs, "pydantic": pydantic}
    exec(compile(RENAMED_MODELS[key][0].format(n=name), f"<c17 {name}>", "exec", dont_inherit=True), ns)  # noqa: S102
    return ns[name]


def renamed_cases():
    keys = sorted(RENAMED_MODELS)
    for k in keys:
        for dbg in (0, 1, 2):
            yield {"renamed": "load", "dst": k, "debug": dbg}
    for ks in keys:
        for kd in keys:
            yield {"renamed": "convert", "src": ks, "dst": kd}


def check_renamed(ctx: runner.Ctx, case):
    from adaptix.conversion import allow_unlinked_optional, link  # noqa: PLC0415
    kd = case["dst"]
    dst = _renamed_class(kd)
    dmap = RENAMED_MODELS[kd][1]
    ctx.case([case], True, sample=case, labels=["part:renamed_parameter", f"renamed:{case['renamed']}", f"dst:{kd}"])
    if case["renamed"] == "load":
        # private fields are skipped by default: map them explicitly so that they are loaded
        retort = Retort(debug_trail=DEBUG[case["debug"]],
                        recipe=[name_mapping(dst, map={dmap["_secret"]: "s"}, skip=())])
        try:
            obj = retort.load({"a": 1, "s": 42, **({"opt": 6} if kd == "attrs_after_optional" else {})}, dst)
            got = {"a": getattr(obj, dmap["a"]), "_secret": getattr(obj, dmap["_secret"])}
        except Exception as ex:  # noqa: BLE001
            got = describe(ex)
        if got != {"a": 1, "_secret": 42}:
            ctx.violation("renamed_parameter_load", (kd,), case,
                          f"loading {{'a': 1, 's': 42}} into {kd} (field {dmap['_secret']!r} mapped to key 's'): {got!r}")
        return
    ks = case["src"]
    src = _renamed_class(ks)
    smap = RENAMED_MODELS[ks][1]
    recipe = [allow_unlinked_optional(P[dst].opt)] if kd == "attrs_after_optional" else []
    if smap["_secret"] != dmap["_secret"]:
        recipe.append(link(P[src][smap["_secret"]], P[dst][dmap["_secret"]]))
    if ks.startswith("pydantic"):
        src_obj = src(a=1, secretAlias=42)
    elif ks.startswith("attrs"):
        src_obj = src(a=1, **{"ex" if ks == "attrs_alias_kw" else "secret": 42})
    else:
        src_obj = src(a=1, _secret=42)
    try:
        res = get_converter(src, dst, recipe=recipe)(src_obj)
        got = {"a": getattr(res, dmap["a"]), "_secret": getattr(res, dmap["_secret"])}
    except Exception as ex:  # noqa: BLE001
        got = describe(ex)
    if got != {"a": 1, "_secret": 42}:
        ctx.violation("renamed_parameter_convert", (f"{ks.split('_')[0]}->{kd}",), case,
                      f"converter {ks} -> {kd} must copy a=1 and the private / aliased field = 42: {got!r}")


def _norm_err(flat):
    """The model identity inside messages differs by construction; classes, trails and key sets must agree."""
    return flat


# ------------------------------------------------------------------------ parent / child twins: providers bound to the parent class
INHERIT_KINDS = {
    "dataclass": "@dataclasses.dataclass\nclass {p}:\n    login_name: str\n\n@dataclasses.dataclass\nclass {c}({p}):\n    access_level: int = 0\n",
    "attrs": "@attrs.define\nclass {p}:\n    login_name: str\n\n@attrs.define\nclass {c}({p}):\n    access_level: int = 0\n",
    "pydantic": "class {p}(pydantic.BaseModel):\n    login_name: str\n\nclass {c}({p}):\n    access_level: int = 0\n",
    "typeddict": "class {p}(typing.TypedDict):\n    login_name: str\n\nclass {c}({p}):\n    access_level: int\n",
}
INHERIT_RECIPES = ["style_on_parent", "map_on_parent", "dumper_on_parent", "loader_on_parent", "field_loader_on_parent",
                   "style_on_child"]
_inh_uid = itertools.count()


def inherit_cases():
    for r in INHERIT_RECIPES:
        for dbg in (0, 1, 2):
            yield {"inherit": r, "debug": dbg}


def _inherit_classes(kind):
    import attrs  # noqa: PLC0415
    import pydantic  # noqa: PLC0415
    n = next(_inh_uid)
    p, c = f"Par{n}", f"Chi{n}"
    ns = {"dataclasses": dataclasses, "attrs": attrs, "pydantic": pydantic, "typing": typing}
    exec(compile(INHERIT_KINDS[kind].format(p=p, c=c), f"<c17 inherit {kind}>", "exec", dont_inherit=True), ns)  # noqa: S102
    return ns[p], ns[c]


def check_inherit(ctx: runner.Ctx, case):
    """The SAME recipe, bound to the parent class (a concrete class: "the provider will be applied to all same types"), x every
    model kind that can inherit: what the CHILD model loads from / dumps to must not depend on the kind."""
    from adaptix import dumper, loader  # noqa: PLC0415
    ctx.case([case], True, sample=case, labels=["part:inherited_twin", f"inherit:{case['inherit']}"])
    outs = {}
    for kind in INHERIT_KINDS:
        if kind == "typeddict" and case["inherit"] == "map_on_parent":
            # a TypedDict child has no runtime base classes (its MRO is child, dict, object): that the undocumented inheritance of
            # ``map`` does not reach it is not a disagreement about a documented rule
            ctx.count("unspecified_inherited_map_on_typeddict")
            continue
        par, chi = _inherit_classes(kind)
        r = case["inherit"]
        recipe = {"style_on_parent": lambda: [name_mapping(par, name_style=NameStyle.CAMEL)],
                  "map_on_parent": lambda: [name_mapping(par, map={"login_name": "LN"})],
                  "dumper_on_parent": lambda: [dumper(par, lambda o: "<parent>")],
                  "loader_on_parent": lambda: [loader(par, lambda d: "<parent>")],
                  "field_loader_on_parent": lambda: [loader(P[par].login_name, lambda d: "<via parent field>")],
                  "style_on_child": lambda: [name_mapping(chi, name_style=NameStyle.CAMEL)]}[r]()
        retort = Retort(recipe=recipe, debug_trail=DEBUG[case["debug"]])
        obj = {"login_name": "root", "access_level": 7} if kind == "typeddict" else chi(login_name="root", access_level=7)
        res = []
        try:
            res.append(("dump", retort.dump(obj, chi)))
        except Exception as ex:  # noqa: BLE001
            res.append(("dump_err", type(ex).__name__))
        for datum in ({"login_name": "root", "access_level": 7}, {"loginName": "root", "accessLevel": 7}, {"LN": "root", "access_level": 7}):
            try:
                v = retort.load(datum, chi)
                get = (lambda k: v[k]) if kind == "typeddict" else (lambda k: getattr(v, k))  # noqa: B023
                res.append(("load", repr(get("login_name")), repr(get("access_level"))))
            except Exception as ex:  # noqa: BLE001
                res.append(("load_err", type(ex).__name__))
        outs[kind] = res
    ref = outs["dataclass"]
    for kind, res in outs.items():
        if res != ref:
            ctx.violation("inherited_twin_differs", (case["inherit"], kind), case,
                          f"recipe {case['inherit']} bound to the parent, debug={case['debug']}: the {kind} child gives {res!r}, the "
                          f"dataclass child {ref!r}")


def explore(ctx: runner.Ctx):
    for i, c in enumerate(inherit_cases()):
        if i % ctx.nshards == ctx.shard:
            runner.guarded(ctx, lambda k: check_case(ctx, k), c)
    n_ren = 0
    for i, c in enumerate(renamed_cases()):
        n_ren += 1
        if i % ctx.nshards == ctx.shard:
            runner.guarded(ctx, lambda k: check_case(ctx, k), c)
    ctx.mark_exhaustive(f"renamed parameters: {n_ren} cases = {len(RENAMED_MODELS)} models whose constructor parameter is not "
                        f"the field id (attrs private / alias, pydantic alias; positional, keyword-only, after a skipped "
                        f"optional) loaded under 3 debug modes and converted from each other")
    ctx.given(st_case(), lambda c: check_case(ctx, c), ctx.budget(3000, 100000))


RULE = ("cases = (logical model spec with 2-6 fields incl. optional nested model, name_mapping recipe, input values, 0-3 "
        "faults, debug, strict) realised in every applicable kind. Non-trivial = >= 3 kinds instantiated and a non-default "
        "recipe or a faulty input. Distinct by the whole case.")

if __name__ == "__main__":
    raise SystemExit(runner.main(
        PROP, explore=explore, check_case=check_case, strategy=st_case(), rule=RULE,
        assumptions=["applicability predicates mirror docs/reference/integrations.rst: TypedDict without defaults; SQLAlchemy "
                     "only int/str/bool columns, no nested models, no list layout; list layout only for kinds with a "
                     "registered field order",
                     "omit_default on SQLAlchemy models is not compared (column defaults are applied at flush time)"],
    ))
