"""C14 -- Implicit coercion is type-sound; unlinkable or uncoercible fields are refused.

A *case* is pure data::

    {"src": <type spec>, "dst": <type spec>, "params": [[name, <type spec>], ...], "policy": [...]}

``src``/``dst`` are the parameter / return annotation of the converter (usually generated models whose fields carry
the interesting types; a bare field type for the top-level variant), ``params`` are extra converter parameters
(``impl_converter`` stub), ``policy`` is the unlinked-optional policy recipe.  Type specs are nested JSON lists
(grammar below) from which hints, classes, canonical values and the reference verdict are rebuilt deterministically.

Oracle (DESIGN.md C14):
  (a) creating the converter succeeds or raises ProviderNotFoundError -- anything else is a violation;
  (b) success => the *documented* relation ``coercible(S, D)`` (docs/conversion/tutorial.rst "Type coercion",
      extended-usage.rst "Using default value for fields") does not say "no".  The relation is three-valued:
      "yes" (a documented rule applies), "no" (no documented rule and not sound by subtyping either) and "unspec"
      (not literally documented but sound by composition of the documented rules / standard subtyping -- counted,
      never asserted);
  (c) independent of the relation: canonical values of S are converted and the result must structurally conform to D
      (isinstance-style check) -- the literal "cannot place a value of the wrong static type" reading;
  (d) a destination field without a source => refusal, always for required fields and for optional ones unless an
      ``allow_unlinked_optional`` policy covers the field (part of the model rule of the relation).
Refusing a pair the docs call coercible is NOT a violation of C14 (soundness is one-directional); it is counted.

Type spec grammar (JSON)::

    ["sc", name]                          atom: int bool str float bytes None Any object IE E datetime date PA PB
                                          IntList
    ["nt", name, base]                    NewType(name, base)
    ["ann", inner, meta]                  Annotated[inner, meta]
    ["lit", [v, ...]]                     Literal; v = int | str | bool | ["e", "IE", member]
    ["g", origin, [args], spelling]       parametrised generic, spelling "t" (typing alias) | "b" (runtime class);
                                          origin "tuple" is tuple[T, ...], "tuplef" a constant-length tuple
    ["bare", origin, spelling]            unparametrised generic
    ["u", [members], style]               Union; style "Union" | "Optional" | "pipe"
    ["tv", name]                          type variable (inside generic model fields only)
    ["m", tag, kind, fields, tparams, args]  model; kind dc|nt|td|attrs; fields [[name, spec, has_default], ...];
                                          tparams [] or ["T"]; args None (not generic / bare) or [spec, ...]
"""
from __future__ import annotations

import collections
import collections.abc as cabc
import dataclasses
import datetime as dt
import enum
import functools
import itertools
import json
import operator
import types
import typing

from vkit import env, runner
from vkit.errors import describe, exc_site

env.import_adaptix()

import attr  # noqa: E402
from hypothesis import strategies as st  # noqa: E402

from adaptix import ProviderNotFoundError  # noqa: E402
from adaptix.conversion import ConversionRetort, allow_unlinked_optional, forbid_unlinked_optional  # noqa: E402

PROP = "C14"

NO, UNSPEC, YES = 0, 1, 2
VERDICT = {NO: "no", UNSPEC: "unspec", YES: "yes"}


# =================================================================================== spec constructors
def sc(name):
    return ["sc", name]


def g(origin, *args, sp="t"):
    return ["g", origin, list(args), sp]


def bare(origin, sp="t"):
    return ["bare", origin, sp]


NONE = sc("None")
ANY = sc("Any")
OBJECT = sc("object")
INT = sc("int")
STR = sc("str")
BOOL = sc("bool")


def opt(x):
    return ["u", [x, NONE], "Optional"]


def un(*members, style="Union"):
    return ["u", list(members), style]


def lit(*values):
    return ["lit", list(values)]


def ann(x, meta="meta"):
    return ["ann", x, meta]


def nt(name, base):
    return ["nt", name, base]


def model(tag, fields, kind="dc", tparams=(), args=None):
    return ["m", tag, kind, [[f[0], f[1], bool(f[2]) if len(f) > 2 else False] for f in fields], list(tparams),
            None if args is None else list(args)]


def jkey(obj) -> str:
    return json.dumps(obj, sort_keys=True, ensure_ascii=True)


# =================================================================================== static tables
# origin -> (typing alias, runtime class, arity, family)
ORIGINS = {
    "list": (typing.List, list, 1, "iter"),
    "set": (typing.Set, set, 1, "iter"),
    "frozenset": (typing.FrozenSet, frozenset, 1, "iter"),
    "deque": (typing.Deque, collections.deque, 1, "iter"),
    "tuple": (typing.Tuple, tuple, 1, "iter"),
    "tuplef": (typing.Tuple, tuple, None, "tuplef"),
    "Sequence": (typing.Sequence, cabc.Sequence, 1, "iter"),
    "MutableSequence": (typing.MutableSequence, cabc.MutableSequence, 1, "iter"),
    "Iterable": (typing.Iterable, cabc.Iterable, 1, "iter"),
    "Collection": (typing.Collection, cabc.Collection, 1, "iter"),
    "Reversible": (typing.Reversible, cabc.Reversible, 1, "iter"),
    "AbstractSet": (typing.AbstractSet, cabc.Set, 1, "iter"),
    "MutableSet": (typing.MutableSet, cabc.MutableSet, 1, "iter"),
    "dict": (typing.Dict, dict, 2, "dict"),
    "defaultdict": (typing.DefaultDict, collections.defaultdict, 2, "dict"),
    "ordereddict": (typing.OrderedDict, collections.OrderedDict, 2, "dict"),
    "Mapping": (typing.Mapping, cabc.Mapping, 2, "dict"),
    "MutableMapping": (typing.MutableMapping, cabc.MutableMapping, 2, "dict"),
    "type": (typing.Type, type, 1, "type"),
}
ABC_ORIGINS = {"Sequence", "MutableSequence", "Iterable", "Collection", "Reversible", "AbstractSet", "MutableSet",
               "Mapping", "MutableMapping"}
SETLIKE = {"set", "frozenset", "AbstractSet", "MutableSet"}
# docs: "source and destination types are one of the builtin iterable" / "... are dict"
ITER_DOC = {"list", "set", "frozenset", "deque", "tuple", "Sequence", "MutableSequence", "Iterable", "Collection",
            "Reversible", "AbstractSet", "MutableSet"}
DICT_DOC = {"dict", "Mapping", "MutableMapping"}

# runtime subclass relation between the generic origins (a value of the key is an instance of each listed origin)
_SEQ = {"Sequence", "Iterable", "Collection", "Reversible"}
ORIGIN_SUB = {
    "list": {"list", "MutableSequence", *_SEQ},
    "deque": {"deque", "MutableSequence", *_SEQ},
    "tuple": {"tuple", *_SEQ},
    "set": {"set", "MutableSet", "AbstractSet", "Iterable", "Collection"},
    "frozenset": {"frozenset", "AbstractSet", "Iterable", "Collection"},
    "Sequence": set(_SEQ),
    "MutableSequence": {"MutableSequence", *_SEQ},
    "Iterable": {"Iterable"},
    "Collection": {"Collection", "Iterable"},
    "Reversible": {"Reversible", "Iterable"},
    "AbstractSet": {"AbstractSet", "Collection", "Iterable"},
    "MutableSet": {"MutableSet", "AbstractSet", "Collection", "Iterable"},
    "dict": {"dict", "Mapping", "MutableMapping"},
    "defaultdict": {"defaultdict", "dict", "Mapping", "MutableMapping"},
    "ordereddict": {"ordereddict", "dict", "Mapping", "MutableMapping"},
    "Mapping": {"Mapping"},
    "MutableMapping": {"MutableMapping", "Mapping"},
    "type": {"type"},
}

# scalar name -> names of its proper non-generic superclasses among the scalars (object is handled separately)
SCALAR_SUPERS = {"bool": ["int"], "IE": ["int"], "datetime": ["date"], "PB": ["PA"]}
STATIC_SCALARS = {"int": int, "bool": bool, "str": str, "float": float, "bytes": bytes, "None": None,
                  "Any": typing.Any, "object": object, "datetime": dt.datetime, "date": dt.date}
GENERATED_SCALARS = ["IE", "E", "PA", "PB", "IntList"]
HASHABLE_SCALARS = ["int", "str", "bool", "bytes", "float", "IE", "E", "date", "datetime"]
LIT_TYPE_TO_SCALAR = {"int": "int", "bool": "bool", "str": "str", "IE": "IE"}


class _Default:
    def __repr__(self):
        return "<DEFAULT>"


DEFAULT = _Default()


# =================================================================================== canonical form of a spec
class Universe:
    """Canonicalises specs (spelling-independent, hashable) and evaluates the documented relation.
    Nothing here touches adaptix."""

    def __init__(self, policy):
        self.policy = policy
        self.models: dict[str, list] = {}
        self._rel_cache: dict = {}

    # ---- canon
    def canon(self, spec, tv=None):  # noqa: C901, PLR0911, PLR0912
        k = spec[0]
        if k == "sc":
            return ("sc", spec[1])
        if k == "tv":
            if tv is None or spec[1] not in tv:
                raise env.HarnessError(f"unbound type variable in spec {spec!r}")
            return tv[spec[1]]
        if k == "nt":
            return ("nt", spec[1], self.canon(spec[2], tv))
        if k == "ann":
            return self.canon(spec[1], tv)
        if k == "lit":
            vals = set()
            has_none = False
            for v in spec[1]:
                if v is None:
                    has_none = True
                elif isinstance(v, list):
                    vals.add((v[1], v[2]))
                else:
                    vals.add((type(v).__name__, v))
            members = []
            if vals:
                members.append(("lit", tuple(sorted(vals, key=repr))))
            if has_none:
                members.append(("sc", "None"))
            return self._mk_union(members)
        if k == "g":
            origin = spec[1]
            args = tuple(self.canon(a, tv) for a in spec[2])
            return ("g", origin, args)
        if k == "bare":
            origin = spec[1]
            arity = ORIGINS[origin][2]
            return ("g", origin, (("sc", "Any"),) * arity)  # PEP 484: a bare generic means Any parameters
        if k == "u":
            return self._mk_union([self.canon(m, tv) for m in spec[1]])
        if k == "m":
            ident = jkey([spec[1], spec[2], spec[3], spec[4]])
            self.models.setdefault(ident, spec)
            tparams = spec[4]
            if not tparams:
                return ("m", ident, ())
            if spec[5] is None:
                return ("m", ident, (("sc", "Any"),) * len(tparams))
            return ("m", ident, tuple(self.canon(a, tv) for a in spec[5]))
        raise env.HarnessError(f"unknown spec {spec!r}")

    def _mk_union(self, members):
        flat = []
        for m in members:
            if m[0] == "u":
                flat.extend(m[1])
            else:
                flat.append(m)
        lits = [m for m in flat if m[0] == "lit"]
        rest = {m for m in flat if m[0] != "lit"}
        if lits:
            vals = set()
            for m in lits:
                vals.update(m[1])
            rest.add(("lit", tuple(sorted(vals, key=repr))))
        out = tuple(sorted(rest, key=repr))
        if len(out) == 1:
            return out[0]
        return ("u", out)

    def model_fields(self, cm):
        """canonical model -> [(name, canonical type, has_default)]"""
        node = self.models[cm[1]]
        tv = dict(zip(node[4], cm[2]))
        return [(f[0], self.canon(f[1], tv), f[2]) for f in node[3]]

    # ---- policy: is an unlinked optional field with this name allowed?
    def unlinked_allowed(self, field_name: str) -> bool:
        p = self.policy
        if p[0] == "forbid":
            return False
        if p[0] == "allow":
            return True
        if p[0] == "allow_names":                 # [allow_unlinked_optional(*names)]  (default forbid stays behind)
            return field_name in p[1]
        if p[0] == "forbid_names_then_allow":     # [forbid_unlinked_optional(*names), allow_unlinked_optional()]
            return field_name not in p[1]
        if p[0] == "allow_names_then_forbid":     # [allow_unlinked_optional(*names), forbid_unlinked_optional()]
            return field_name in p[1]
        raise env.HarnessError(f"unknown policy {p!r}")

    # ---- the documented relation
    def rel(self, s, d) -> int:
        key = (s, d)
        r = self._rel_cache.get(key)
        if r is None:
            r = self._rel(s, d)
            self._rel_cache[key] = r
        return r

    def _rel(self, s, d) -> int:  # noqa: C901, PLR0911, PLR0912
        sk, dk = s[0], d[0]
        # "source type and destination type are the same"
        if s == d:
            return YES
        # "destination type is Any"
        if d == ("sc", "Any"):
            return YES
        # "source type is a subclass of destination type (excluding generics)"
        if d == ("sc", "object") and ((sk == "sc" and s[1] != "None") or (sk == "m" and not s[2])):
            return YES
        if sk == "sc" and dk == "sc" and d[1] in SCALAR_SUPERS.get(s[1], ()):
            return YES
        # "source union is a subset of destination union (simple == check is using)";
        # a non-union source counts as a one-member union (tests: int -> Optional[int])
        if dk == "u" and all(m in d[1] for m in (s[1] if sk == "u" else (s,))):
            return YES
        out = NO
        # "source and destination types are Optional" (inner types coercible)
        none = ("sc", "None")
        if sk == "u" and dk == "u" and none in s[1] and none in d[1]:
            inner_s = self._mk_union([m for m in s[1] if m != none])
            inner_d = self._mk_union([m for m in d[1] if m != none])
            out = max(out, self.rel(inner_s, inner_d))
        if sk == "g" and dk == "g":
            sf, df = ORIGINS[s[1]][3], ORIGINS[d[1]][3]
            # "source and destination types are one of the builtin iterable"
            if sf == "iter" and df == "iter":
                r = self.rel(s[2][0], d[2][0])
                if s[1] not in ITER_DOC or d[1] not in ITER_DOC:
                    r = min(r, UNSPEC)
                out = max(out, r)
            # constant-length tuples: "not supported yet" in the code, nothing in the docs -> unspec at most
            if sf == "tuplef" and df == "tuplef" and len(s[2]) == len(d[2]):
                out = max(out, min(UNSPEC, min((self.rel(a, b) for a, b in zip(s[2], d[2])), default=YES)))
            if sf == "tuplef" and df == "iter":
                out = max(out, min(UNSPEC, min((self.rel(a, d[2][0]) for a in s[2]), default=YES)))
            # "source and destination types are dict"
            if sf == "dict" and df == "dict":
                r = min(self.rel(s[2][0], d[2][0]), self.rel(s[2][1], d[2][1]))
                if s[1] not in DICT_DOC or d[1] not in DICT_DOC:
                    r = min(r, UNSPEC)
                out = max(out, r)
        # "source and destination types are models (conversion like top-level models)"
        if sk == "m" and dk == "m":
            out = max(out, self.model_rel(s, d, {}))
        # not documented, but every value of S is structurally a value of D: passing it through is sound
        if out == NO and self.sub(s, d):
            out = UNSPEC
        return out

    def sub(self, s, d) -> bool:
        key = ("sub", s, d)
        r = self._rel_cache.get(key)
        if r is None:
            r = self._sub(s, d)
            self._rel_cache[key] = r
        return r

    def _sub(self, s, d) -> bool:  # noqa: C901, PLR0911, PLR0912
        """Structural (covariant) subtyping: every runtime value of S conforms to D.  Used only to keep sound
        pass-through outside the asserted zone ("unspec"); it never turns a refusal into a violation."""
        if s == d or d in (("sc", "Any"), ("sc", "object")):
            return True
        sk, dk = s[0], d[0]
        if s == ("sc", "Any"):
            return False
        if sk == "u":
            return all(self.sub(m, d) for m in s[1])
        if dk == "u":
            return any(self.sub(s, m) for m in d[1])
        if sk == "nt":
            return self.sub(s[2], d)
        if sk == "lit":
            if dk == "lit":
                return set(s[1]) <= set(d[1])
            if dk == "sc":
                classes = {LIT_TYPE_TO_SCALAR[t] for t, _ in s[1]}
                return all(c == d[1] or d[1] in SCALAR_SUPERS.get(c, ()) for c in classes)
            return False
        if sk == "sc":
            if dk == "sc":
                return d[1] in SCALAR_SUPERS.get(s[1], ())
            if dk == "g":
                elem = None
                if s[1] == "IntList" and d[1] in ORIGIN_SUB["list"]:
                    elem = ("sc", "int")
                elif s[1] in ("str", "bytes") and d[1] in ORIGIN_SUB["Sequence"]:
                    elem = ("sc", "str") if s[1] == "str" else ("sc", "int")
                return elem is not None and self.sub(elem, d[2][0])
            return False
        if sk == "g" and dk == "g":
            so, do = s[1], d[1]
            if so == "tuplef":
                if do == "tuplef":
                    return len(s[2]) == len(d[2]) and all(self.sub(a, b) for a, b in zip(s[2], d[2]))
                return do in ORIGIN_SUB["tuple"] and all(self.sub(a, d[2][0]) for a in s[2])
            if do == "tuplef" or do not in ORIGIN_SUB[so]:
                return False
            return all(self.sub(a, b) for a, b in zip(s[2], d[2]))
        if sk == "m":
            if dk == "m":
                return s[1] == d[1] and all(self.sub(a, b) for a, b in zip(s[2], d[2]))
            if dk == "g" and self.models[s[1]][2] == "nt":  # a NamedTuple instance is a tuple
                ftypes = [t for _, t, _ in self.model_fields(s)]
                if d[1] == "tuplef":
                    return len(ftypes) == len(d[2]) and all(self.sub(a, b) for a, b in zip(ftypes, d[2]))
                return d[1] in ORIGIN_SUB["tuple"] and all(self.sub(a, d[2][0]) for a in ftypes)
        return False

    def cwalk(self, c):
        """All canonical nodes reachable from a canonical type (through model fields as well)."""
        yield c
        k = c[0]
        if k == "nt":
            yield from self.cwalk(c[2])
        elif k == "g":
            for a in c[2]:
                yield from self.cwalk(a)
        elif k == "u":
            for m in c[1]:
                yield from self.cwalk(m)
        elif k == "m":
            for _, t, _ in self.model_fields(c):
                yield from self.cwalk(t)

    def cpaired(self, s, d, params=None):
        """Canonical counterpart of ``paired_positions``: (s', d') pairs a coercer may be requested for."""
        yield s, d
        none = ("sc", "None")
        if s[0] == "m" and d[0] == "m":
            sf = {n: t for n, t, _ in self.model_fields(s)}
            for name, dtype, _ in self.model_fields(d):
                if params and name in params:
                    yield from self.cpaired(params[name], dtype)
                elif name in sf:
                    yield from self.cpaired(sf[name], dtype)
        elif s[0] == "g" and d[0] == "g":
            if ORIGINS[s[1]][3] == ORIGINS[d[1]][3] and ORIGINS[s[1]][3] in ("iter", "dict"):
                for x, y in zip(s[2], d[2]):
                    yield from self.cpaired(x, y)
        elif s[0] == "u" and d[0] == "u" and none in s[1] and none in d[1]:
            for x in s[1]:
                for y in d[1]:
                    if x != none and y != none:
                        yield from self.cpaired(x, y)

    def several_member_optionals_meet(self, s, d, params=None) -> bool:
        """Both sides of some paired position are unions containing None and one of them has further members
        besides a single one: the code path of the open finding C14-optional-first-member-only."""
        none = ("sc", "None")
        return any(a[0] == "u" and b[0] == "u" and none in a[1] and none in b[1] and (len(a[1]) > 2 or len(b[1]) > 2)
                   for a, b in self.cpaired(s, d, params))

    def has_several_member_optional(self, *canons) -> bool:
        return any(n[0] == "u" and ("sc", "None") in n[1] and len(n[1]) > 2 for c in canons for n in self.cwalk(c))

    def model_rel(self, s, d, params) -> int:
        """Field-wise rule.  ``params``: name -> canonical type of extra converter parameters (top level only;
        docs: "Additional parameters are checked (from right to left) before the fields")."""
        sfields = {n: t for n, t, _ in self.model_fields(s)}
        out = YES
        for name, dtype, has_default in self.model_fields(d):
            if name in params:
                out = min(out, self.rel(params[name], dtype))
            elif name in sfields:
                out = min(out, self.rel(sfields[name], dtype))
            elif not has_default or not self.unlinked_allowed(name):
                return NO  # docs: "all fields of the destination model must be linked to something even if ..."
        return out

    # ---- bucketing: which sub-pairs make the verdict "no", and what class of sub-pair is it
    def blames(self, s, d, params=None) -> list:  # noqa: C901, PLR0912
        """Precondition: the pair is not coercible ("no").  Returns [(class, "kindS->kindD", text)]."""
        sk, dk = s[0], d[0]
        none = ("sc", "None")
        if sk == "m" and dk == "m":
            out = []
            sfields = {n: t for n, t, _ in self.model_fields(s)}
            for name, dtype, has_default in self.model_fields(d):
                if params and name in params:
                    if self.rel(params[name], dtype) == NO:
                        out.extend(self.blames(params[name], dtype))
                elif name in sfields:
                    if self.rel(sfields[name], dtype) == NO:
                        out.extend(self.blames(sfields[name], dtype))
                elif not has_default:
                    out.append(("unlinked_required_field", "m->m", name))
                elif not self.unlinked_allowed(name):
                    out.append(("unlinked_optional_field_forbidden", "m->m", name))
            return out
        kp = f"{kind_label(s)}->{kind_label(d)}"
        text = f"{pretty_c(s)} -> {pretty_c(d)}"
        if sk == "u" and dk == "u" and none in s[1] and none in d[1]:
            ns = [m for m in s[1] if m != none]
            nd = [m for m in d[1] if m != none]
            if len(ns) == 1 and len(nd) == 1:
                return self.blames(ns[0], nd[0])
            return [("optional_with_several_members", kp, text)]
        if dk == "u" and sk != "u":
            same_origin = [m for m in d[1] if origin_label(m) == origin_label(s)]
            if same_origin:
                return [("union_member_matched_by_origin_only", kp, text)]
            return [("not_a_union_member", kp, text)]
        if sk == "g" and dk == "g":
            sf, df = ORIGINS[s[1]][3], ORIGINS[d[1]][3]
            if sf == "iter" and df == "iter":
                return self.blames(s[2][0], d[2][0])
            if sf == "dict" and df == "dict":
                out = []
                for i in (0, 1):
                    if self.rel(s[2][i], d[2][i]) == NO:
                        out.extend(self.blames(s[2][i], d[2][i]))
                return out
            if s[1] == d[1]:
                return [("same_origin_different_args", kp, text)]
        return [("other", kp, text)]


def kind_label(c) -> str:
    k = c[0]
    if k == "g":
        return f"g:{c[1]}"
    if k == "u":
        return "opt" if ("sc", "None") in c[1] else "u"
    if k == "m":
        return "gm" if c[2] else "m"
    return k


def origin_label(c):
    """What adaptix calls the origin of a normalised type (used only to *classify* violations)."""
    k = c[0]
    if k == "g":
        return "tuple" if c[1] == "tuplef" else c[1]
    if k == "sc":
        return c[1]
    if k == "m":
        return c[1]
    if k == "lit":
        return "Literal"
    if k == "u":
        return "Union"
    return c  # NewType: the object itself


def pretty_c(c) -> str:  # noqa: PLR0911
    k = c[0]
    if k == "sc":
        return c[1]
    if k == "nt":
        return f"NewType({c[1]})"
    if k == "lit":
        return "Literal[" + ", ".join(repr(v) if t != "IE" else f"IE.{v}" for t, v in c[1]) + "]"
    if k == "g":
        if c[1] == "tuple":
            return f"tuple[{pretty_c(c[2][0])}, ...]"
        return f"{c[1]}[" + ", ".join(pretty_c(a) for a in c[2]) + "]"
    if k == "u":
        return "Union[" + ", ".join(pretty_c(m) for m in c[1]) + "]"
    if k == "m":
        node = json.loads(c[1])
        fields = ",".join(f"{f[0]}{'?' if f[2] else ''}" for f in node[2])
        return f"M{node[0]}:{node[1]}({fields})" + (f"[{', '.join(pretty_c(a) for a in c[2])}]" if c[2] else "")
    return str(c)


def pretty(spec) -> str:  # noqa: C901, PLR0911, PLR0912
    """Human readable rendering of a raw spec (keeps spellings)."""
    k = spec[0]
    if k == "sc":
        return spec[1]
    if k == "tv":
        return f"~{spec[1]}"
    if k == "nt":
        return f"NewType({spec[1]},{pretty(spec[2])})"
    if k == "ann":
        return f"Annotated[{pretty(spec[1])}, {spec[2]!r}]"
    if k == "lit":
        return "Literal[" + ", ".join(f"IE.{v[2]}" if isinstance(v, list) else repr(v) for v in spec[1]) + "]"
    if k == "g":
        name = spec[1] if spec[3] == "b" else f"typing.{spec[1]}"
        if spec[1] == "tuple":
            return f"{name}[{pretty(spec[2][0])}, ...]"
        return f"{name}[" + ", ".join(pretty(a) for a in spec[2]) + "]"
    if k == "bare":
        return spec[1] if spec[2] == "b" else f"typing.{spec[1]}"
    if k == "u":
        if spec[2] == "pipe":
            return " | ".join(pretty(m) for m in spec[1])
        if spec[2] == "Optional":
            return f"Optional[{pretty(spec[1][0])}]"
        return "Union[" + ", ".join(pretty(m) for m in spec[1]) + "]"
    if k == "m":
        fields = ", ".join(f"{f[0]}: {pretty(f[1])}{' = DEFAULT' if f[2] else ''}" for f in spec[3])
        head = f"M{spec[1]}:{spec[2]}" + (f"<{','.join(spec[4])}>" if spec[4] else "")
        tail = "" if spec[5] is None else "[" + ", ".join(pretty(a) for a in spec[5]) + "]"
        return f"{head}({fields}){tail}"
    return str(spec)


def walk(spec):
    """All spec nodes, pre-order."""
    yield spec
    k = spec[0]
    if k in ("nt",):
        yield from walk(spec[2])
    elif k == "ann":
        yield from walk(spec[1])
    elif k == "g":
        for a in spec[2]:
            yield from walk(a)
    elif k == "u":
        for m in spec[1]:
            yield from walk(m)
    elif k == "m":
        for f in spec[3]:
            yield from walk(f[1])
        for a in spec[5] or ():
            yield from walk(a)


def depth(spec) -> int:
    k = spec[0]
    if k == "nt":
        return depth(spec[2])
    if k == "ann":
        return depth(spec[1])
    if k == "g":
        return 1 + max([depth(a) for a in spec[2]] or [0])
    if k == "u":
        return 1 + max(depth(m) for m in spec[1])
    if k == "m":
        return 1 + max([depth(f[1]) for f in spec[3]] + [depth(a) for a in spec[5] or ()] + [0])
    return 0


def hashable_spec(spec) -> bool:  # noqa: PLR0911
    """Values of this type are certainly hashable (allowed as set element / dict key)."""
    k = spec[0]
    if k == "sc":
        return spec[1] in HASHABLE_SCALARS or spec[1] == "None"
    if k == "nt":
        return hashable_spec(spec[2])
    if k == "ann":
        return hashable_spec(spec[1])
    if k == "lit":
        return True
    if k == "g":
        return spec[1] in ("frozenset", "tuple", "tuplef") and all(hashable_spec(a) for a in spec[2])
    if k == "u":
        return all(hashable_spec(m) for m in spec[1])
    return False


def well_formed(spec) -> bool:  # noqa: C901, PLR0911, PLR0912
    """Constraints Python itself puts on the types (hashable set elements / dict keys, sane unions)."""
    k = spec[0]
    if k in ("sc", "lit", "tv", "bare"):
        return True
    if k == "nt":
        return well_formed(spec[2])
    if k == "ann":
        return well_formed(spec[1])
    if k == "g":
        if spec[1] in SETLIKE and not hashable_spec(spec[2][0]):
            return False
        if ORIGINS[spec[1]][3] == "dict" and not (hashable_spec(spec[2][0]) or spec[2][0] == ANY):
            return False
        if spec[1] == "tuplef" and not spec[2]:
            return True  # Tuple[()]
        if spec[1] == "type" and (spec[2][0][0] != "sc" or spec[2][0] == NONE):
            return False
        return all(well_formed(a) for a in spec[2])
    if k == "u":
        if len(spec[1]) < 2:
            return False
        if spec[2] == "Optional" and (len(spec[1]) != 2 or spec[1][1] != NONE or spec[1][0] == NONE):
            return False
        for m in spec[1]:
            if m in (ANY, OBJECT):
                return False
        keys = [jkey(m) for m in spec[1]]
        if len(set(keys)) != len(keys):
            return False
        return all(well_formed(m) for m in spec[1])
    if k == "m":
        names = [f[0] for f in spec[3]]
        if not names or len(set(names)) != len(names):
            return False
        seen_default = False
        for f in spec[3]:
            if f[2]:
                seen_default = True
            elif seen_default and spec[2] in ("dc", "nt", "attrs"):
                return False  # a required field after a defaulted one is not a valid class
        if spec[4] and spec[2] != "dc":
            return False
        return all(well_formed(f[1]) for f in spec[3]) and all(well_formed(a) for a in spec[5] or ())
    return False


# =================================================================================== building Python objects
class Builder:
    """spec -> hint / classes / canonical values / conformance.  Deterministic; names carry a per-case suffix."""

    def __init__(self, case_key: int):
        self.suffix = f"{case_key & 0xFFFFFFFF:08x}"
        self._scalars: dict = {}
        self._newtypes: dict = {}
        self._models: dict = {}
        self._typevars: dict = {}

    # ---- atoms
    def scalar(self, name):
        if name in STATIC_SCALARS:
            return STATIC_SCALARS[name]
        if name not in self._scalars:
            self._build_generated_scalars()
        return self._scalars[name]

    def _build_generated_scalars(self):
        sfx = self.suffix
        self._scalars["IE"] = enum.IntEnum(f"IE_{sfx}", {"A": 1, "B": 2})
        self._scalars["E"] = enum.Enum(f"E_{sfx}", {"A": "a", "B": "b"})
        pa = type(f"PA_{sfx}", (), {"__module__": "c14gen"})
        self._scalars["PA"] = pa
        self._scalars["PB"] = type(f"PB_{sfx}", (pa,), {"__module__": "c14gen"})
        self._scalars["IntList"] = types.new_class(f"IntList_{sfx}", (typing.List[int],), {},
                                                   lambda ns: ns.update({"__module__": "c14gen"}))

    def typevar(self, name):
        if name not in self._typevars:
            self._typevars[name] = typing.TypeVar(name)
        return self._typevars[name]

    def lit_value(self, v):
        if isinstance(v, list):
            return self.scalar(v[1])[v[2]]
        return v

    # ---- hints
    def hint(self, spec):  # noqa: C901, PLR0911, PLR0912
        k = spec[0]
        if k == "sc":
            return self.scalar(spec[1])
        if k == "tv":
            return self.typevar(spec[1])
        if k == "nt":
            key = jkey(spec)
            if key not in self._newtypes:
                self._newtypes[key] = typing.NewType(f"{spec[1]}_{self.suffix}", self.hint(spec[2]))
            return self._newtypes[key]
        if k == "ann":
            return typing.Annotated[self.hint(spec[1]), spec[2]]
        if k == "lit":
            return typing.Literal[tuple(self.lit_value(v) for v in spec[1])]
        if k == "g":
            alias, cls, _, _ = ORIGINS[spec[1]]
            base = alias if spec[3] == "t" else cls
            args = tuple(self.hint(a) for a in spec[2])
            if spec[1] == "tuple":
                return base[args[0], ...]
            return base[args] if len(args) != 1 else base[args[0]]
        if k == "bare":
            alias, cls, _, _ = ORIGINS[spec[1]]
            return alias if spec[2] == "t" else cls
        if k == "u":
            members = [self.hint(m) for m in spec[1]]
            if spec[2] == "Optional":
                return typing.Optional[members[0]]
            if spec[2] == "pipe":
                try:
                    return functools.reduce(operator.or_, members)
                except TypeError:
                    pass  # e.g. None | None-like operands: fall back to the typing spelling
            return typing.Union[tuple(members)]
        if k == "m":
            cls = self.model_class(spec)
            if spec[5] is None:
                return cls
            return cls[tuple(self.hint(a) for a in spec[5])]
        raise env.HarnessError(f"unknown spec {spec!r}")

    def model_class(self, spec):
        ident = jkey([spec[1], spec[2], spec[3], spec[4]])
        cls = self._models.get(ident)
        if cls is None:
            cls = self._build_model(spec, ident)
            self._models[ident] = cls
        return cls

    def _build_model(self, spec, ident):  # noqa: C901
        _, tag, kind, fields, tparams, _ = spec
        name = f"M{tag}_{runner.h64(ident) & 0xFFFFFF:06x}_{self.suffix}"
        hints = [(f[0], self.hint(f[1]), f[2]) for f in fields]
        if kind == "dc":
            bases = (typing.Generic[tuple(self.typevar(t) for t in tparams)],) if tparams else ()
            dc_fields = [(n, h, dataclasses.field(default=DEFAULT)) if dflt else (n, h) for n, h, dflt in hints]
            return dataclasses.make_dataclass(name, dc_fields, bases=bases)
        if kind == "nt":
            def fill(ns):
                ns["__module__"] = "c14gen"
                ns["__annotations__"] = {n: h for n, h, _ in hints}
                for n, _, dflt in hints:
                    if dflt:
                        ns[n] = DEFAULT
            return types.new_class(name, (typing.NamedTuple,), {}, fill)
        if kind == "td":
            return typing.TypedDict(name, {n: (typing.NotRequired[h] if dflt else h) for n, h, dflt in hints})
        if kind == "attrs":
            # attr.ib(type=None) means "no annotation" (adaptix then sees Any): spell the None type explicitly
            hints = [(n, type(None) if h is None else h, dflt) for n, h, dflt in hints]
            return attr.make_class(name, {
                n: (attr.ib(type=h, default=DEFAULT) if dflt else attr.ib(type=h)) for n, h, dflt in hints
            })
        raise env.HarnessError(f"unknown model kind {kind!r}")

    # ---- canonical values (at most 4 per type, non-empty containers first)
    def values(self, spec, tv=None) -> list:  # noqa: C901, PLR0911, PLR0912
        k = spec[0]
        if k == "sc":
            n = spec[1]
            fixed = {"int": [7, 0], "bool": [True, False], "str": ["x", ""], "float": [1.5], "bytes": [b"b"],
                     "None": [None], "Any": [1, "s", None, [2]], "object": [3, "o"],
                     "datetime": [dt.datetime(2020, 1, 2, 3, 4, 5)], "date": [dt.date(2020, 1, 2)]}  # noqa: DTZ001
            if n in fixed:
                return list(fixed[n])
            if n in ("IE", "E"):
                return [self.scalar(n)["A"]]
            if n == "IntList":
                return [self.scalar(n)([1, 2])]
            return [self.scalar(n)()]
        if k == "tv":
            return self.values(tv[spec[1]], None)
        if k == "nt":
            return self.values(spec[2], tv)
        if k == "ann":
            return self.values(spec[1], tv)
        if k == "lit":
            return [self.lit_value(v) for v in spec[1]][:4]
        if k == "bare":
            return self.values(["g", spec[1], [ANY] * ORIGINS[spec[1]][2], "t"], tv)
        if k == "g":
            origin = spec[1]
            fam = ORIGINS[origin][3]
            if fam == "type":
                a = spec[2][0]
                if a == ANY:
                    return [int, str]
                cls = self.scalar(a[1])
                subs = [self.scalar(n) for n, sup in SCALAR_SUPERS.items() if a[1] in sup]
                return [cls, *subs][:2]
            if fam == "tuplef":
                cols = [self.values(a, tv) for a in spec[2]]
                return [tuple(c[0] for c in cols), tuple(c[-1] for c in cols)]
            if fam == "dict":
                ks = [x for x in self.values(spec[2][0], tv) if _is_hashable(x)] or ["k"]
                vs = self.values(spec[2][1], tv)
                full = {kk: vs[i % len(vs)] for i, kk in enumerate(ks)}
                factory = {"dict": dict, "Mapping": dict, "MutableMapping": dict,
                           "ordereddict": collections.OrderedDict,
                           "defaultdict": lambda x: collections.defaultdict(lambda: None, x)}[origin]
                out = [factory(full), factory({})]
                # an abstract source type admits mappings that are not dicts: a converter into Dict[...] must rebuild them
                if origin == "Mapping":
                    out.insert(1, types.MappingProxyType(dict(full)))
                elif origin == "MutableMapping":
                    out.insert(1, collections.ChainMap(dict(full)))
                return out
            elems = self.values(spec[2][0], tv)
            factory = {"list": list, "set": set, "frozenset": frozenset, "deque": collections.deque, "tuple": tuple,
                       "Sequence": list, "MutableSequence": list, "Iterable": list, "Collection": list,
                       "Reversible": list, "AbstractSet": frozenset, "MutableSet": set}[origin]
            if origin in SETLIKE:
                elems = [e for e in elems if _is_hashable(e)]
            out = [factory(elems), factory([])]
            # same for abstract iterables: a tuple is a Sequence / Collection / Iterable / Reversible, a deque a MutableSequence
            if origin in ("Sequence", "Collection", "Iterable", "Reversible"):
                out.insert(1, tuple(elems))
            elif origin == "MutableSequence":
                out.insert(1, collections.deque(elems))
            elif origin == "AbstractSet" and all(_is_hashable(e) for e in elems):
                out.insert(1, set(elems))
            return out
        if k == "u":
            out = []
            per = [self.values(m, tv) for m in spec[1]]
            for i in range(2):
                for vs in per:
                    if i < len(vs) and len(out) < 5:
                        out.append(vs[i])
            return out
        if k == "m":
            cls = self.model_class(spec)
            tparams = spec[4]
            sub = None
            if tparams:
                sub = dict(zip(tparams, spec[5] if spec[5] is not None else [ANY] * len(tparams)))
                sub = {n: _subst(a, tv) for n, a in sub.items()}
            cols = [(f[0], self.values(f[1], sub if tparams else tv)) for f in spec[3]]
            # instance i takes the i-th canonical value of every field, so each field value is used at least once
            count = min(5, max(len(vs) for _, vs in cols))
            return [cls(**{n: vs[i % len(vs)] for n, vs in cols}) for i in range(count)]
        raise env.HarnessError(f"unknown spec {spec!r}")

    # ---- structural conformance of a runtime value to a type
    def conforms(self, v, spec, tv=None) -> bool:  # noqa: C901, PLR0911, PLR0912
        k = spec[0]
        if k == "sc":
            n = spec[1]
            if n in ("Any", "object"):
                return True
            if n == "None":
                return v is None
            if n == "float":
                return isinstance(v, (float, int))  # PEP 484 numeric promotion: lenient on purpose
            return isinstance(v, self.scalar(n))
        if k == "tv":
            return self.conforms(v, tv[spec[1]], None)
        if k == "nt":
            return self.conforms(v, spec[2], tv)
        if k == "ann":
            return self.conforms(v, spec[1], tv)
        if k == "lit":
            return any(type(v) is type(x) and v == x for x in (self.lit_value(y) for y in spec[1]))
        if k == "bare":
            return isinstance(v, ORIGINS[spec[1]][1])
        if k == "g":
            origin = spec[1]
            cls, fam = ORIGINS[origin][1], ORIGINS[origin][3]
            if fam == "type":
                if not isinstance(v, type):
                    return False
                a = spec[2][0]
                return a in (ANY, OBJECT) or issubclass(v, self.scalar(a[1]))
            if not isinstance(v, cls):
                return False
            if fam == "tuplef":
                return len(v) == len(spec[2]) and all(self.conforms(x, a, tv) for x, a in zip(v, spec[2]))
            if fam == "dict":
                return all(self.conforms(kk, spec[2][0], tv) and self.conforms(vv, spec[2][1], tv)
                           for kk, vv in v.items())
            if not isinstance(v, cabc.Collection):
                return True  # a one-shot iterable: elements are not inspected
            return all(self.conforms(x, spec[2][0], tv) for x in v)
        if k == "u":
            return any(self.conforms(v, m, tv) for m in spec[1])
        if k == "m":
            cls = self.model_class(spec)
            tparams = spec[4]
            sub = tv
            if tparams:
                sub = dict(zip(tparams, spec[5] if spec[5] is not None else [ANY] * len(tparams)))
                sub = {n: _subst(a, tv) for n, a in sub.items()}
            if spec[2] == "td":
                if not isinstance(v, dict):
                    return False
                for f in spec[3]:
                    if f[0] not in v:
                        if not f[2]:
                            return False
                    elif not self.conforms(v[f[0]], f[1], sub):
                        return False
                return set(v) <= {f[0] for f in spec[3]}
            if not isinstance(v, cls):
                return False
            for f in spec[3]:
                x = getattr(v, f[0])
                if x is DEFAULT:
                    if not f[2]:
                        return False
                elif not self.conforms(x, f[1], sub):
                    return False
            return True
        raise env.HarnessError(f"unknown spec {spec!r}")


def _subst(spec, tv):
    """Replace type variables inside a spec (used for arguments of nested generic models)."""
    if tv is None:
        return spec
    k = spec[0]
    if k == "tv":
        return tv[spec[1]]
    if k == "nt":
        return ["nt", spec[1], _subst(spec[2], tv)]
    if k == "ann":
        return ["ann", _subst(spec[1], tv), spec[2]]
    if k == "g":
        return ["g", spec[1], [_subst(a, tv) for a in spec[2]], spec[3]]
    if k == "u":
        return ["u", [_subst(m, tv) for m in spec[1]], spec[2]]
    if k == "m" and spec[5] is not None:
        return [*spec[:5], [_subst(a, tv) for a in spec[5]]]
    return spec


def _is_hashable(x) -> bool:
    try:
        hash(x)
    except TypeError:
        return False
    return True


def get_field(obj, spec, name):
    return obj[name] if spec[2] == "td" else getattr(obj, name)


def has_field(obj, spec, name):
    return name in obj if spec[2] == "td" else hasattr(obj, name)


def policy_recipe(policy):
    p = policy[0]
    if p == "forbid":
        return []
    if p == "allow":
        return [allow_unlinked_optional()]
    if p == "allow_names":
        return [allow_unlinked_optional(*policy[1])]
    if p == "forbid_names_then_allow":
        return [forbid_unlinked_optional(*policy[1]), allow_unlinked_optional()]
    if p == "allow_names_then_forbid":
        return [allow_unlinked_optional(*policy[1]), forbid_unlinked_optional()]
    raise env.HarnessError(f"unknown policy {policy!r}")


def make_stub(names, annotations):
    ns: dict = {}
    exec(f"def stub({', '.join(names)}):\n    ...\n", ns)  # noqa: S102
    fn = ns["stub"]
    fn.__annotations__ = dict(annotations)
    return fn


# =================================================================================== known (open) finding classes


def has_bare_abc(case) -> bool:
    specs = [case["src"], case["dst"], *[p[1] for p in case.get("params", [])]]
    return any(n[0] == "bare" and n[1] in ABC_ORIGINS for s in specs for n in walk(s))


def _strip_ann(spec):
    while spec[0] == "ann":
        spec = spec[1]
    return spec


def paired_positions(s, d, params=None):
    """(source spec, destination spec) pairs for which a coercer can be requested while the converter S -> D is
    built: the pair itself, same-named model fields (extra parameters first at the top level), elements of
    iterables, keys/values of dicts, the non-None members of two optional unions.  Raw specs (spellings kept)."""
    s, d = _strip_ann(s), _strip_ann(d)
    yield s, d
    if s[0] == "m" and d[0] == "m":
        def fields(node):
            tv = dict(zip(node[4], node[5] if node[5] is not None else [ANY] * len(node[4])))
            return {f[0]: _subst(f[1], tv) if node[4] else f[1] for f in node[3]}
        sf, df = fields(s), fields(d)
        for name, dtype in df.items():
            if params and name in params:
                yield from paired_positions(params[name], dtype)
            elif name in sf:
                yield from paired_positions(sf[name], dtype)
    elif s[0] in ("g", "bare") and d[0] in ("g", "bare"):
        sa = s[2] if s[0] == "g" else [ANY] * (ORIGINS[s[1]][2] or 0)
        da = d[2] if d[0] == "g" else [ANY] * (ORIGINS[d[1]][2] or 0)
        fam_s, fam_d = ORIGINS[s[1]][3], ORIGINS[d[1]][3]
        if fam_s == fam_d and fam_s in ("iter", "dict"):
            for x, y in zip(sa, da):
                yield from paired_positions(x, y)
    elif s[0] == "u" and d[0] == "u" and NONE in s[1] and NONE in d[1]:
        for x in s[1]:
            for y in d[1]:
                if x != NONE and y != NONE:
                    yield from paired_positions(x, y)


def nameless_hint_vs_model(case) -> bool:
    """Trigger of the open finding C14-model-hint-without-name, decided on the specs: somewhere a model is paired
    with a hint object that has no ``__name__`` -- a PEP 604 union (``X | Y``) or a top-level ``None``."""
    params = {n: t for n, t in case.get("params", [])}
    first = True
    for s, d in paired_positions(case["src"], case["dst"], params):
        for a, b in ((s, d), (d, s)):
            if a[0] == "m" and b[0] != "m":
                if (b[0] == "u" and b[2] == "pipe") or (first and b == NONE):
                    return True
        first = False
    return False


def norm_site(site: str) -> str:
    """Generated closures carry class names: ``<generated>:coerce_A_to_B`` -> ``<generated>:coerce``."""
    if site.startswith("<generated>:"):
        return "<generated>:" + site[len("<generated>:"):].split("_")[0]
    return site


# =================================================================================== the oracle
def check_case(ctx: runner.Ctx, case):  # noqa: C901, PLR0912, PLR0915
    src, dst = case["src"], case["dst"]
    params = case.get("params", [])
    policy = case.get("policy", ["forbid"])
    for s in (src, dst, *[p[1] for p in params]):
        if not well_formed(s):
            raise env.HarnessError(f"ill-formed spec in case: {pretty(s)}")
    if params and not (src[0] == "m" and dst[0] == "m"):
        raise env.HarnessError("extra parameters are only generated for model -> model converters")

    # ---- reference verdict (pure data, no adaptix)
    uni = Universe(policy)
    cs, cd = uni.canon(src), uni.canon(dst)
    cparams = {n: uni.canon(t) for n, t in params}
    if params:
        if cs == cd:
            verdict = YES
        else:
            verdict = uni.model_rel(cs, cd, cparams)
    else:
        verdict = uni.rel(cs, cd)
    blames = []
    if verdict == NO:
        blames = uni.blames(cs, cd, cparams)
        if not blames:
            raise env.HarnessError(f"verdict 'no' without a blamed sub-pair: {pretty(src)} -> {pretty(dst)}")
    blame_classes = sorted({b[0] for b in blames})
    bare_abc = has_bare_abc(case)
    several = "several_member_optional" if uni.has_several_member_optional(cs, cd, *cparams.values()) else "-"

    # ---- the pairs the case is "about" (field types of the outer models, or the top-level pair)
    core = []
    unlinked_top = []
    if src[0] == "m" and dst[0] == "m" and cs != cd:
        sfields = {n: t for n, t, _ in uni.model_fields(cs)}
        for name, dtype, has_default in uni.model_fields(cd):
            if name in cparams:
                core.append((cparams[name], dtype))
            elif name in sfields:
                core.append((sfields[name], dtype))
            else:
                unlinked_top.append((name, has_default))
    else:
        core.append((cs, cd))
    nontrivial = bool(unlinked_top) or any(a != b and (a[0] in ("g", "u", "m") or b[0] in ("g", "u", "m"))
                                           for a, b in core)

    # ---- labels
    via = "param" if params else ("field" if src[0] == "m" and dst[0] == "m" else "top")
    inner_nodes = []
    for top in (src, dst):
        nodes = list(walk(top))
        inner_nodes.extend(nodes if via == "top" else nodes[1:])  # the outer Src/Dst wrappers are not features
    for _, t in params:
        inner_nodes.extend(walk(t))
    feats = set()
    for n in inner_nodes:
        k = n[0]
        if k == "u":
            feats.add("optional" if NONE in n[1] else "union")
            if NONE in n[1] and len(n[1]) > 2:
                feats.add("optional_several_members")
        elif k == "g":
            feats.add({"iter": "iterable", "dict": "dict", "tuplef": "const_tuple", "type": "type"}[ORIGINS[n[1]][3]])
            if n[1] in ABC_ORIGINS:
                feats.add("abc_collection")
        elif k == "bare":
            feats.add("bare_generic")
        elif k == "m":
            feats.add("generic_model" if n[4] else "nested_model")
            if n[2] != "dc":
                feats.add(f"model_kind_{n[2]}")
        elif k in ("lit", "nt", "ann"):
            feats.add({"lit": "literal", "nt": "newtype", "ann": "annotated"}[k])
    if bare_abc:
        feats.add("bare_abc")
    dmax = max(depth(src), depth(dst))
    labels = [f"via:{via}", f"policy:{policy[0]}", f"relation:{VERDICT[verdict]}",
              *[f"feat:{f}" for f in sorted(feats)]]
    if dmax >= 3:
        labels.append("depth>=3")
    if dmax >= 4:
        labels.append("depth>=4")
    if unlinked_top:
        labels.append("unlinked_required" if any(not d for _, d in unlinked_top) else "unlinked_optional")
    if verdict == NO:
        labels.extend(f"blame:{c}" for c in blame_classes)

    sample = {"src": pretty(src), "dst": pretty(dst), "params": [[n, pretty(t)] for n, t in params],
              "policy": policy, "relation": VERDICT[verdict]}

    # ---- (a) creation: success or ProviderNotFoundError, nothing else
    key = runner.h64(jkey(case))
    bld = Builder(key)
    src_hint, dst_hint = bld.hint(src), bld.hint(dst)
    retort = ConversionRetort(recipe=policy_recipe(policy))
    converter = None
    outcome = "accepted"
    try:
        if params:
            names = ["src", *[n for n, _ in params]]
            annotations = {"src": src_hint, **{n: bld.hint(t) for n, t in params}, "return": dst_hint}
            converter = retort.impl_converter(make_stub(names, annotations))
        else:
            converter = retort.get_converter(src_hint, dst_hint)
    except ProviderNotFoundError:
        outcome = "refused"
    except Exception as e:  # noqa: BLE001 -- (a): any other exception type is the violation being looked for
        outcome = "crashed"
        ctx.violation("creation_crashed",
                      (type(e).__name__, norm_site(exc_site(e)), "bare_abc_present" if bare_abc else "no_bare_abc"),
                      case, f"{pretty(src)} -> {pretty(dst)}: {describe(e)}")
    sample["outcome"] = outcome
    ctx.case(jkey(case), nontrivial, sample=sample, labels=[*labels, f"outcome:{outcome}"])
    if converter is None:
        if outcome == "refused" and verdict == YES:
            # completeness is not part of C14 (soundness is one-directional): counted, not asserted
            ctx.count("refused_although_documented_coercible")
            for a, b in core:
                if a != b and uni.rel(a, b) == YES:
                    ctx.count(f"refused_documented:{kind_label(a)}->{kind_label(b)}")
        return f"{outcome}/{VERDICT[verdict]}"

    # ---- (b)/(d) accepted => the documented relation must not say "no"
    if verdict == UNSPEC:
        ctx.count("unspecified_accepted_sound_by_subtyping_but_not_documented")
    if verdict == NO:
        for cls, kp, text in blames:
            ctx.violation("unsound_acceptance", (cls, kp, "converter_created"), case,
                          f"{pretty(src)} -> {pretty(dst)} params={[[n, pretty(t)] for n, t in params]} "
                          f"policy={policy}: accepted although not coercible: {text}")

    # ---- (c) relation-independent: converted canonical values must conform to the destination type
    src_values = bld.values(src)
    param_values = [bld.values(t) for _, t in params]
    for i, sv in enumerate(src_values):
        args = [sv, *[pv[i % len(pv)] for pv in param_values]]
        ctx.count("values_converted")
        try:
            res = converter(*args)
        except Exception as e:  # noqa: BLE001 -- a converter built for S must not fail on a value of S
            stage = "convert_raised"
            if verdict == NO:
                for cls, kp, _ in blames:
                    ctx.violation("unsound_acceptance", (cls, kp, stage), case,
                                  f"{pretty(src)} -> {pretty(dst)}: converter({args!r}) raised {describe(e)}")
            else:
                ctx.violation("convert_raised", (type(e).__name__, norm_site(exc_site(e)), VERDICT[verdict], several),
                              case,
                              f"{pretty(src)} -> {pretty(dst)}: converter({args!r}) raised {describe(e)}")
            continue
        if not bld.conforms(res, dst):
            if verdict == NO:
                for cls, kp, _ in blames:
                    ctx.violation("unsound_acceptance", (cls, kp, "wrong_type_placed"), case,
                                  f"{pretty(src)} -> {pretty(dst)}: converter({args!r}) returned {res!r}, "
                                  f"which is not a {pretty(dst)}")
            else:
                ctx.violation("wrong_type_placed", (VERDICT[verdict], several, f"{kind_label(cs)}->{kind_label(cd)}"),
                              case,
                              f"{pretty(src)} -> {pretty(dst)}: converter({args!r}) returned {res!r}, "
                              f"which is not a {pretty(dst)}")
            continue
        # defaults appear exactly in the unlinked optional top-level fields (docs: "Using default value for fields")
        if src[0] == "m" and dst[0] == "m" and cs != cd:
            unl = {n for n, _ in unlinked_top}
            for f in dst[3]:
                present = has_field(res, dst, f[0])
                val = get_field(res, dst, f[0]) if present else DEFAULT
                if (val is DEFAULT) != (f[0] in unl):
                    ctx.violation("default_misplaced", ("unlinked" if f[0] in unl else "linked",), case,
                                  f"{pretty(src)} -> {pretty(dst)}: field {f[0]!r} of the result is {val!r}")
    return f"{outcome}/{VERDICT[verdict]}"


# =================================================================================== the exhaustive pool
def _pool():
    list_int = g("list", INT)
    list_str = g("list", STR)
    ma = model("a", [("a", INT)])
    mb = model("b", [("a", INT)])
    mc = model("c", [("a", STR)])
    md = model("d", [("a", INT), ("b", STR)])
    me = model("e", [("a", INT), ("b", STR, True)])
    mbool = model("f", [("a", BOOL)], kind="nt")
    gen = ["G", [("x", ["tv", "T"])], "dc", ["T"]]

    def gm(args):
        return model(gen[0], gen[1], gen[2], gen[3], args)
    pool = [
        # scalars
        INT, BOOL, STR, sc("float"), sc("bytes"), NONE, ANY, OBJECT, sc("IE"), sc("E"), sc("datetime"), sc("date"),
        sc("PA"), sc("PB"), sc("IntList"), nt("UserId", INT),
        # tags
        ann(INT), ann(list_int),
        # literals
        lit(1), lit(1, 2), lit("a"), opt(lit(2)),
        # concrete iterables
        list_int, g("list", INT, sp="b"), list_str, g("list", BOOL), bare("list", "b"), g("list", ANY),
        g("tuple", INT), g("tuplef", INT, STR), g("tuplef"), g("set", INT), g("frozenset", INT), g("deque", INT),
        g("list", list_int), g("list", opt(INT)), g("list", un(INT, STR)),
        # abstract collections
        g("Sequence", INT), g("Sequence", STR), bare("Sequence"), g("Iterable", INT), g("AbstractSet", INT),
        # dicts
        g("dict", STR, INT), g("dict", STR, STR), g("dict", STR, BOOL), bare("dict", "b"), g("Mapping", STR, INT),
        bare("Mapping"), g("defaultdict", STR, INT), g("dict", INT, INT),
        # optionals and unions
        opt(INT), opt(STR), opt(BOOL), opt(list_int), opt(list_str), un(INT, STR), un(INT, STR, NONE),
        un(INT, sc("bytes"), NONE), un(list_int, STR), un(list_int, list_str), un(list_int, INT, NONE),
        un(INT, NONE, style="pipe"), opt(g("dict", STR, STR)),
        # models
        ma, mb, mc, md, me, mbool, gm([INT]), gm([STR]), gm(None), opt(gm([STR])), opt(ma), g("list", ma),
        g("list", mc),
        # type[]
        g("type", INT), opt(g("type", STR)),
    ]
    keys = [jkey(p) for p in pool]
    if len(set(keys)) != len(keys):
        raise env.HarnessError("duplicate type in the pool")
    return pool


POOL = _pool()

# configurations of one ordered pair (S, D): how the S-typed value reaches the D-typed destination
PAIR_CONFIGS = [
    ("field", False, ["forbid"]),
    ("field", True, ["forbid"]),
    ("field", False, ["allow"]),
    ("field", True, ["allow"]),
    ("param", False, ["forbid"]),
    ("top", False, ["forbid"]),
]


def pair_case(s, d, config):
    via, optional, policy = config
    if via == "top":
        return {"src": s, "dst": d, "params": [], "policy": policy}
    dst = model("Dst", [("k", INT), ("f", d, optional)])
    if via == "param":
        return {"src": model("Src", [("k", INT)]), "dst": dst, "params": [["f", s]], "policy": policy}
    return {"src": model("Src", [("k", INT), ("f", s)]), "dst": dst, "params": [], "policy": policy}


POLICIES_FOR_UNLINKED = [
    ["forbid"], ["allow"], ["allow_names", ["zzz"]], ["allow_names", ["f"]],
    ["forbid_names_then_allow", ["f"]], ["forbid_names_then_allow", ["zzz"]],
    ["allow_names_then_forbid", ["f"]], ["allow_names_then_forbid", ["zzz"]],
]


POLICIES_FOR_UNLINKED_QUICK = [POLICIES_FOR_UNLINKED[i] for i in (0, 1, 2, 4)]


def unlinked_cases(policies):
    """(d): the destination field ``f`` has no same-named source (the source field is called ``other``),
    at top level and one model deeper, for every pool type x {required, optional} x policy shapes."""
    for d in POOL:
        for optional in (False, True):
            for policy in policies:
                src = model("Src", [("k", INT), ("other", d)])
                dst = model("Dst", [("k", INT), ("f", d, optional)])
                yield {"src": src, "dst": dst, "params": [], "policy": policy}
                yield {"src": model("SrcO", [("k", INT), ("n", src)]),
                       "dst": model("DstO", [("k", INT), ("n", dst)]), "params": [], "policy": policy}
                # a parameter is only a candidate for top-level fields (docs: "parameters are matched only for
                # top-level destination model fields"): one level deeper the field stays unlinked
                yield {"src": model("SrcO", [("k", INT), ("n", model("Src", [("k", INT)]))]),
                       "dst": model("DstO", [("k", INT), ("n", dst)]), "params": [["f", d]], "policy": policy}


# =================================================================================== sampled nested cases
FIELD_NAMES = ["f", "h", "k", "p", "q"]
LEAF_SCALARS = ["int", "int", "str", "bool", "float", "bytes", "None", "Any", "object", "IE", "E", "datetime",
                "date", "PA", "PB", "IntList"]
ITER_ORIGINS = ["list", "list", "tuple", "set", "frozenset", "deque", "Sequence", "MutableSequence", "Iterable",
                "Collection", "Reversible", "AbstractSet", "MutableSet"]
DICT_ORIGINS = ["dict", "dict", "Mapping", "MutableMapping", "defaultdict", "ordereddict"]
MODEL_KINDS = ["dc", "dc", "nt", "td", "attrs"]
OTHER_SCALAR = {"int": "str", "str": "int", "bool": "str", "float": "int", "bytes": "str", "None": "int",
                "Any": "int", "object": "int", "IE": "E", "E": "IE", "datetime": "str", "date": "datetime",
                "PA": "PB", "PB": "int", "IntList": "int"}


def st_leaf(hashable=False):
    if hashable:
        return st.one_of(st.sampled_from(HASHABLE_SCALARS).map(sc),
                         st.sampled_from([lit(1), lit("a", "b"), nt("Key", STR)]))
    return st.one_of(
        st.sampled_from(LEAF_SCALARS).map(sc),
        st.sampled_from(LEAF_SCALARS).map(sc),
        st.sampled_from([lit(1), lit(1, 2), lit("a"), lit(True), lit(["e", "IE", "A"]), nt("UserId", INT),
                         nt("Name", STR), g("type", INT), g("type", sc("PA"))]),
    )


@st.composite
def st_spec(draw, depth_left, hashable=False, avoid_known=False):  # noqa: C901, PLR0911, PLR0912
    if depth_left <= 0:
        return draw(st_leaf(hashable))
    choice = draw(st.sampled_from(
        ["leaf", "iter", "optional", "union", "tuplef"] if hashable else
        ["leaf", "iter", "iter", "dict", "optional", "optional", "union", "union", "tuplef", "model", "model",
         "gmodel", "ann", "bare"]))
    sub = depth_left - 1
    sp = draw(st.sampled_from(["t", "t", "b"]))
    if choice == "leaf":
        return draw(st_leaf(hashable))
    if choice == "iter":
        origin = draw(st.sampled_from(["frozenset", "tuple"] if hashable else ITER_ORIGINS))
        elem = draw(st_spec(sub, hashable=hashable or origin in SETLIKE, avoid_known=avoid_known))
        return g(origin, elem, sp=sp)
    if choice == "dict":
        return g(draw(st.sampled_from(DICT_ORIGINS)), draw(st_leaf(True)),
                 draw(st_spec(sub, avoid_known=avoid_known)), sp=sp)
    if choice == "tuplef":
        n = draw(st.integers(0, 3))
        return g("tuplef", *[draw(st_spec(sub, hashable=hashable, avoid_known=avoid_known)) for _ in range(n)], sp=sp)
    if choice == "bare":
        pool = ["list", "dict", "tuple", "set", "frozenset", "deque", "type",
                "Sequence", "Mapping", "Iterable", "MutableSequence", "AbstractSet", "Collection"]
        return bare(draw(st.sampled_from(pool)), sp)
    if choice == "ann":
        return ann(draw(st_spec(sub, avoid_known=avoid_known)), draw(st.sampled_from(["meta", "m2"])))
    if choice in ("optional", "union"):
        n = 1 if choice == "optional" else draw(st.integers(2, 3))
        members = []
        for _ in range(n):
            m = draw(st_spec(sub, hashable=hashable, avoid_known=avoid_known))
            if m in (ANY, OBJECT, NONE) or m[0] == "ann":
                m = INT
            members.append(m)
        uniq = []
        for m in members:
            if all(jkey(m) != jkey(x) for x in uniq):
                uniq.append(m)
        with_none = choice == "optional" or (draw(st.integers(0, 3)) == 0 and not (avoid_known and len(uniq) > 1))
        if with_none:
            if len(uniq) == 1:
                style = draw(st.sampled_from(["Optional", "Optional", "Union", "pipe"]))
                return ["u", [uniq[0], NONE], style]
            uniq.append(NONE)
        if len(uniq) == 1:
            return uniq[0]
        return ["u", uniq, draw(st.sampled_from(["Union", "Union", "pipe"]))]
    if choice == "gmodel":
        arg = draw(st_spec(sub, avoid_known=avoid_known))
        shape = draw(st.sampled_from(["x", "list_x", "opt_x"]))
        ftype = {"x": ["tv", "T"], "list_x": g("list", ["tv", "T"]), "opt_x": opt(["tv", "T"])}[shape]
        if shape == "opt_x" and (arg in (ANY, OBJECT, NONE) or arg[0] in ("ann", "u")):
            arg = INT
        args = None if draw(st.integers(0, 5)) == 0 else [arg]
        return model(f"G{shape}", [("x", ftype), ("n", INT)], "dc", ["T"], args)
    # model
    n = draw(st.integers(1, 3))
    names = draw(st.lists(st.sampled_from(FIELD_NAMES), min_size=n, max_size=n, unique=True))
    fields = [(nm, draw(st_spec(sub, avoid_known=avoid_known))) for nm in names]
    return model(draw(st.sampled_from(["x", "y"])), fields, draw(st.sampled_from(MODEL_KINDS)))


def _children(spec):
    """[(path step, child)] of directly nested type positions."""
    k = spec[0]
    if k == "nt":
        return []
    if k == "ann":
        return [((1,), spec[1])]
    if k == "g":
        return [((2, i), a) for i, a in enumerate(spec[2])]
    if k == "u":
        return [((1, i), m) for i, m in enumerate(spec[1]) if m != NONE]
    if k == "m":
        out = [((3, i, 1), f[1]) for i, f in enumerate(spec[3]) if not _has_tv(f[1])]
        out += [((5, i), a) for i, a in enumerate(spec[5] or ())]
        return out
    return []


def _has_tv(spec):
    return any(n[0] == "tv" for n in walk(spec))


def _replace(spec, step, new):
    out = json.loads(json.dumps(spec))
    cur = out
    for s in step[:-1]:
        cur = cur[s]
    cur[step[-1]] = new
    return out


def _edit_here(draw, spec):  # noqa: C901, PLR0911, PLR0912, PLR0915
    """One local rewrite of a node: towards a supertype, an unrelated type, a sibling container ..."""
    k = spec[0]
    generic = ["wrap_optional", "wrap_union", "to_any", "wrap_ann", "wrap_list", "to_scalar"]
    if k == "sc":
        ops = [*generic, "to_super", "to_super", "to_other", "to_other", "to_other", "to_object"]
    elif k == "nt":
        ops = [*generic, "nt_base", "nt_base"]
    elif k == "lit":
        ops = [*generic, "lit_add", "lit_drop", "lit_base"]
    elif k == "g":
        ops = [*generic, "origin", "origin", "origin", "to_bare", "spelling", "same_origin_other_arg"]
        if spec[1] == "tuplef":
            ops += ["tuple_drop", "tuple_var"]
    elif k == "bare":
        ops = [*generic, "bare_param"]
    elif k == "u":
        ops = ["u_drop", "u_drop", "u_add", "u_add", "u_add_none", "u_style", "to_any", "wrap_list"]
    elif k == "ann":
        ops = ["ann_strip", "ann_strip", "ann_meta", "wrap_optional"]
    elif k == "m":
        ops = ["m_twin", "m_twin", "m_drop_field", "m_add_required", "m_add_optional", "m_add_optional",
               "m_rename_field", "m_kind", "m_make_optional", "wrap_optional", "to_scalar"]
        if spec[4]:
            ops = ["gm_args", "gm_args", "gm_args", "gm_bare", "m_twin", "wrap_optional"]
    else:
        ops = generic
    op = draw(st.sampled_from(ops))
    unionable = spec not in (ANY, OBJECT, NONE) and spec[0] not in ("u", "ann", "tv")
    if op == "wrap_optional":
        return opt(spec) if unionable else spec
    if op == "wrap_union":
        if not unionable:
            return spec
        other = draw(st.sampled_from([STR, sc("bytes"), INT, g("list", STR), g("list", INT), lit(9)]))
        if jkey(other) == jkey(spec):
            return spec
        return un(spec, other)
    if op == "to_any":
        return ANY
    if op == "to_object":
        return OBJECT
    if op == "wrap_ann":
        return ann(spec) if spec[0] != "ann" else spec
    if op == "wrap_list":
        return g(draw(st.sampled_from(["list", "tuple", "Sequence"])), spec)
    if op == "to_scalar":
        return draw(st.sampled_from([INT, STR, NONE]))
    if op == "to_super":
        sup = SCALAR_SUPERS.get(spec[1])
        return sc(sup[0]) if sup else sc(OTHER_SCALAR[spec[1]])
    if op == "to_other":
        return sc(OTHER_SCALAR[spec[1]])
    if op == "nt_base":
        return spec[2]
    if op == "lit_add":
        extra = 99 if isinstance(spec[1][0], int) and not isinstance(spec[1][0], bool) else "zz"
        return lit(*spec[1], extra)
    if op == "lit_drop":
        return lit(*spec[1][1:]) if len(spec[1]) > 1 else lit(5)
    if op == "lit_base":
        v = spec[1][0]
        return sc("IE") if isinstance(v, list) else sc(type(v).__name__)
    if op == "origin":
        fam = ORIGINS[spec[1]][3]
        if fam == "iter":
            cands = [o for o in ITER_ORIGINS if o not in SETLIKE or hashable_spec(spec[2][0])]
            return g(draw(st.sampled_from(cands)), spec[2][0], sp=spec[3])
        if fam == "dict":
            return g(draw(st.sampled_from(DICT_ORIGINS)), *spec[2], sp=spec[3])
        if fam == "tuplef":
            return g(draw(st.sampled_from(["list", "tuple", "Sequence"])), spec[2][0] if spec[2] else INT, sp=spec[3])
        return spec
    if op == "to_bare":
        return bare("tuple" if spec[1] == "tuplef" else spec[1], spec[3])
    if op == "spelling":
        return ["g", spec[1], spec[2], "b" if spec[3] == "t" else "t"]
    if op == "same_origin_other_arg":
        if ORIGINS[spec[1]][3] in ("iter", "type") and spec[2][0][0] == "sc":
            new = sc(OTHER_SCALAR[spec[2][0][1]])
            if spec[1] in SETLIKE and not hashable_spec(new):
                return spec
            if spec[1] == "type" and new[1] in ("None", "Any"):
                return spec
            return ["g", spec[1], [new], spec[3]]
        return spec
    if op == "tuple_drop":
        return g("tuplef", *spec[2][:-1], sp=spec[3]) if spec[2] else spec
    if op == "tuple_var":
        return g("tuple", spec[2][0] if spec[2] else INT, sp=spec[3])
    if op == "bare_param":
        arity = ORIGINS[spec[1]][2]
        arg = draw(st.sampled_from([ANY, INT]))
        if spec[1] in SETLIKE or spec[1] == "type":
            arg = INT
        return ["g", spec[1], [STR, arg] if arity == 2 else [arg], spec[2]]
    if op == "u_drop":
        rest = list(spec[1])
        rest.pop(draw(st.integers(0, len(rest) - 1)))
        if len(rest) == 1:
            return rest[0]
        style = spec[2] if spec[2] != "Optional" else "Union"
        return ["u", rest, style]
    if op in ("u_add", "u_add_none"):
        new = NONE if op == "u_add_none" else draw(st.sampled_from(
            [STR, INT, sc("bytes"), sc("float"), g("list", STR), g("list", INT), g("dict", STR, INT), lit(7)]))
        if any(jkey(new) == jkey(m) for m in spec[1]):
            return spec
        members = [*spec[1], new]
        if NONE in members:  # keep None last (Optional spelling needs it there)
            members = [m for m in members if m != NONE] + [NONE]
        return ["u", members, "Union" if spec[2] == "Optional" else spec[2]]
    if op == "u_style":
        if len(spec[1]) == 2 and spec[1][1] == NONE:
            return ["u", spec[1], draw(st.sampled_from(["Optional", "Union", "pipe"]))]
        return ["u", spec[1], "pipe" if spec[2] == "Union" else "Union"]
    if op == "ann_strip":
        return spec[1]
    if op == "ann_meta":
        return ann(spec[1], "other-meta")
    if op == "m_twin":
        return ["m", f"{spec[1]}t", *spec[2:]]
    if op == "m_kind":
        if spec[4]:
            return spec
        return ["m", spec[1], draw(st.sampled_from(["dc", "nt", "td", "attrs"])), *spec[3:]]
    if op == "m_drop_field":
        if len(spec[3]) < 2:
            return spec
        fields = list(spec[3])
        fields.pop(draw(st.integers(0, len(fields) - 1)))
        return ["m", spec[1], spec[2], fields, spec[4], spec[5]]
    if op in ("m_add_required", "m_add_optional"):
        name = draw(st.sampled_from(["extra", "zzz", "f", "h"]))
        if any(f[0] == name for f in spec[3]):
            return spec
        new = [name, draw(st.sampled_from([INT, opt(STR), g("list", INT)])), op == "m_add_optional"]
        fields = [*spec[3], new] if new[2] else [new, *spec[3]]
        fields = [f for f in fields if not f[2]] + [f for f in fields if f[2]]
        return ["m", spec[1], spec[2], fields, spec[4], spec[5]]
    if op == "m_rename_field":
        i = draw(st.integers(0, len(spec[3]) - 1))
        if any(f[0] == "renamed" for f in spec[3]):
            return spec
        fields = [list(f) for f in spec[3]]
        fields[i][0] = "renamed"
        return ["m", spec[1], spec[2], fields, spec[4], spec[5]]
    if op == "m_make_optional":
        fields = [list(f) for f in spec[3]]
        fields[-1][2] = True
        return ["m", spec[1], spec[2], fields, spec[4], spec[5]]
    if op == "gm_args":
        cur = spec[5][0] if spec[5] else ANY
        new = draw(st.sampled_from([INT, STR, BOOL, ANY, g("list", INT)]))
        if jkey(new) == jkey(cur):
            new = sc("float")
        if any(n[0] == "u" and n[1][0] == ["tv", "T"] for f in spec[3] for n in walk(f[1])) and new == ANY:
            new = INT
        return [*spec[:5], [new]]
    if op == "gm_bare":
        return [*spec[:5], None]
    return spec


def _edit(draw, spec, fuel=6):
    kids = _children(spec)
    if kids and fuel > 0 and draw(st.integers(0, 3)) > 0:
        step, child = kids[draw(st.integers(0, len(kids) - 1))]
        return _replace(spec, step, _edit(draw, child, fuel - 1))
    return _edit_here(draw, spec)


def st_policy():
    names = st.lists(st.sampled_from(["f", "h", "extra", "zzz", "k"]), min_size=1, max_size=2, unique=True)
    return st.one_of(
        st.just(["forbid"]), st.just(["forbid"]), st.just(["allow"]), st.just(["allow"]),
        names.map(lambda n: ["allow_names", n]),
        names.map(lambda n: ["forbid_names_then_allow", n]),
        names.map(lambda n: ["allow_names_then_forbid", n]),
    )


@st.composite
def st_case(draw, avoid_known=None):
    """A source type and a destination derived from it by 0-3 local rewrites (so the pair is *near* coercible)."""
    if avoid_known is None:
        avoid_known = draw(st.integers(0, 9)) != 0
    via = draw(st.sampled_from(["field", "field", "field", "field", "param", "top"]))
    max_depth = draw(st.sampled_from([2, 2, 3, 3, 4]))
    if via == "top":
        src = draw(st_spec(max_depth - 1, avoid_known=avoid_known))
    else:
        n = draw(st.integers(1, 3))
        names = draw(st.lists(st.sampled_from(FIELD_NAMES), min_size=n, max_size=n, unique=True))
        src = model("Src", [(nm, draw(st_spec(max_depth - 1, avoid_known=avoid_known))) for nm in names])
    dst = src
    for _ in range(draw(st.sampled_from([0, 1, 1, 2, 2, 2, 3]))):
        cand = _edit(draw, dst)
        if well_formed(cand):
            dst = cand
    if via != "top":
        if dst[0] != "m" or dst[4]:
            dst = src
        dst = ["m", "Dst", *dst[2:]]  # the destination is always another class than the source
    params = []
    if via == "param":
        # move one source field into an extra parameter (optionally shadowing a differently typed source field)
        i = draw(st.integers(0, len(src[3]) - 1))
        moved = src[3][i]
        params = [[moved[0], moved[1]]]
        rest = [f for j, f in enumerate(src[3]) if j != i]
        shadow = draw(st.integers(0, 3)) == 0
        if shadow:
            rest.append([moved[0], sc(OTHER_SCALAR.get(moved[1][1], "str")) if moved[1][0] == "sc" else STR, False])
        if not rest:
            rest = [["keep", INT, False]]
        src = ["m", "Src", src[2], rest, [], None]
        if draw(st.integers(0, 4)) == 0:
            params.insert(0, ["unused", INT])
    return {"src": src, "dst": dst, "params": params, "policy": draw(st_policy())}


# =================================================================================== exploration
def known_classes_of(case) -> list:
    """Open-finding classes a case belongs to -- decided on the specs alone (never on what adaptix did)."""
    out = []
    if nameless_hint_vs_model(case):
        out.append("nameless_hint_vs_model")
    uni = Universe(case.get("policy", ["forbid"]))
    cs, cd = uni.canon(case["src"]), uni.canon(case["dst"])
    cparams = {n: uni.canon(t) for n, t in case.get("params", [])}
    if uni.several_member_optionals_meet(cs, cd, cparams):
        out.append("several_member_optional")
    verdict = uni.model_rel(cs, cd, cparams) if cparams and cs != cd else uni.rel(cs, cd)
    if verdict == NO and any(b[0] == "union_member_matched_by_origin_only" for b in uni.blames(cs, cd, cparams)):
        out.append("union_member_matched_by_origin_only")
    return out


def sampled(ctx: runner.Ctx, case):
    known = known_classes_of(case)
    if known and runner.h64(jkey(case)) % 8 != 0:
        # open findings (known_findings.d/C14.json): 7 of 8 such cases are dropped, the rest keep probing
        ctx.count("excluded_known")
        for kc in known:
            ctx.count(f"excluded_known:{kc}")
        return
    if known:
        ctx.count("known_class_probed")
    ctx.label(f"sampled:{check_case(ctx, case)}")


def explore(ctx: runner.Ctx):
    # 1. all ordered pairs of the pool x configurations, sharded by index
    # thorough: all 6 configurations per pair.  quick: the plain one (required field, default policy) for every
    # pair plus ONE of the other five in rotation (they only change how the same two types meet).
    thorough = ctx.tier == "thorough"
    n = 0
    for (si, s), (di, d) in itertools.product(enumerate(POOL), enumerate(POOL)):
        configs = PAIR_CONFIGS if thorough else [PAIR_CONFIGS[0], PAIR_CONFIGS[1 + (si + di) % (len(PAIR_CONFIGS) - 1)]]
        for config in configs:
            if n % ctx.nshards == ctx.shard:
                ctx.label(f"pairs:{check_case(ctx, pair_case(s, d, config))}")
            n += 1
    # 2. unlinked destination fields
    for case in unlinked_cases(POLICIES_FOR_UNLINKED if thorough else POLICIES_FOR_UNLINKED_QUICK):
        if n % ctx.nshards == ctx.shard:
            ctx.label(f"unlinked:{check_case(ctx, case)}")
        n += 1
    npol = len(POLICIES_FOR_UNLINKED if thorough else POLICIES_FOR_UNLINKED_QUICK)
    ctx.mark_exhaustive(
        f"all {len(POOL)}^2 = {len(POOL) ** 2} ordered pairs of the type pool x "
        + ("6 configurations (field required/optional x forbid/allow policy, extra-parameter source, top-level "
           "converter)" if thorough else
           "2 configurations (required field + default policy for every pair, one of the other five in rotation)")
        + f"; unlinked destination field: {len(POOL)} types x required/optional x {npol} policy "
        "shapes x (top level, nested, nested with a same-named parameter)")
    # 3. nested combinations: source type and a destination derived by local rewrites
    budget = ctx.budget(4000, 240000)
    ctx.given(st_case(), lambda case: sampled(ctx, case), budget)
    # a soundness oracle is vacuous when nothing is accepted (or nothing refused): that is a broken generator or
    # environment, not a verdict about the property
    if not ctx.truncated:
        for needed in ("outcome:accepted", "outcome:refused", "relation:yes", "relation:no", "sampled:accepted/yes",
                       "sampled:refused/no", "unlinked_required", "unlinked_optional"):
            if needed.startswith("sampled:") and budget < 200:  # noqa: PLR2004 -- scaled-down debugging runs
                continue
            if not ctx.classes.get(needed):
                raise env.HarnessError(f"generator starved: no case of class {needed!r} in shard {ctx.shard}")


RULE = ("exhaustive part: every ordered pair (S, D) of a fixed pool of field types as the type of one field of "
        "generated Src/Dst models x {required, optional destination} x {forbid, allow policy}, plus S arriving "
        "through an extra converter parameter and as a top-level converter; unlinked-field cases for every pool "
        "type. Sampled part: Hypothesis draws a source type (depth <= 4) and derives the destination by 0-3 local "
        "rewrites. One evaluation = one converter creation + conversion of the canonical values of S. "
        "Non-trivial = some linked (source type, destination type) pair differs and one side is compound "
        "(generic / union / model), or a top-level destination field has no source. "
        "Distinct by the complete case (types, parameters, policy).")

if __name__ == "__main__":
    raise SystemExit(runner.main(
        PROP, explore=explore, check_case=check_case, strategy=st_case(), rule=RULE,
        assumptions=[
            "the relation is three-valued: pairs that are sound by plain subtyping but not literally listed in "
            "docs/conversion/tutorial.rst (bool -> Optional[int], NewType -> base, Literal -> its class, "
            "constant-length tuples, frozenset/defaultdict/OrderedDict as iterable/dict, str -> Sequence[str], "
            "a non-generic class -> bare generic ABC) are 'unspecified': counted when accepted, never asserted",
            "refusing a pair the docs call coercible is not a C14 violation (soundness is one-directional); "
            "such refusals are counted under refused_although_documented_coercible",
            "Annotated[T, ...] is treated as T; a bare generic as the generic parametrised with Any (PEP 484)",
            "set-like destinations with Any/object elements are not generated (hashability is not a static type)",
            "source models are always fully populated (no NotRequired TypedDict keys on the source side)",
        ],
    ))
