"""C03, two exhaustive side tables (called from props/c03_model_layout.py; cases carry "probe_kind"):

* ``omit_equal``: "omit_default removes exactly the fields whose value equals their default" for defaults that cannot be
  rendered as a literal in the generated dumper (members of mixed-in enums, Decimal, Fraction ...) x values that are the
  default object itself / equal to it but another object of another type / different, x model kinds x root or nested crown x
  debug modes.  The main generator of C03 only has JSON scalars as defaults, where "equal" and "identical" nearly coincide.
* ``inherit``: a name_mapping bound to an ANCESTOR of the model.  The docs do not say that it is inherited, the code merges the
  overlays of the whole MRO; asserted is only what does not depend on that reading: the fields of the ancestor are laid out
  the same way in a direct child and in a grandchild (and in a great-grandchild), for loader and dumper alike.
"""
import dataclasses
import enum
import http
import typing
from decimal import Decimal
from fractions import Fraction

import attr

from adaptix import DebugTrail, Retort, name_mapping
from vkit.errors import describe

DEBUG = [DebugTrail.DISABLE, DebugTrail.FIRST, DebugTrail.ALL]
DEBUG_NAMES = ["DISABLE", "FIRST", "ALL"]


class IE(enum.IntEnum):
    ZERO = 0
    ONE = 1


class SE(str, enum.Enum):
    FAST = "fast"


class IF(enum.IntFlag):
    A = 1
    B = 2


class PE(enum.Enum):
    X = 1


class TupleSub(tuple):
    pass


# name -> (default, [(label, value, equal?)])
DEFAULT_POOL = {
    "int_enum_one": (IE.ONE, [("itself", IE.ONE), ("plain_equal", 1), ("float_equal", 1.0), ("different", 2), ("other_member", IE.ZERO)]),
    "int_enum_zero": (IE.ZERO, [("itself", IE.ZERO), ("plain_equal", 0), ("different", 1)]),
    "str_enum": (SE.FAST, [("itself", SE.FAST), ("plain_equal", "fast"), ("different", "slow")]),
    "int_flag": (IF.A, [("itself", IF.A), ("plain_equal", 1), ("different", IF.B), ("combined", IF.A | IF.B)]),
    "http_status": (http.HTTPStatus.OK, [("itself", http.HTTPStatus.OK), ("plain_equal", 200), ("different", 404)]),
    "plain_enum": (PE.X, [("itself", PE.X), ("different", 1)]),   # a plain member equals only itself
    "decimal": (Decimal("1.0"), [("itself", None), ("other_object_equal", Decimal("1.00")), ("plain_equal", 1), ("different", Decimal(2))]),
    "fraction": (Fraction(1, 2), [("itself", None), ("float_equal", 0.5), ("different", Fraction(1, 3))]),
    "tuple_sub": (TupleSub((1, 2)), [("itself", None), ("plain_equal", (1, 2)), ("different", (1, 3))]),
    "frozenset": (frozenset({1}), [("itself", None), ("set_equal", {1}), ("different", frozenset({2}))]),
}
KINDS = ["dataclass", "attrs", "namedtuple"]
PLACES = ["root", "nested", "after_required"]


def omit_equal_cases():
    for dname, (_, values) in DEFAULT_POOL.items():
        for label, _v in values:
            for kind in KINDS:
                for place in PLACES:
                    yield {"probe_kind": "omit_equal", "default": dname, "value": label, "kind": kind, "place": place}


def _make_model(kind, name, fields):
    """fields: [(name, default | MISSING)]; every field is typed Any (dumped as is)."""
    missing = dataclasses.MISSING
    if kind == "dataclass":
        return dataclasses.make_dataclass(name, [(n, typing.Any) if d is missing else (n, typing.Any, dataclasses.field(default=d))
                                                 for n, d in fields])
    if kind == "attrs":
        return attr.make_class(name, {n: attr.ib(type=typing.Any) if d is missing else attr.ib(type=typing.Any, default=d)
                                      for n, d in fields})
    nt = typing.NamedTuple(name, [(n, typing.Any) for n, _ in fields])
    defaults = tuple(d for _, d in fields if d is not missing)
    nt.__new__.__defaults__ = defaults
    nt._field_defaults = {n: d for n, d in fields if d is not missing}
    return nt


def check_omit_equal(ctx, case):
    default, values = DEFAULT_POOL[case["default"]]
    value = dict(values)[case["value"]]
    if case["value"] == "itself":
        value = default
    fields = [("x", default)]
    if case["place"] == "after_required":
        fields = [("r", dataclasses.MISSING), ("x", default)]
    inner = _make_model(case["kind"], "OmitInner", fields)
    kwargs = {"x": value, **({"r": 7} if case["place"] == "after_required" else {})}
    obj = inner(**kwargs)
    tp = inner
    if case["place"] == "nested":
        outer = dataclasses.make_dataclass("OmitOuter", [("k", typing.Any), ("inner", inner)])
        obj, tp = outer(1, obj), outer
    equal = bool(value == default)
    for mode in range(3):
        retort = Retort(recipe=[name_mapping(omit_default=True)], debug_trail=DEBUG[mode])
        try:
            got = retort.dump(obj, tp)
        except Exception as ex:  # noqa: BLE001
            ctx.violation("omit_equal_dump_failed", (case["default"], type(ex).__name__), case,
                          f"{case}: mode={DEBUG_NAMES[mode]} dump raised {describe(ex)}")
            return
        node = got["inner"] if case["place"] == "nested" else got
        present = "x" in node
        ctx.case(["omit_equal", case, mode], case["value"] != "itself",
                 sample={"default": repr(default), "value": repr(value), "kind": case["kind"], "place": case["place"],
                         "mode": DEBUG_NAMES[mode], "omitted": not present},
                 labels=["probe:omit_equal", f"omit_equal:{case['value']}", f"mode:{DEBUG_NAMES[mode]}"])
        if present == equal:
            ctx.violation("omit_default_not_by_equality", (case["default"], case["value"], "kept" if present else "omitted"), case,
                          f"omit_default=True, {case['kind']} model, field x (place: {case['place']}) with default {default!r}, "
                          f"object holds {value!r} ({type(value).__name__}; value == default is {equal}); mode={DEBUG_NAMES[mode]} "
                          f"dumped {got!r}: the field must be {'omitted' if equal else 'kept'}")
        elif present and node["x"] is not value:
            ctx.violation("omit_equal_value_changed", (case["default"], case["value"]), case,
                          f"{case}: mode={DEBUG_NAMES[mode]} dumped {node['x']!r} for {value!r}")


# ------------------------------------------------------------------------------------------------------- inherit
@dataclasses.dataclass
class Top:
    top_a: int
    top_b: int = 0


@dataclasses.dataclass
class Mid(Top):
    mid_c: int = 0


@dataclasses.dataclass
class Leaf(Mid):
    leaf_d: int = 0


@dataclasses.dataclass
class Deep(Leaf):
    deep_e: int = 0


class Mixin:
    pass


@dataclasses.dataclass
class LeafMixed(Mixin, Mid):     # the ancestor is reached through the SECOND base
    leaf_d: int = 0


INHERIT_RECIPES = {
    "rename": lambda: [name_mapping(Top, map={"top_a": "A"})],
    "nested_path": lambda: [name_mapping(Top, map={"top_a": ("grp", "a"), "top_b": ("grp", "b")})],
    "rename_mid_and_top": lambda: [name_mapping(Mid, map={"mid_c": "C"}), name_mapping(Top, map={"top_a": "A"})],
    "top_then_own": lambda: [name_mapping(Top, map={"top_a": "A"}), name_mapping(Leaf, map={"leaf_d": "D"}),
                             name_mapping(Deep, map={"deep_e": "E"}), name_mapping(LeafMixed, map={"leaf_d": "D"})],
    "skip": lambda: [name_mapping(Top, skip=["top_b"])],
    "two_levels": lambda: [name_mapping(Top, map={"top_a": "A"}), name_mapping(Mid, map={"mid_c": "C"})],
}
DESCENDANTS = {"Mid": Mid, "Leaf": Leaf, "Deep": Deep, "LeafMixed": LeafMixed}


def inherit_cases():
    for rname in INHERIT_RECIPES:
        for cname in ("Leaf", "Deep", "LeafMixed"):
            for mode in range(3):
                yield {"probe_kind": "inherit", "recipe": rname, "cls": cname, "mode": mode}


def _strip(dumped: dict, own: set):
    return {k: v for k, v in dumped.items() if k not in own}


def check_inherit(ctx, case):
    cls = DESCENDANTS[case["cls"]]
    retort = Retort(recipe=INHERIT_RECIPES[case["recipe"]](), debug_trail=DEBUG[case["mode"]])
    base_obj = Mid(top_a=1, top_b=2, mid_c=3)
    extra = {f.name: 9 for f in dataclasses.fields(cls) if f.name not in ("top_a", "top_b", "mid_c")}
    obj = cls(top_a=1, top_b=2, mid_c=3, **extra)
    try:
        ref = retort.dump(base_obj, Mid)
        got = retort.dump(obj, cls)
    except Exception as ex:  # noqa: BLE001
        ctx.violation("inherit_dump_failed", (case["recipe"], case["cls"], type(ex).__name__), case, f"{case}: {describe(ex)}")
        return
    own_keys = {k for k, v in got.items() if v == 9}
    ctx.case(["inherit", case], True, sample={"recipe": case["recipe"], "class": case["cls"], "mode": DEBUG_NAMES[case["mode"]],
                                               "direct_child_dump": ref, "descendant_dump": got},
             labels=["probe:inherit", f"inherit:{case['recipe']}"])
    if _strip(got, own_keys) != ref:
        ctx.violation("inherited_layout_depends_on_depth", (case["recipe"], case["cls"], "dump"), case,
                      f"recipe {case['recipe']}, mode={DEBUG_NAMES[case['mode']]}: the direct child Mid dumps the ancestor's fields as "
                      f"{ref!r}, the descendant {case['cls']} as {_strip(got, own_keys)!r} (whole dump {got!r})")
        return
    # the loader takes the fields from the same paths: what the dumper wrote loads back
    try:
        back = retort.load(got, cls)
    except Exception as ex:  # noqa: BLE001
        ctx.violation("inherited_layout_depends_on_depth", (case["recipe"], case["cls"], "load"), case,
                      f"recipe {case['recipe']}, mode={DEBUG_NAMES[case['mode']]}: {case['cls']} cannot load its own dump {got!r}: "
                      f"{describe(ex)}")
        return
    # (skip is, as observed, not inherited at all -- only the agreement between child and grandchild is asserted)
    expect = dataclasses.replace(obj, top_b=0) if case["recipe"] == "skip" and "top_b" not in ref else obj
    if back != expect:
        ctx.violation("inherited_layout_depends_on_depth", (case["recipe"], case["cls"], "load_value"), case,
                      f"recipe {case['recipe']}, mode={DEBUG_NAMES[case['mode']]}: load(dump(x)) = {back!r} for x = {obj!r}")
